import LsmModel.Lemmas.ContentLemmas2
/-
  LsmModel.Lemmas.IngestLemmas — helper layer for C14 (bulk ingestion).

  * `flushSealed_sep_none`      : without key-value separation (`blobTh = none`) the `sep` flag of `flushSealed` is
                                  irrelevant (the internal flush of `Ingestion::finish` runs with `sep := false`);
  * `c14_cutTables_gseq`        : `cutTables cuts l g` = `cutTables cuts l 0` up to the `gseq` field, hence
                                  `cutsOk` (stated with global seqno 0) also controls the tables of an ingestion
                                  (`c14_newTables_of_cut`);
  * `ingestCommit_good`         : the step lemma of `TreeState.ingestCommit` on a `Good` state whose memtables are
                                  all empty;
  * `ingest_good`               : the step lemma of `Op.ingest` (rotate + flush(0) + ingestCommit);
  * `okStep14`, `Reach14`, `lastWrite14`, `reach14_good` : C01's guarded run extended by `ingest`.
-/
namespace Lsm
set_option linter.unusedSectionVars false
set_option linter.unusedVariables false
variable {K : Type} [LT K] [DecidableLT K] [DecidableEq K] [LE K] [Std.IsLinearOrder K] [Std.LawfulOrderLT K]

/-! ## the internal flush: `sep := false` -/

/-- without key-value separation the `sep` flag of `flushSealed` does not matter -/
theorem flushSealed_sep_none (t : TreeState K) (hb : t.blobTh = none) (wm : Nat) (cuts : List (Nat × Nat))
    (sep : Bool) : t.flushSealed wm cuts sep = t.flushSealed wm cuts := by
  unfold TreeState.flushSealed
  cases sep <;> simp [hb]

/-! ## `cutTables` with a global seqno -/

/-- the global seqno only ends up in the `gseq` field of the cut tables -/
theorem c14_cutTables_gseq (cuts : List (Nat × Nat)) (l : List (Entry K)) (g : Nat) :
    cutTables cuts l g = (cutTables cuts l 0).map (fun ts => ts.map (fun tb => { tb with gseq := g })) := by
  induction cuts generalizing l with
  | nil => cases l <;> simp [cutTables]
  | cons c rest ih =>
    obtain ⟨id, n⟩ := c
    simp only [cutTables]
    split
    · rfl
    · split
      · split
        · rw [ih]
          cases cutTables rest (List.drop n l) 0 <;> rfl
        · rfl
      · rfl

theorem c14_cutsBetweenKeys_gseq (ts : List (TableM K)) (g : Nat) :
    cutsBetweenKeys (ts.map (fun tb => { tb with gseq := g })) = cutsBetweenKeys ts := by
  induction ts with
  | nil => rfl
  | cons a ts ih =>
    cases ts with
    | nil => rfl
    | cons b r =>
      simp only [List.map_cons, cutsBetweenKeys] at ih ⊢
      rw [ih]

/-- `newTables_of_cut` for tables that carry a global seqno `g` (`cutsOk` is stated with global seqno 0; by
    `c14_cutTables_gseq` that is the same condition) -/
theorem c14_newTables_of_cut {cuts : List (Nat × Nat)} {stream : List (Entry K)} {v : Version K} {g : Nat}
    {ts : List (TableM K)} (hs : IsSource stream) (hc : cutTables cuts stream g = some ts)
    (hok : cutsOk cuts stream v) : NewTables v stream ts := by
  have hcb : cutsBetweenKeys ts = true := by
    rw [c14_cutTables_gseq] at hc
    cases h0 : cutTables cuts stream 0 with
    | none => rw [h0] at hc; cases hc
    | some ts0 =>
      rw [h0] at hc
      simp only [Option.map_some, Option.some.injEq] at hc
      rw [← hc, c14_cutsBetweenKeys_gseq]
      exact hok.2.2 ts0 h0
  obtain ⟨h1, h2, h3⟩ := cutTables_run hs hc hcb
  refine ⟨h1, ?_, ?_, h3, h2, cutTables_entries hc⟩
  · rw [cutTables_ids hc]; exact hok.1
  · intro t ht hmem
    have : t.id ∈ cuts.map (·.1) := by rw [← cutTables_ids hc]; exact List.mem_map.2 ⟨t, ht, rfl⟩
    obtain ⟨c, hc', hce⟩ := List.mem_map.1 this
    exact hok.2.1 c hc' (by rw [hce]; exact hmem)

/-! ## the ingested stream -/

theorem c14_keys_nodup {items : List (Entry K)} (hs : (items.map (·.key)).Pairwise (· < ·)) :
    (items.map (·.key)).Nodup := by
  refine List.Pairwise.imp ?_ hs
  intro a b hab he
  exact lt_irrefl_key a (he ▸ hab)

/-- strictly ascending user keys make any re-stamping of the items a source -/
theorem c14_stream_source {items : List (Entry K)} (hs : (items.map (·.key)).Pairwise (· < ·))
    (f : Entry K → Entry K) (hf : ∀ e, (f e).key = e.key) : IsSource (items.map f) := by
  rw [IsSource, List.pairwise_map]
  rw [List.pairwise_map] at hs
  refine hs.imp ?_
  intro a b hab
  rw [ikLt_iff, hf, hf]
  exact Or.inl hab

theorem c14_keyOf_map (k : K) (items : List (Entry K)) (f : Entry K → Entry K) (hf : ∀ e, (f e).key = e.key) :
    keyOf k (items.map f) = (keyOf k items).map f := by
  induction items with
  | nil => rfl
  | cons e es ih =>
    rw [List.map_cons, keyOf_cons, keyOf_cons, ih, hf]
    split <;> rfl

/-- an item of a batch with pairwise distinct keys is what the batch holds for its key -/
theorem c14_batchGet_mem {items : List (Entry K)} (hnd : (items.map (·.key)).Nodup) {it : Entry K}
    (hit : it ∈ items) : batchGet items it.key = some it := by
  induction items with
  | nil => cases hit
  | cons e es ih =>
    rw [List.map_cons, List.nodup_cons] at hnd
    rw [batchGet, List.find?_cons]
    rcases List.mem_cons.1 hit with rfl | hit
    · simp
    · have hne : ¬ e.key = it.key := by
        intro he
        exact hnd.1 (List.mem_map.2 ⟨it, hit, he.symm⟩)
      simp only [hne, decide_false]
      exact ih hnd.2 hit

theorem c14_batchGet_key {items : List (Entry K)} {k : K} {it : Entry K} (h : batchGet items k = some it) :
    it ∈ items ∧ it.key = k := by
  have h1 := List.mem_of_find?_eq_some h
  have h2 := List.find?_some h
  exact ⟨h1, by simpa using h2⟩

theorem c14_batchGet_none {items : List (Entry K)} {k : K} (h : batchGet items k = none) :
    ∀ it ∈ items, it.key ≠ k := by
  intro it hit
  have := List.find?_eq_none.1 h it hit
  simpa using this

theorem c14_batchGet_of_not_mem {items : List (Entry K)} {k : K} (h : ∀ it ∈ items, it.key ≠ k) :
    batchGet items k = none := by
  rw [batchGet, List.find?_eq_none]
  intro it hit
  simpa using h it hit

/-! ## the commit of an ingestion -/

/-- `Ingestion::finish` after its internal flush, on a `Good` state in which every memtable of the latest super
    version is EMPTY: the invariant is kept, the counter advances by one, and every key of the ingested run reads the
    ingested entry (stamped with `g = t.seqCtr`), every other key reads what it read before. -/
theorem ingestCommit_good {t t' : TreeState K} (h : Good t) {items : List (Entry K)} {cuts : List (Nat × Nat)}
    (hi : t.ingestCommit items cuts = some t') (hlc : 0 < t.levelCount)
    (hsorted : (items.map (·.key)).Pairwise (· < ·))
    (hitems : ∀ e ∈ items, e.seqno = 0 ∧ (e.vt = .value ∨ e.vt = .tomb))
    (hempty : ∀ sv, t.latest? = some sv → ∀ id ∈ sv.active :: sv.sealed, t.mem id = [])
    (hok : ∀ sv, t.latest? = some sv →
      cutsOk cuts (items.map (fun (e : Entry K) => { e with seqno := e.seqno + t.seqCtr })) sv.version) :
    Good t' ∧ t'.seqCtr = t.seqCtr + 1 ∧ ∀ k, readOf t' k = match batchGet items k with
      | some it => live (some { it with seqno := t.seqCtr })
      | none => readOf t k := by
  obtain ⟨sv, hl, hg, hseq⟩ := h.sv
  unfold TreeState.ingestCommit at hi
  rw [hl] at hi
  simp only [h.blob, separate] at hi
  split at hi
  · cases hi
  · next tables hcut =>
    cases hi
    let f : Entry K → Entry K := fun e => { e with seqno := e.seqno + t.seqCtr }
    have hfk : ∀ e, (f e).key = e.key := fun _ => rfl
    have hstream : IsSource (items.map f) := c14_stream_source hsorted f hfk
    have hnt : NewTables sv.version (items.map f) tables := c14_newTables_of_cut hstream hcut (hok sv hl)
    have h0 : 0 < sv.version.levels.length := by rw [hg.lvl]; exact hlc
    have hnd := c14_keys_nodup hsorted
    let sv' : SuperVersion K := { sv with version := sv.version.withNewL0Run tables }
    have hv' : (sv.version.withNewL0Run tables).WF :=
      withNewL0Run_WF hg.vwf tables hnt.sorted hnt.ids hnt.fresh hnt.meta_ok hnt.src
    have hmemHist : ∀ k, memHist t sv k = [] := by
      intro k
      rw [memHist, hempty sv hl _ List.mem_cons_self, keyOf_nil, List.nil_append, List.flatMap_eq_nil_iff]
      intro id hid
      rw [hempty sv hl id (List.mem_cons_of_mem _ (List.mem_reverse.1 hid))]; rfl
    have hnew : ∀ k, keyHist t sv' k = (keyOf k items).map f ++ keyHist t sv k := by
      intro k
      rw [keyHist_eq, keyHist_eq]
      have : memHist t sv' k = memHist t sv k := rfl
      rw [this, hmemHist k, List.nil_append, List.nil_append]
      simp only [sv']
      rw [tabHist_eq_keyTables hv', withNewL0Run_keyTables hg.vwf tables h0 hnt.sorted hnt.ids hnt.fresh,
        List.flatMap_append, hnt.keyOf_filter, ← tabHist_eq_keyTables hg.vwf, c14_keyOf_map k items f hfk]
    have hl' := latest_install t sv' 0
    have hk' : ∀ k, keyHist (t.install sv' 0) { sv' with seqno := t.seqCtr } k
        = (keyOf k items).map f ++ keyHist t sv k := by
      intro k; rw [install_keyHist, hnew]
    have hnewE : ∀ k, ∀ e ∈ (keyOf k items).map f, e.seqno = t.seqCtr ∧ e.vt ≠ .weak := by
      intro k e he
      obtain ⟨x, hx, rfl⟩ := List.mem_map.1 he
      have hx' := (mem_keyOf.1 hx).1
      obtain ⟨hs0, hvt⟩ := hitems x hx'
      refine ⟨by simp only [f]; omega, ?_⟩
      simp only [f]
      rcases hvt with h1 | h1 <;> rw [h1] <;> decide
    refine ⟨⟨install_WF h.wf sv' 0, h.blob, _, hl', ?_, Or.inl ?_⟩, install_seqCtr t sv' 0, ?_⟩
    · refine ⟨hv', ?_, ?_, hg.nin, ?_, ?_, ?_⟩
      · show (sv.version.withNewL0Run tables).levels.length = t.levelCount
        rw [withNewL0Run_length]; exact hg.lvl
      · intro id hid
        obtain ⟨m, hm, hmid⟩ := hg.act id hid
        refine ⟨m, ?_, hmid⟩
        rw [install_mems, List.mem_filter]
        refine ⟨hm, ?_⟩
        rw [List.contains_iff_mem, List.mem_flatMap]
        exact ⟨_, latest_mem_hist hl', by rw [hmid]; exact hid⟩
      · intro k e he
        rw [hk', List.mem_append] at he
        rw [install_seqCtr]
        rcases he with he | he
        · have := (hnewE k e he).1; omega
        · have := hg.below k e he; omega
      · intro k e he
        rw [hk', List.mem_append] at he
        rcases he with he | he
        · exact (hnewE k e he).2
        · exact hg.noweak k e he
      · intro k
        rw [hk', Desc, List.pairwise_append]
        refine ⟨?_, hg.ord k, ?_⟩
        · have hlen := keyOf_length_le_one k items hnd
          match hm : keyOf k items, hlen with
          | [], _ => exact List.Pairwise.nil
          | [a], _ => exact List.pairwise_singleton _ _
        · intro a ha b hb
          have := (hnewE k a ha).1
          have := hg.below k b hb
          omega
    · show t.seqCtr < (t.install sv' 0).seqCtr
      rw [install_seqCtr]; exact Nat.lt_succ_self _
    · intro k
      rw [readOf, hl']
      simp only
      rw [hk', readOf, hl, batchGet_eq_head, List.head?_append, List.head?_map]
      cases hh : (keyOf k items).head? with
      | none => simp
      | some it =>
        have hit : it ∈ items := (mem_keyOf.1 (List.mem_of_head? hh)).1
        have h0 := (hitems it hit).1
        simp only [Option.map_some, Option.some_or, f, h0, Nat.zero_add]

/-! ## the internal rotate + flush leaves only empty memtables -/

/-- after `rotate_memtable` the active memtable is empty (either it was empty already — then nothing happens — or
    it was sealed and replaced by the fresh one) -/
theorem c14_rotate_active_empty (t : TreeState K) (m : Nat) (hf : t.freshMem m = true) (sv : SuperVersion K)
    (hl : t.latest? = some sv) :
    ∃ sv', (t.rotate m).latest? = some sv' ∧ (t.rotate m).mem sv'.active = [] := by
  unfold TreeState.rotate
  rw [hl]
  simp only
  split
  · next he => exact ⟨sv, hl, List.isEmpty_iff.1 he⟩
  · obtain ⟨r, hr⟩ := List.getLast?_eq_some_iff.mp hl
    refine ⟨{ sv with active := m, sealed := sv.sealed ++ [sv.active] }, ?_, ?_⟩
    · simp [TreeState.latest?, hr, replaceLatest_append]
    · show memOf (t.mems ++ [({ id := m, entries := [] } : MemtableM K)]) m = []
      rw [memOf_append_empty]
      exact mem_fresh t m hf

theorem c14_rotate_seqCtr (t : TreeState K) (m : Nat) : (t.rotate m).seqCtr = t.seqCtr := by
  rcases rotate_cases t m with he | ⟨r, sv, hr, he⟩ <;> rw [he]

/-- a flush of ALL sealed memtables on a state whose active memtable is empty leaves a latest super version
    without sealed memtables and with an empty active memtable; the counter advances by at most one -/
theorem c14_flushSealed_mems_empty {u t1 : TreeState K} {wm : Nat} {cuts : List (Nat × Nat)} {sep : Bool}
    (hf : u.flushSealed wm cuts sep = some t1) {sv : SuperVersion K} (hl : u.latest? = some sv)
    (hact : u.mem sv.active = []) :
    (∀ sv1, t1.latest? = some sv1 → ∀ id ∈ sv1.active :: sv1.sealed, t1.mem id = []) ∧
    (t1.seqCtr = u.seqCtr ∨ t1.seqCtr = u.seqCtr + 1) := by
  unfold TreeState.flushSealed at hf
  rw [hl] at hf
  simp only at hf
  split at hf
  · next hs =>
    split at hf
    · cases hf
      refine ⟨?_, Or.inl rfl⟩
      intro sv1 hl1 id hid
      obtain rfl : sv = sv1 := Option.some.inj (hl.symm.trans hl1)
      rw [List.isEmpty_iff.1 hs] at hid
      simp only [List.mem_cons, List.not_mem_nil, or_false] at hid
      rw [hid]; exact hact
    · cases hf
  · split at hf
    · cases hf
    · next tables _ =>
      cases hf
      refine ⟨?_, Or.inr (install_seqCtr _ _ _)⟩
      intro sv1 hl1 id hid
      have hl' := latest_install u { sv with version := sv.version.withNewL0Run tables, sealed := [] } wm
      have hsv1 := Option.some.inj (hl'.symm.trans hl1)
      rw [install_mem _ _ _ sv1 (latest_mem_hist hl1) id hid]
      subst hsv1
      simp only [List.mem_cons, List.not_mem_nil, or_false] at hid
      rw [hid]; exact hact

/-! ## the step lemma of `Op.ingest` -/

/-- the side conditions of `Op.ingest m fcuts items cuts` on the state `t` it is applied to:
    * the tree has a level 0;
    * the items come in strictly ascending user-key order (the `assert!(key > prev)` of `Ingestion::write` /
      `write_tombstone`), so keys are pairwise distinct;
    * every item has local seqno 0 and is a plain value or a (strong) tombstone;
    * the tables of the internal flush (`fcuts`) are as for `okStep`'s `flush` (watermark 0);
    * the tables of the ingested run (`cuts`) have fresh, pairwise distinct ids and end between distinct user keys,
      on the version the internal flush leaves behind (`cutsOk`; the stream is the items stamped with the global
      seqno `g = t1.seqCtr`) -/
def okIngest (t : TreeState K) (m : Nat) (fcuts : List (Nat × Nat)) (items : List (Entry K))
    (cuts : List (Nat × Nat)) : Prop :=
  0 < t.levelCount ∧
  (items.map (·.key)).Pairwise (· < ·) ∧
  (∀ e ∈ items, e.seqno = 0 ∧ (e.vt = .value ∨ e.vt = .tomb)) ∧
  (∀ sv, (t.rotate m).latest? = some sv → cutsOk fcuts ((t.rotate m).flushStream sv 0).1 sv.version) ∧
  (∀ t1 sv1, (t.rotate m).flushSealed 0 fcuts false = some t1 → t1.latest? = some sv1 →
    cutsOk cuts (items.map (fun (e : Entry K) => { e with seqno := e.seqno + t1.seqCtr })) sv1.version)

/-- the decomposition of an accepted `ingest` into its internal flush and the commit -/
theorem c14_ingest_split {t t' : TreeState K} {m : Nat} {fcuts cuts : List (Nat × Nat)} {items : List (Entry K)}
    (ha : t.applyOp (.ingest m fcuts items cuts) = some t') :
    t.freshMem m = true ∧ ∃ t1, (t.rotate m).flushSealed 0 fcuts false = some t1 ∧
      t1.ingestCommit items cuts = some t' := by
  simp only [TreeState.applyOp] at ha
  split at ha
  · next hf =>
    split at ha
    · next t1 h1 => exact ⟨hf, t1, h1, ha⟩
    · cases ha
  · cases ha

/-- what the internal rotate + flush(0) of an ingestion does on a `Good` state: invariant and reads are kept, all
    memtables of the resulting latest super version are empty, the counter moves by at most one -/
theorem c14_ingest_flush_good {t t1 : TreeState K} (h : Good t) {m : Nat} {fcuts : List (Nat × Nat)}
    (hfm : t.freshMem m = true) (hf : (t.rotate m).flushSealed 0 fcuts false = some t1) (hlc : 0 < t.levelCount)
    (hok : ∀ sv, (t.rotate m).latest? = some sv → cutsOk fcuts ((t.rotate m).flushStream sv 0).1 sv.version) :
    Good t1 ∧ (∀ k, readOf t1 k = readOf t k) ∧
    (∀ sv1, t1.latest? = some sv1 → ∀ id ∈ sv1.active :: sv1.sealed, t1.mem id = []) ∧
    (t1.seqCtr = t.seqCtr ∨ t1.seqCtr = t.seqCtr + 1) := by
  obtain ⟨hg1, hr1⟩ := rotate_good h m hfm
  have hf' := hf
  rw [flushSealed_sep_none _ hg1.blob] at hf'
  obtain ⟨hg2, hr2⟩ := flushSealed_good hg1 hf' (by rw [rotate_levelCount]; exact hlc) hok
  obtain ⟨sv, hl, _, _⟩ := h.sv
  obtain ⟨svr, hlr, hactr⟩ := c14_rotate_active_empty t m hfm sv hl
  obtain ⟨he, hc⟩ := c14_flushSealed_mems_empty hf hlr hactr
  rw [c14_rotate_seqCtr] at hc
  exact ⟨hg2, fun k => by rw [hr2, hr1], he, hc⟩

/-- **step lemma of bulk ingestion.** On a `Good` state, an accepted `ingest` satisfying `okIngest` keeps the
    invariant; with `g` the counter value after the internal flush (`t1.seqCtr`), the counter ends at `g + 1`, every
    ingested key reads the ingested entry stamped with `g`, and every other key reads what it read before. -/
theorem ingest_good {t t' : TreeState K} (h : Good t) {m : Nat} {fcuts cuts : List (Nat × Nat)}
    {items : List (Entry K)} (ha : t.applyOp (.ingest m fcuts items cuts) = some t')
    (hok : okIngest t m fcuts items cuts) :
    Good t' ∧ ∃ t1, (t.rotate m).flushSealed 0 fcuts false = some t1 ∧ Good t1 ∧ t'.seqCtr = t1.seqCtr + 1 ∧
      (t1.seqCtr = t.seqCtr ∨ t1.seqCtr = t.seqCtr + 1) ∧ (∀ k, readOf t1 k = readOf t k) ∧
      ∀ k, readOf t' k = match batchGet items k with
        | some it => live (some { it with seqno := t1.seqCtr })
        | none => readOf t k := by
  obtain ⟨hlc, hsorted, hitems, hokf, hokc⟩ := hok
  obtain ⟨hfm, t1, hf, hi⟩ := c14_ingest_split ha
  obtain ⟨hg1, hr1, hempty, hctr⟩ := c14_ingest_flush_good h hfm hf hlc hokf
  have hlc1 : 0 < t1.levelCount := by
    have h1 : t1.levelCount = (t.rotate m).levelCount := by
      have := hf
      unfold TreeState.flushSealed at this
      split at this
      · cases this
      · split at this
        · split at this
          · cases this; rfl
          · cases this
        · split at this
          · cases this
          · cases this; rfl
    rw [h1, rotate_levelCount]; exact hlc
  obtain ⟨hg', hc', hr'⟩ := ingestCommit_good hg1 hi hlc1 hsorted hitems hempty (fun sv1 hl1 => hokc t1 sv1 hf hl1)
  refine ⟨hg', t1, hf, hg1, hc', hctr, hr1, fun k => ?_⟩
  rw [hr' k]
  cases batchGet items k with
  | some it => rfl
  | none => exact hr1 k

/-! ## the guarded run with ingestions -/

/-- C01's alphabet (`okStep`) extended by `ingest` with the side conditions `okIngest` -/
def okStep14 (t : TreeState K) : Op K → Prop
  | .ingest m fcuts items cuts => okIngest t m fcuts items cuts
  | op => okStep t op

/-- a run in which every operation satisfies `okStep14` on the state it is applied to -/
inductive Reach14 : TreeState K → List (Op K) → TreeState K → Prop
  | refl (t : TreeState K) : Reach14 t [] t
  | step {t t' t'' : TreeState K} {op : Op K} {ops : List (Op K)} :
      okStep14 t op → t.applyOp op = some t' → Reach14 t' ops t'' → Reach14 t (op :: ops) t''

/-- the entry a single operation applied to state `t` writes for `k`: a `write` writes its batch entry; an `ingest`
    writes its item for `k` stamped with the global seqno `g` it allocates — the counter value after its internal
    flush — which depends on the state -/
def Op.lastWriteOf14 (t : TreeState K) (k : K) : Op K → Option (Entry K)
  | .write es => batchGet es k
  | .ingest m fcuts items _ =>
    match (t.rotate m).flushSealed 0 fcuts false with
    | some t1 => (batchGet items k).map (fun it => { it with seqno := t1.seqCtr })
    | none => none
  | _ => none

/-- the last entry written for `k` by a history started in state `t` (later operations win); the state is threaded
    through with `applyOp` because the seqno of an ingested entry is allocated at `finish` time -/
def lastWrite14 : TreeState K → List (Op K) → K → Option (Entry K)
  | _, [], _ => none
  | t, op :: ops, k =>
    match t.applyOp op with
    | none => none
    | some t' =>
      match lastWrite14 t' ops k with
      | some e => some e
      | none => op.lastWriteOf14 t k

theorem lastWrite14_nil (t : TreeState K) (k : K) : lastWrite14 t [] k = none := rfl

theorem lastWrite14_cons {t t' : TreeState K} {op : Op K} (ha : t.applyOp op = some t') (ops : List (Op K)) (k : K) :
    lastWrite14 t (op :: ops) k = match lastWrite14 t' ops k with
      | some e => some e
      | none => op.lastWriteOf14 t k := by
  simp only [lastWrite14, ha]

/-- without ingestions `lastWriteOf14` is C01's `lastWriteOf` -/
theorem lastWriteOf14_of_not_ingest (t : TreeState K) (k : K) (op : Op K)
    (h : ∀ m fc items cuts, op ≠ .ingest m fc items cuts) : op.lastWriteOf14 t k = op.lastWriteOf k := by
  cases op <;> first | rfl | exact absurd rfl (h _ _ _ _)

/-- one guarded step (C01's alphabet + `ingest`) keeps the invariant; reads change exactly by what it wrote -/
theorem applyOp_good14 {t t' : TreeState K} {op : Op K} (h : Good t) (hok : okStep14 t op)
    (ha : t.applyOp op = some t') :
    Good t' ∧ ∀ k, readOf t' k = match op.lastWriteOf14 t k with
      | some e => live (some e)
      | none => readOf t k := by
  cases op with
  | ingest m fcuts items cuts =>
    obtain ⟨hg', t1, hf, _, _, _, _, hr⟩ := ingest_good h ha hok
    refine ⟨hg', fun k => ?_⟩
    rw [hr k]
    simp only [Op.lastWriteOf14, hf]
    cases batchGet items k <;> rfl
  | write es => exact applyOp_good h (show okStep t (.write es) from hok) ha
  | rotate m => exact applyOp_good h (show okStep t (.rotate m) from hok) ha
  | flush wm m cuts => exact applyOp_good h (show okStep t (.flush wm m cuts) from hok) ha
  | flushCommit ids wm cuts => exact applyOp_good h (show okStep t (.flushCommit ids wm cuts) from hok) ha
  | merge ids dest wm f cuts => exact applyOp_good h (show okStep t (.merge ids dest wm f cuts) from hok) ha
  | move ids dest wm => exact applyOp_good h (show okStep t (.move ids dest wm) from hok) ha
  | drop ids wm => exact applyOp_good h (show okStep t (.drop ids wm) from hok) ha
  | clear m => exact applyOp_good h (show okStep t (.clear m) from hok) ha
  | reopen => exact applyOp_good h (show okStep t (.reopen) from hok) ha

theorem reach14_good {t t' : TreeState K} {ops : List (Op K)} (hr : Reach14 t ops t') (h : Good t) :
    Good t' ∧ ∀ k, readOf t' k = match lastWrite14 t ops k with
      | some e => live (some e)
      | none => readOf t k := by
  induction hr with
  | refl t => exact ⟨h, fun _ => rfl⟩
  | step hok ha _ ih =>
    obtain ⟨h1, hr1⟩ := applyOp_good14 h hok ha
    obtain ⟨h2, hr2⟩ := ih h1
    refine ⟨h2, fun k => ?_⟩
    rw [hr2 k, lastWrite14_cons ha]
    cases lastWrite14 _ _ k with
    | some e => rfl
    | none => exact hr1 k

/-- a `Reach14` run is a run of the state machine -/
theorem Reach14.run {t t' : TreeState K} {ops : List (Op K)} (hr : Reach14 t ops t') : t.run ops = some t' := by
  induction hr with
  | refl t => rfl
  | step _ ha _ ih => simp only [TreeState.run, ha, ih]

theorem Reach14.append {t t1 t2 : TreeState K} {ops1 ops2 : List (Op K)} (h1 : Reach14 t ops1 t1)
    (h2 : Reach14 t1 ops2 t2) : Reach14 t (ops1 ++ ops2) t2 := by
  induction h1 with
  | refl t => exact h2
  | step hok ha _ ih => exact .step hok ha (ih h2)

/-- C01's guarded runs are `Reach14` runs -/
theorem Reach.to14 {t t' : TreeState K} {ops : List (Op K)} (hr : Reach t ops t') : Reach14 t ops t' := by
  induction hr with
  | refl t => exact .refl t
  | @step t t' t'' op ops hok ha _ ih =>
    refine .step ?_ ha ih
    cases op <;> first | exact hok | exact hok.elim

/-- on C01's guarded runs (no ingestion) `lastWrite14` is C01's `lastWrite` -/
theorem lastWrite14_of_reach {t t' : TreeState K} {ops : List (Op K)} (hr : Reach t ops t') (k : K) :
    lastWrite14 t ops k = lastWrite ops k := by
  induction hr with
  | refl t => rfl
  | @step t t' t'' op ops hok ha _ ih =>
    have hne : ∀ m fc items cuts, op ≠ .ingest m fc items cuts := by
      intro m fc items cuts he
      subst he
      exact hok
    rw [lastWrite14_cons ha, ih, lastWrite, lastWriteOf14_of_not_ingest t k op hne]
    cases lastWrite ops k <;> rfl

/-- the writes of a concatenated history: the later part wins -/
theorem lastWrite14_append {t t1 : TreeState K} {ops1 : List (Op K)} (h1 : t.run ops1 = some t1)
    (ops2 : List (Op K)) (k : K) :
    lastWrite14 t (ops1 ++ ops2) k = match lastWrite14 t1 ops2 k with
      | some e => some e
      | none => lastWrite14 t ops1 k := by
  induction ops1 generalizing t with
  | nil =>
    simp only [TreeState.run, Option.some.injEq] at h1
    subst h1
    simp only [List.nil_append, lastWrite14_nil]
    cases lastWrite14 t ops2 k <;> rfl
  | cons op ops ih =>
    simp only [TreeState.run] at h1
    split at h1
    · next t' ha =>
      rw [List.cons_append, lastWrite14_cons ha, lastWrite14_cons ha, ih h1]
      cases lastWrite14 t1 ops2 k <;> rfl
    · cases h1

/-! ## ingestion at the level of `getAt` -/

/-- the commit is ONE `install` with watermark 0: snapshots up to the allocated seqno are untouched -/
theorem c14_ingestCommit_getAt {t1 t' : TreeState K} {items : List (Entry K)} {cuts : List (Nat × Nat)}
    (hi : t1.ingestCommit items cuts = some t') (S : Nat) (hS0 : 0 < S) (hS : S ≤ t1.seqCtr) (k : K) :
    t'.getAt k S = t1.getAt k S := by
  unfold TreeState.ingestCommit at hi
  split at hi
  · cases hi
  · simp only at hi
    split at hi
    · cases hi
    · cases hi; exact install_getAt _ _ 0 S hS0 hS (Nat.zero_le _) k

/-- the same for scans -/
theorem c14_ingestCommit_scanAt {t1 t' : TreeState K} {items : List (Entry K)} {cuts : List (Nat × Nat)}
    (hi : t1.ingestCommit items cuts = some t') (S : Nat) (hS0 : 0 < S) (hS : S ≤ t1.seqCtr)
    (lo hi' : Bound K) (w : List Dir) (overlay : Option (List (Entry K) × Nat)) :
    t'.scanAt S lo hi' w overlay = t1.scanAt S lo hi' w overlay := by
  unfold TreeState.ingestCommit at hi
  split at hi
  · cases hi
  · simp only at hi
    split at hi
    · cases hi
    · cases hi; exact install_scanAt _ _ 0 S hS0 hS (Nat.zero_le _) lo hi' w overlay

/-- **ingestion, observed through point reads.** `g := t1.seqCtr` is the global seqno the ingestion allocates
    (the counter after its internal flush). The counter ends at `g + 1`;
    * every snapshot at or above `g + 1` reads, for an ingested key, the ingested entry stamped `g`, and for any
      other key what the newest snapshots read before;
    * every positive snapshot `S ≤ g` reads exactly what it read before, for ALL keys. -/
theorem ingest_getAt {t t' : TreeState K} (h : Good t) {m : Nat} {fcuts cuts : List (Nat × Nat)}
    {items : List (Entry K)} (ha : t.applyOp (.ingest m fcuts items cuts) = some t')
    (hok : okIngest t m fcuts items cuts) :
    Good t' ∧ ∃ t1, (t.rotate m).flushSealed 0 fcuts false = some t1 ∧ t'.seqCtr = t1.seqCtr + 1 ∧
      (t1.seqCtr = t.seqCtr ∨ t1.seqCtr = t.seqCtr + 1) ∧
      (∀ k S S', t.seqCtr ≤ S → t'.seqCtr ≤ S' → t'.getAt k S' = match batchGet items k with
        | some it => some (live (some { it with seqno := t1.seqCtr }))
        | none => t.getAt k S) ∧
      (∀ S, 0 < S → S ≤ t1.seqCtr → ∀ k, t'.getAt k S = t.getAt k S) := by
  obtain ⟨hg', t1, hf, hg1, hc', hctr, hr1, hr'⟩ := ingest_good h ha hok
  obtain ⟨hfm, t1', hf', hi⟩ := c14_ingest_split ha
  obtain rfl : t1 = t1' := Option.some.inj (hf.symm.trans hf')
  refine ⟨hg', t1, hf, hc', hctr, ?_, ?_⟩
  · intro k S S' hS hS'
    rw [good_getAt hg' k S' hS', hr' k, good_getAt h k S hS]
    cases batchGet items k <;> rfl
  · intro S hS0 hS k
    rw [c14_ingestCommit_getAt hi S hS0 hS k]
    by_cases hle : S ≤ t.seqCtr
    · have hst : Steps 0 t t1 := .step (.rotate _ m hfm) (flushSealed_steps hf)
      exact hst.getAt_stable h.wf S hS0 hle (Nat.zero_le _) k
    · have h1 : t1.seqCtr ≤ S := by omega
      rw [good_getAt hg1 k S h1, hr1 k, good_getAt h k S (by omega)]

/-! ## what a point read can return -/

/-- whatever a point read at snapshot `S` returns is an entry of the key that is visible at `S` -/
theorem c14_svGet_visible (t : TreeState K) (sv : SuperVersion K) (k : K) (S : Nat) (e : Entry K)
    (h : t.svGet sv k S = some e) : e.key = k ∧ e.seqno < S := by
  have hmem : ∀ l : List (Entry K), ∀ x, memGet l k S = some x → x.key = k ∧ x.seqno < S := by
    intro l x hx
    unfold memGet at hx
    split at hx
    · cases hx
    · next hS =>
      split at hx
      · next y hy =>
        split at hx
        · next hk =>
          cases hx
          have := List.find?_some hy
          have hirr := lt_irrefl_key k
          simp only [hk, decide_true, Bool.true_and, Bool.not_eq_true', Bool.or_eq_false_iff,
            decide_eq_false_iff_not] at this
          exact ⟨hk, by omega⟩
        · cases hx
      · cases hx
  have hlive : ∀ o : Option (Entry K), live o = some e → o = some e := by
    intro o ho
    cases o with
    | none => cases ho
    | some x =>
      rw [live_some] at ho
      split at ho
      · cases ho
      · exact ho
  unfold TreeState.svGet at h
  split at h
  · next x hx => obtain rfl := Option.some.inj (hlive _ h); exact hmem _ _ hx
  · split at h
    · next x hx =>
      obtain rfl := Option.some.inj (hlive _ h)
      obtain ⟨id, _, hid⟩ := List.exists_of_findSome?_eq_some hx
      exact hmem _ _ hid
    · have hv := hlive _ h
      unfold versionGet at hv
      obtain ⟨r, _, hr⟩ := List.exists_of_findSome?_eq_some hv
      split at hr
      · next tb _ =>
        have := newest_some_basic hr
        exact ⟨this.2.1, this.2.2⟩
      · cases hr

theorem c14_getAt_visible (t : TreeState K) (k : K) (S : Nat) (e : Entry K) (h : t.getAt k S = some (some e)) :
    e.key = k ∧ e.seqno < S := by
  unfold TreeState.getAt at h
  cases hsv : getVersionForSnapshot t.hist S with
  | none => rw [hsv] at h; cases h
  | some sv =>
    rw [hsv] at h
    simp only [Option.map_some, Option.some.injEq] at h
    exact c14_svGet_visible t sv k S e h

end Lsm
