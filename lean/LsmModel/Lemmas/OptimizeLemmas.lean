import LsmModel.Table.Optimize
import LsmModel.Lemmas.RunLemmas
/-
  LsmModel.Lemmas.OptimizeLemmas — `optimize_runs` loses nothing, produces RUNs, and keeps overlapping tables
  in read order.
-/
set_option linter.unusedSectionVars false
namespace Lsm
variable {K : Type} [LT K] [DecidableLT K] [DecidableEq K]

/-! ### insertByLo -/

theorem mem_insertByLo (t x : TableM K) (r : Run K) : x ∈ insertByLo t r ↔ x = t ∨ x ∈ r := by
  induction r with
  | nil => simp [insertByLo]
  | cons y ys ih =>
    unfold insertByLo
    split
    · simp
    · simp only [List.mem_cons, ih]
      constructor
      · rintro (h | h | h) <;> simp [h]
      · rintro (h | h | h) <;> simp [h]

theorem insertByLo_perm (t : TableM K) (r : Run K) : (insertByLo t r).Perm (t :: r) := by
  induction r with
  | nil => simp [insertByLo]
  | cons y ys ih =>
    unfold insertByLo
    split
    · exact List.Perm.refl _
    · exact (List.Perm.cons y ih).trans (List.Perm.swap t y ys)

theorem insertByLo_ne_nil (t : TableM K) (r : Run K) : insertByLo t r ≠ [] := by
  cases r with
  | nil => simp [insertByLo]
  | cons y ys => unfold insertByLo; split <;> simp

/-! ### placeAt / place : permutation -/

theorem placeAt_flatten_perm (t : TableM K) (i : Nat) (runs : List (Run K)) :
    (placeAt t i runs).flatten.Perm (t :: runs.flatten) := by
  induction runs generalizing i with
  | nil => simp [placeAt]
  | cons r rs ih =>
    cases i with
    | zero =>
      simp only [placeAt, List.flatten_cons]
      exact (List.Perm.append_right _ (insertByLo_perm t r))
    | succ j =>
      simp only [placeAt, List.flatten_cons]
      have h1 : (r ++ (placeAt t j rs).flatten).Perm (r ++ t :: rs.flatten) :=
        List.Perm.append_left r (ih j)
      exact h1.trans List.perm_middle

theorem place_flatten_perm (runs : List (Run K)) (t : TableM K) :
    (place runs t).flatten.Perm (t :: runs.flatten) :=
  placeAt_flatten_perm t _ runs

theorem foldl_place_perm (l : List (TableM K)) (acc : List (Run K)) :
    (l.foldl place acc).flatten.Perm (acc.flatten ++ l) := by
  induction l generalizing acc with
  | nil => simp
  | cons t l ih =>
    simp only [List.foldl_cons]
    refine (ih (place acc t)).trans ?_
    have h1 : ((place acc t).flatten ++ l).Perm ((t :: acc.flatten) ++ l) :=
      List.Perm.append_right l (place_flatten_perm acc t)
    refine h1.trans ?_
    simpa using (List.perm_middle (a := t) (l₁ := acc.flatten) (l₂ := l)).symm

/-- (e) nothing lost, nothing invented -/
theorem optimize_perm (runs : List (Run K)) : (optimizeRuns runs).flatten.Perm runs.flatten := by
  unfold optimizeRuns
  split
  · exact List.Perm.refl _
  · simpa using foldl_place_perm runs.flatten []

/-! ### afterLastOverlap -/

theorem afterLastOverlap_le (t : TableM K) (runs : List (Run K)) :
    afterLastOverlap t runs ≤ runs.length := by
  induction runs with
  | nil => simp [afterLastOverlap]
  | cons r rs ih =>
    simp only [afterLastOverlap, List.length_cons]
    split
    · omega
    · split <;> omega

/-- no run at index ≥ afterLastOverlap overlaps t -/
theorem no_overlap_from (t : TableM K) (runs : List (Run K)) :
    ∀ i, afterLastOverlap t runs ≤ i → ∀ r, runs[i]? = some r → runOverlaps t r = false := by
  induction runs with
  | nil => intro i _ r h; simp at h
  | cons r0 rs ih =>
    intro i hi r hr
    unfold afterLastOverlap at hi
    simp only at hi
    split at hi
    · cases i with
      | zero => omega
      | succ j =>
        simp at hr
        exact ih j (by omega) r hr
    · rename_i hn
      have hn0 : afterLastOverlap t rs = 0 := by omega
      cases i with
      | zero =>
        simp at hr; subst hr
        split at hi
        · omega
        · rename_i h; simpa using h
      | succ j =>
        simp at hr
        exact ih j (by omega) r hr

/-- every run that overlaps `t` sits strictly before index `afterLastOverlap t runs` -/
theorem lt_afterLastOverlap (t : TableM K) (runs : List (Run K)) (i : Nat) (r : Run K)
    (hr : runs[i]? = some r) (ho : runOverlaps t r = true) : i < afterLastOverlap t runs := by
  apply Nat.lt_of_not_le
  intro hle
  have := no_overlap_from t runs i hle r hr
  simp [ho] at this

/-! ### placeAt : structure -/

/-- `placeAt` at an in-range index only replaces that run by `insertByLo t ·` -/
theorem placeAt_getElem? (t : TableM K) (i : Nat) (runs : List (Run K)) (hi : i < runs.length) (j : Nat) :
    (placeAt t i runs)[j]? = if j = i then (runs[j]?).map (insertByLo t) else runs[j]? := by
  induction runs generalizing i j with
  | nil => simp at hi
  | cons r rs ih =>
    cases i with
    | zero =>
      cases j with
      | zero => simp [placeAt]
      | succ j => simp [placeAt]
    | succ i =>
      cases j with
      | zero => simp [placeAt]
      | succ j =>
        simp only [placeAt, List.getElem?_cons_succ]
        rw [ih i (by simpa using hi) j]
        simp

/-- `placeAt` at an out-of-range index appends the singleton run -/
theorem placeAt_of_ge (t : TableM K) (i : Nat) (runs : List (Run K)) (hi : runs.length ≤ i) :
    placeAt t i runs = runs ++ [[t]] := by
  induction runs generalizing i with
  | nil => simp [placeAt]
  | cons r rs ih =>
    cases i with
    | zero => simp at hi
    | succ i => simp only [placeAt, List.cons_append]; rw [ih i (by simpa using hi)]

/-- every run after `placeAt` is an old run, `insertByLo t` of the run at index `i`, or `[t]` when `i` is out of range -/
theorem mem_placeAt (t : TableM K) (i : Nat) (runs : List (Run K)) (r : Run K)
    (h : r ∈ placeAt t i runs) :
    r ∈ runs ∨ (∃ r0, runs[i]? = some r0 ∧ r = insertByLo t r0) ∨ (runs.length ≤ i ∧ r = [t]) := by
  induction runs generalizing i with
  | nil => simp [placeAt] at h; simp [h]
  | cons r0 rs ih =>
    cases i with
    | zero =>
      simp only [placeAt, List.mem_cons] at h
      rcases h with h | h
      · right; left; exact ⟨r0, by simp, h⟩
      · left; simp [h]
    | succ i =>
      simp only [placeAt, List.mem_cons] at h
      rcases h with h | h
      · left; simp [h]
      · rcases ih i h with h | ⟨r1, h1, h2⟩ | ⟨h1, h2⟩
        · left; simp [h]
        · right; left; exact ⟨r1, by simpa using h1, h2⟩
        · right; right; exact ⟨by simpa using h1, h2⟩

section Order
variable [LE K] [Std.IsLinearOrder K] [Std.LawfulOrderLT K]

/-! ### insertByLo keeps RUN -/

theorem insertByLo_sorted (t : TableM K) (r : Run K) (hr : RunSorted r) (ht : ¬ t.hi < t.lo)
    (hno : runOverlaps t r = false) : RunSorted (insertByLo t r) := by
  induction r with
  | nil => simp [insertByLo, RunSorted, ht]
  | cons x xs ih =>
    have hc := runSorted_cons.1 hr
    simp only [runOverlaps, List.any_cons, Bool.or_eq_false_iff] at hno
    have hx := hno.1
    simp only [TableM.overlaps, Bool.and_eq_false_iff, Bool.not_eq_eq_eq_not, Bool.not_false,
      decide_eq_true_eq] at hx
    have ih' := ih hc.2.2 (by simpa [runOverlaps] using hno.2)
    unfold insertByLo
    split
    · rename_i hlt
      rw [runSorted_cons]
      refine ⟨ht, ?_, hr⟩
      intro y hy
      simp only [List.mem_cons] at hy
      rcases hy with rfl | hy
      · grind
      · have := hc.2.1 y hy
        grind
    · rename_i hlt
      rw [runSorted_cons]
      refine ⟨hc.1, ?_, ih'⟩
      intro y hy
      rw [mem_insertByLo] at hy
      rcases hy with rfl | hy
      · grind
      · exact hc.2.1 y hy

theorem insertByLo_ok (t : TableM K) (r : Run K) (hr : RunSorted r) (ht : ¬ t.hi < t.lo)
    (hno : runOverlaps t r = false) : RunOk (insertByLo t r) :=
  runOk_iff_sorted.2 ⟨insertByLo_ne_nil t r, insertByLo_sorted t r hr ht hno⟩

theorem runOk_singleton (t : TableM K) (ht : ¬ t.hi < t.lo) : RunOk [t] := by
  simp [RunOk, ht]

theorem place_runs_ok (runs : List (Run K)) (t : TableM K) (ht : ¬ t.hi < t.lo)
    (h : ∀ r ∈ runs, RunOk r) : ∀ r ∈ place runs t, RunOk r := by
  intro r hr
  rcases mem_placeAt t _ runs r hr with h1 | ⟨r0, h1, h2⟩ | ⟨_, h2⟩
  · exact h r h1
  · subst h2
    have hno := no_overlap_from t runs _ (Nat.le_refl _) r0 h1
    exact insertByLo_ok t r0 (h r0 (List.mem_of_getElem? h1)).sorted ht hno
  · subst h2; exact runOk_singleton t ht

theorem foldl_place_runs_ok (l : List (TableM K)) (acc : List (Run K))
    (hl : ∀ t ∈ l, ¬ t.hi < t.lo) (h : ∀ r ∈ acc, RunOk r) : ∀ r ∈ l.foldl place acc, RunOk r := by
  induction l generalizing acc with
  | nil => simpa using h
  | cons t l ih =>
    simp only [List.foldl_cons]
    exact ih (place acc t) (fun x hx => hl x (List.mem_cons_of_mem _ hx))
      (place_runs_ok acc t (hl t List.mem_cons_self) h)

/-- (e) the output of `optimize_runs` consists of RUNs -/
theorem optimize_runs_ok (runs : List (Run K)) (hl : ∀ t ∈ runs.flatten, ¬ t.hi < t.lo)
    (h : ∀ r ∈ runs, RunOk r) : ∀ r ∈ optimizeRuns runs, RunOk r := by
  unfold optimizeRuns
  split
  · exact h
  · exact foldl_place_runs_ok runs.flatten [] hl (by simp)

/-- variant: in the rebuilding branch (`2 ≤ runs.length`) only `lo ≤ hi` of every table is needed — the input
    runs need not be RUNs at all -/
theorem optimize_runs_ok_of_two_le (runs : List (Run K)) (hl : ∀ t ∈ runs.flatten, ¬ t.hi < t.lo)
    (h2 : 2 ≤ runs.length) : ∀ r ∈ optimizeRuns runs, RunOk r := by
  unfold optimizeRuns
  split
  · omega
  · exact foldl_place_runs_ok runs.flatten [] hl (by simp)

end Order

/-! ### read order of overlapping tables -/

/-- `a` occurs (strictly) before `b` in `l` -/
def before (l : List (TableM K)) (a b : TableM K) : Prop :=
  ∃ l1 l2 l3, l = l1 ++ a :: l2 ++ b :: l3

/-- index of the first run containing `t` -/
def runIdx (rs : List (Run K)) (t : TableM K) : Option Nat :=
  rs.findIdx? (fun r => decide (t ∈ r))

theorem runIdx_nil (t : TableM K) : runIdx ([] : List (Run K)) t = none := by simp [runIdx]

theorem runIdx_cons (r : Run K) (rs : List (Run K)) (t : TableM K) :
    runIdx (r :: rs) t = if t ∈ r then some 0 else (runIdx rs t).map (· + 1) := by
  simp [runIdx, List.findIdx?_cons]

theorem runIdx_getElem? {rs : List (Run K)} {t : TableM K} {i : Nat} (h : runIdx rs t = some i) :
    ∃ r, rs[i]? = some r ∧ t ∈ r := by
  obtain ⟨hi, hp, _⟩ := List.findIdx?_eq_some_iff_getElem.1 h
  exact ⟨rs[i], by simp [hi], by simpa using hp⟩

theorem runIdx_of_mem {rs : List (Run K)} {t : TableM K} (h : t ∈ rs.flatten) :
    ∃ i, runIdx rs t = some i := by
  induction rs with
  | nil => simp at h
  | cons r rs ih =>
    rw [runIdx_cons]
    by_cases hr : t ∈ r
    · exact ⟨0, by simp [hr]⟩
    · simp only [List.flatten_cons, List.mem_append, hr, false_or] at h
      obtain ⟨i, hi⟩ := ih h
      exact ⟨i + 1, by simp [hr, hi]⟩

theorem runIdx_append_singleton_of_mem {rs : List (Run K)} {x t : TableM K} (h : x ∈ rs.flatten) :
    runIdx (rs ++ [[t]]) x = runIdx rs x := by
  induction rs with
  | nil => simp at h
  | cons r rs ih =>
    simp only [List.cons_append, runIdx_cons]
    by_cases hr : x ∈ r
    · simp [hr]
    · simp only [List.flatten_cons, List.mem_append, hr, false_or] at h
      simp [hr, ih h]

/-- `placeAt` never moves an already placed table to another run index -/
theorem runIdx_placeAt_of_ne (t x : TableM K) (hne : x ≠ t) (i : Nat) (runs : List (Run K)) :
    runIdx (placeAt t i runs) x = runIdx runs x := by
  induction runs generalizing i with
  | nil => simp [placeAt, runIdx_cons, runIdx_nil, hne]
  | cons r rs ih =>
    cases i with
    | zero => simp [placeAt, runIdx_cons, mem_insertByLo, hne]
    | succ i => simp [placeAt, runIdx_cons, ih i]

/-- a fresh table lands exactly at the requested run index -/
theorem runIdx_placeAt_self (t : TableM K) (i : Nat) (runs : List (Run K)) (hnew : t ∉ runs.flatten)
    (hi : i ≤ runs.length) : runIdx (placeAt t i runs) t = some i := by
  induction runs generalizing i with
  | nil =>
    have : i = 0 := by simpa using hi
    subst this
    simp [placeAt, runIdx_cons]
  | cons r rs ih =>
    simp only [List.flatten_cons, List.mem_append, not_or] at hnew
    cases i with
    | zero => simp [placeAt, runIdx_cons, mem_insertByLo]
    | succ i =>
      simp only [placeAt, runIdx_cons, hnew.1, ↓reduceIte]
      rw [ih i hnew.2 (by simpa using hi)]
      simp

theorem overlaps_comm (a b : TableM K) : a.overlaps b = b.overlaps a := by
  simp [TableM.overlaps, Bool.and_comm]

/-- `place` puts a fresh table `t` strictly after every already placed table overlapping it -/
theorem place_after_overlapping (runs : List (Run K)) (t a : TableM K) (hnew : t ∉ runs.flatten)
    (ha : a ∈ runs.flatten) (ho : a.overlaps t = true) :
    ∃ i j, runIdx (place runs t) a = some i ∧ runIdx (place runs t) t = some j ∧ i < j := by
  have hne : a ≠ t := fun h => hnew (h ▸ ha)
  obtain ⟨i, hi⟩ := runIdx_of_mem ha
  obtain ⟨r, hr, har⟩ := runIdx_getElem? hi
  refine ⟨i, afterLastOverlap t runs, ?_, ?_, ?_⟩
  · unfold place; rw [runIdx_placeAt_of_ne t a hne]; exact hi
  · exact runIdx_placeAt_self t _ runs hnew (afterLastOverlap_le t runs)
  · apply lt_afterLastOverlap t runs i r hr
    simp only [runOverlaps, List.any_eq_true]
    exact ⟨a, har, by rw [overlaps_comm]; exact ho⟩

theorem before_concat {done : List (TableM K)} {t a b : TableM K} (h : before (done ++ [t]) a b) :
    before done a b ∨ (b = t ∧ a ∈ done) := by
  obtain ⟨l1, l2, l3, h⟩ := h
  rcases List.eq_nil_or_concat l3 with rfl | ⟨l3', c, rfl⟩
  · right
    have h' : done ++ [t] = (l1 ++ a :: l2) ++ [b] := by simpa using h
    obtain ⟨h1, h2⟩ := List.append_inj' h' rfl
    refine ⟨by simpa using h2.symm, ?_⟩
    subst h1; simp
  · left
    have h' : done ++ [t] = (l1 ++ a :: l2 ++ b :: l3') ++ [c] := by
      simpa [List.concat_eq_append] using h
    obtain ⟨h1, _⟩ := List.append_inj' h' rfl
    exact ⟨l1, l2, l3', h1⟩

theorem before_mem {l : List (TableM K)} {a b : TableM K} (h : before l a b) : a ∈ l ∧ b ∈ l := by
  obtain ⟨l1, l2, l3, rfl⟩ := h
  simp

/-- fold invariant: the placed tables are exactly `done`, and overlapping tables keep their read order across runs -/
def OrderInv (acc : List (Run K)) (done : List (TableM K)) : Prop :=
  (∀ x, x ∈ acc.flatten ↔ x ∈ done) ∧
  ∀ a b, before done a b → a.overlaps b = true →
    ∃ i j, runIdx acc a = some i ∧ runIdx acc b = some j ∧ i < j

theorem orderInv_nil : OrderInv ([] : List (Run K)) [] := by
  refine ⟨by simp, ?_⟩
  intro a b h
  have := (before_mem h).1
  simp at this

theorem orderInv_step {acc : List (Run K)} {done : List (TableM K)} {t : TableM K}
    (h : OrderInv acc done) (hnd : (done ++ [t]).Nodup) : OrderInv (place acc t) (done ++ [t]) := by
  obtain ⟨hmem, hord⟩ := h
  have htd : t ∉ done := by
    intro ht
    have := (List.nodup_append.1 hnd).2.2 t ht t (by simp)
    exact this rfl
  have hnew : t ∉ acc.flatten := fun h => htd ((hmem t).1 h)
  refine ⟨?_, ?_⟩
  · intro x
    rw [(place_flatten_perm acc t).mem_iff]
    simp only [List.mem_cons, hmem, List.mem_append, List.not_mem_nil, or_false]
    exact Or.comm
  · intro a b hb ho
    rcases before_concat hb with hb' | ⟨rfl, ha⟩
    · obtain ⟨i, j, hi, hj, hij⟩ := hord a b hb' ho
      have hm := before_mem hb'
      have hane : a ≠ t := fun h => htd (h ▸ hm.1)
      have hbne : b ≠ t := fun h => htd (h ▸ hm.2)
      refine ⟨i, j, ?_, ?_, hij⟩
      · unfold place; rw [runIdx_placeAt_of_ne t a hane]; exact hi
      · unfold place; rw [runIdx_placeAt_of_ne t b hbne]; exact hj
    · exact place_after_overlapping acc b a hnew ((hmem a).2 ha) ho

theorem orderInv_foldl (l done : List (TableM K)) (acc : List (Run K)) (h : OrderInv acc done)
    (hnd : (done ++ l).Nodup) : OrderInv (l.foldl place acc) (done ++ l) := by
  induction l generalizing done acc with
  | nil => simpa using h
  | cons t l ih =>
    simp only [List.foldl_cons]
    have e : done ++ t :: l = (done ++ [t]) ++ l := by simp
    rw [e] at hnd ⊢
    exact ih (done ++ [t]) (place acc t) (orderInv_step h (List.nodup_append.1 hnd).1) hnd

/-- (e) an overlapping table that came earlier in read order ends up in an earlier run -/
theorem optimize_order (runs : List (Run K)) (h2 : 2 ≤ runs.length) (hnd : runs.flatten.Nodup)
    (a b : TableM K) (hb : before runs.flatten a b) (ho : a.overlaps b = true) :
    ∃ i j, runIdx (optimizeRuns runs) a = some i ∧ runIdx (optimizeRuns runs) b = some j ∧ i < j := by
  have e : optimizeRuns runs = runs.flatten.foldl place [] := by
    unfold optimizeRuns; split
    · omega
    · rfl
  rw [e]
  have := orderInv_foldl runs.flatten [] [] orderInv_nil (by simpa using hnd)
  simp only [List.nil_append] at this
  exact this.2 a b hb ho

/-! ### non-vacuity: concrete runs over `K := Nat` (`mkT id lo hi`) -/
section Examples

/-- the repository's test vector: three mutually overlapping levels stay three runs, in read order -/
example : optimizeRuns [[mkT 2 12 15], [mkT 1 0 25], [mkT 0 0 2]]
    = [[mkT 2 12 15], [mkT 1 0 25], [mkT 0 0 2]] := by decide

/-- two disjoint runs are packed into one run -/
example : optimizeRuns [[mkT 0 0 2], [mkT 1 3 5]] = [[mkT 0 0 2, mkT 1 3 5]] := by decide

/-- ... also when they arrive in descending key order (`Run::push` re-sorts by `lo`) -/
example : optimizeRuns [[mkT 1 3 5], [mkT 0 0 2]] = [[mkT 0 0 2, mkT 1 3 5]] := by decide

/-- a mixed case: 3 runs → 2 runs; table 4 overlaps tables 1 and 3 (run 0) and is placed in run 1 -/
example : optimizeRuns [[mkT 0 0 2, mkT 1 10 12], [mkT 2 1 3, mkT 3 20 22], [mkT 4 11 21]]
    = [[mkT 0 0 2, mkT 1 10 12, mkT 3 20 22], [mkT 2 1 3, mkT 4 11 21]] := by decide

example : ∀ r ∈ optimizeRuns [[mkT 0 0 2, mkT 1 10 12], [mkT 2 1 3, mkT 3 20 22], [mkT 4 11 21]], RunOk r :=
  optimize_runs_ok _ (by decide) (by intro r hr; exact runOkB_iff.1 (by revert r hr; decide))

/-- instance of `optimize_order` on the test vector: table 2 is read before the overlapping table 1 -/
example : ∃ i j, runIdx (optimizeRuns [[mkT 2 12 15], [mkT 1 0 25], [mkT 0 0 2]]) (mkT 2 12 15) = some i ∧
    runIdx (optimizeRuns [[mkT 2 12 15], [mkT 1 0 25], [mkT 0 0 2]]) (mkT 1 0 25) = some j ∧ i < j :=
  optimize_order _ (by decide) (by decide) _ _ ⟨[], [], [mkT 0 0 2], rfl⟩ (by decide)

/-- `2 ≤ runs.length` is needed in `optimize_order`: a single (ill-formed) run is returned unchanged -/
example : runIdx (optimizeRuns [[mkT 0 0 5, mkT 1 3 9]]) (mkT 0 0 5) = some 0 ∧
    runIdx (optimizeRuns [[mkT 0 0 5, mkT 1 3 9]]) (mkT 1 3 9) = some 0 := by decide

/-- `Nodup` is needed in `optimize_order`: with a duplicated table `a`, `b` is before the second `a` and overlaps it,
    but the first run holding `a` (index 0) precedes the run of `b` (index 1) -/
example : runIdx (optimizeRuns [[mkT 0 0 5], [mkT 1 3 9], [mkT 0 0 5]]) (mkT 1 3 9) = some 1 ∧
    runIdx (optimizeRuns [[mkT 0 0 5], [mkT 1 3 9], [mkT 0 0 5]]) (mkT 0 0 5) = some 0 := by decide

/-- `lo ≤ hi` of every table is needed in `optimize_runs_ok` (rebuilding branch) -/
example : optimizeRuns [[mkT 0 5 1], [mkT 1 7 9]] = [[mkT 0 5 1, mkT 1 7 9]] := by decide

end Examples

#print axioms mem_insertByLo
#print axioms insertByLo_perm
#print axioms optimize_perm
#print axioms no_overlap_from
#print axioms insertByLo_ok
#print axioms optimize_runs_ok
#print axioms optimize_runs_ok_of_two_le
#print axioms optimize_order

end Lsm
