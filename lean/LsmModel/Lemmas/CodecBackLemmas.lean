import LsmModel.Lemmas.CodecBackLayout
/-
  LsmModel.Lemmas.CodecBackLemmas — state-machine reasoning about the double-ended decoder over a block whose bytes
  satisfy `Layout` (CodecBackLayout.lean).
-/
namespace Lsm.CodecBack
open Lsm Lsm.Codec

/-- explicit decoder state -/
def St (data : Bytes) (ri step bl bo : Nat) (lo lr : Nat) (lb : Option Nat) (ho : Nat) (p : Option Nat)
    (st : List Nat) (hb : Option Nat) : Dec :=
  { data := data, ri := ri, step := step, binLen := bl, binOff := bo, loOff := lo, loRem := lr, loBase := lb,
    hiOff := ho, hiPtr := p, hiStack := st, hiBase := hb }

/-- offsets of items `k .. k+c-1`, top (= last item) first -/
def stk (off : Nat → Nat) (k : Nat) : Nat → List Nat
  | 0 => []
  | c + 1 => off (k + c) :: stk off k c

theorem idx_div_mod (j ri x : Nat) (h : x < ri) : (j * ri + x) / ri = j ∧ (j * ri + x) % ri = x := by
  have hr : 0 < ri := by omega
  constructor
  · rw [Nat.mul_comm, Nat.mul_add_div hr, Nat.div_eq_of_lt h]; rfl
  · rw [Nat.mul_comm, Nat.mul_add_mod, Nat.mod_eq_of_lt h]

section
variable {data : Bytes} {ri : Nat} {items : List (Entry Bytes)} {off kOff : Nat → Nat} {d0 : Dec}

/-- number of restart intervals -/
abbrev nRof (ri : Nat) (items : List (Entry Bytes)) : Nat := (items.length + ri - 1) / ri

theorem d0_St (L : Layout data ri items off kOff d0) :
    d0 = St data ri d0.step (nRof ri items) d0.binOff 0 0 none 0 (some (nRof ri items)) [] none := L.d0_eq

theorem binGet_St (L : Layout data ri items off kOff d0) (j : Nat) (h : j * ri < items.length)
    (lo lr : Nat) (lb : Option Nat) (ho : Nat) (p : Option Nat) (st : List Nat) (hb : Option Nat) :
    (St data ri d0.step (nRof ri items) d0.binOff lo lr lb ho p st hb).binGet j = some (off (j * ri)) := by
  have h1 := L.bin j h
  rw [d0_St L] at h1
  exact h1

/-- the truncated-item loop of `fill_stack` inside restart interval `j` -/
theorem fillLoop_spec (L : Layout data ri items off kOff d0) (j : Nat) (S0 : List Nat)
    (lo lr : Nat) (lb : Option Nat) (p : Option Nat) :
    ∀ (t c : Nat), 1 ≤ c → c + t ≤ ri → j * ri + c ≤ items.length →
    Dec.fillLoop t (St data ri d0.step (nRof ri items) d0.binOff lo lr lb (off (j * ri + c)) p
        (stk off (j * ri) c ++ S0) (some (kOff j))) =
      some (St data ri d0.step (nRof ri items) d0.binOff lo lr lb
        (off (j * ri + min (c + t) (items.length - j * ri))) p
        (stk off (j * ri) (min (c + t) (items.length - j * ri)) ++ S0) (some (kOff j))) := by
  intro t
  induction t with
  | zero =>
    intro c _ _ h3
    have : min (c + 0) (items.length - j * ri) = c := by omega
    rw [this]; simp [Dec.fillLoop]
  | succ t ih =>
    intro c h1 h2 h3
    by_cases hend : j * ri + c = items.length
    · have hm : min (c + (t + 1)) (items.length - j * ri) = c := by omega
      rw [hm]
      simp only [Dec.fillLoop, St]
      rw [hend, L.endTrunc]
    · have hlt : j * ri + c < items.length := by omega
      obtain ⟨e, he⟩ : ∃ e, items[j * ri + c]? = some e := ⟨items[j * ri + c], by simp [hlt]⟩
      obtain ⟨hd, hm⟩ := idx_div_mod j ri c (by omega)
      have hp := L.trunc (j * ri + c) e he (by omega)
      rw [hd] at hp
      have hmono := L.off_mono (j * ri + c) hlt
      have ih' := ih (c + 1) (by omega) (by omega) (by omega)
      have e1 : c + 1 + t = c + (t + 1) := by omega
      rw [e1] at ih'
      simp only [Dec.fillLoop, St]
      rw [hp]
      simp only []
      have e2 : off (j * ri + c) + (off (j * ri + c + 1) - off (j * ri + c)) = off (j * ri + (c + 1)) := by
        rw [← Nat.add_assoc]; omega
      rw [e2]
      exact ih'


/-- `fill_stack` for restart interval `j` -/
theorem fillStack_spec (L : Layout data ri items off kOff d0) (j : Nat) (hj : j * ri < items.length) (S0 : List Nat)
    (lo lr : Nat) (lb : Option Nat) (ho : Nat) (hb : Option Nat) :
    Dec.fillStack (St data ri d0.step (nRof ri items) d0.binOff lo lr lb ho (some j) S0 hb) =
      some (St data ri d0.step (nRof ri items) d0.binOff lo lr lb
        (off (j * ri + min ri (items.length - j * ri))) (some j)
        (stk off (j * ri) (min ri (items.length - j * ri)) ++ S0) (some (kOff j))) := by
  have hri := L.ri_pos
  obtain ⟨e, he⟩ : ∃ e, items[j * ri]? = some e := ⟨items[j * ri], by simp [hj]⟩
  obtain ⟨hd, hm⟩ := idx_div_mod j ri 0 hri
  simp only [Nat.add_zero] at hd hm
  have hp := L.full (j * ri) e he hm
  rw [hd] at hp
  have hmono := L.off_mono (j * ri) hj
  have hb' := binGet_St L j hj lo lr lb ho (some j) S0 hb
  unfold Dec.fillStack
  simp only [St] at hb' ⊢
  rw [hb']
  simp only []
  rw [hp]
  simp only []
  have hl := fillLoop_spec L j S0 lo lr lb (some j) (ri - 1) 1 (by omega) (by omega) (by omega)
  have e1 : 1 + (ri - 1) = ri := by omega
  rw [e1] at hl
  have e2 : off (j * ri) + (off (j * ri + 1) - off (j * ri)) = off (j * ri + 1) := by omega
  rw [e2]
  simpa [St, stk] using hl

/-- `consume_stack_top` when the front cursor is not beyond the popped item: pops item `j*ri + c` of interval `j` -/
theorem consumeTop_spec (L : Layout data ri items off kOff d0) (j c : Nat) (hc : c < ri)
    (hlt : j * ri + c < items.length) (lo lr : Nat) (lb : Option Nat) (ho : Nat) (p : Option Nat)
    (hlo : lo ≤ off (j * ri + c)) :
    ∃ x, items[j * ri + c]? = some x.e ∧
    Dec.consumeTop (St data ri d0.step (nRof ri items) d0.binOff lo lr lb ho p
        (stk off (j * ri) (c + 1)) (some (kOff j))) =
      some (St data ri d0.step (nRof ri items) d0.binOff lo lr lb (off (j * ri + c)) p
        (stk off (j * ri) c) (some (kOff j)), some x) := by
  obtain ⟨e, he⟩ : ∃ e, items[j * ri + c]? = some e := ⟨items[j * ri + c], by simp [hlt]⟩
  obtain ⟨hd, hm⟩ := idx_div_mod j ri c hc
  have hnc : ¬ (lo > 0 ∧ off (j * ri + c) < lo) := by omega
  cases c with
  | zero =>
    have hp := L.full (j * ri + 0) e he hm
    rw [hd] at hp
    refine ⟨⟨e, kOff j, off (j * ri + 0 + 1) - off (j * ri + 0)⟩, he, ?_⟩
    simp only [Dec.consumeTop, St, stk]
    simp only [hnc, ↓reduceIte, List.isEmpty_nil]
    rw [hp]; rfl
  | succ c =>
    have hp := L.trunc (j * ri + (c + 1)) e he (by omega)
    rw [hd] at hp
    refine ⟨⟨e, 0, off (j * ri + (c + 1) + 1) - off (j * ri + (c + 1))⟩, he, ?_⟩
    simp only [Dec.consumeTop, St, stk]
    simp only [hnc, ↓reduceIte, List.isEmpty_cons, Bool.false_eq_true]
    rw [hp]; rfl

theorem nextBack_empty_eq (d : Dec) (p : Nat) (h1 : d.hiStack = []) (h2 : d.hiPtr = some (p + 1)) :
    d.nextBack = (match Dec.fillStack { d with hiPtr := some p } with
      | none => none
      | some d => d.consumeTop) := by
  obtain ⟨a1, a2, a3, a4, a5, a6, a7, a8, a9, a10, a11, a12⟩ := d
  simp only at h1 h2
  subst h1; subst h2
  rfl

theorem off_le_of_le (L : Layout data ri items off kOff d0) : ∀ (b a : Nat), a ≤ b → b ≤ items.length → off a ≤ off b := by
  intro b
  induction b with
  | zero => intro a h _; have : a = 0 := by omega
            subst this; exact Nat.le_refl _
  | succ b ih =>
    intro a h hb
    by_cases hab : a = b + 1
    · subst hab; exact Nat.le_refl _
    · have := ih a (by omega) (by omega); have := L.off_mono b (by omega); omega

theorem off_lt_of_lt (L : Layout data ri items off kOff d0) (a b : Nat) (h : a < b) (hb : b ≤ items.length) : off a < off b := by
  have h1 := off_le_of_le L b (a + 1) (by omega) hb
  have h2 := L.off_mono a (by omega)
  omega

/-- hi-side invariant: items `[.., m)` are still to be yielded from the back; `lo lr lb` = the front cursor's fields -/
def BInv (data : Bytes) (ri : Nat) (items : List (Entry Bytes)) (off kOff : Nat → Nat) (d0 : Dec)
    (lo lr : Nat) (lb : Option Nat) (m : Nat) (d : Dec) : Prop :=
  (∃ j c, d = St data ri d0.step (nRof ri items) d0.binOff lo lr lb (off m) (some j) (stk off (j * ri) c) (some (kOff j)) ∧
      m = j * ri + c ∧ c ≤ ri) ∨
  (d = St data ri d0.step (nRof ri items) d0.binOff lo lr lb 0 (some (nRof ri items)) [] none ∧ m = items.length)

theorem nR_facts (L : Layout data ri items off kOff d0) :
    ∃ j, nRof ri items = j + 1 ∧ j * ri < items.length ∧ items.length ≤ j * ri + ri := by
  have hri := L.ri_pos
  have hn : 0 < items.length := List.length_pos_iff.mpr L.nonempty
  have h1 : nRof ri items * ri ≤ items.length + ri - 1 := Nat.div_mul_le_self _ _
  have h2 : items.length + ri - 1 < (nRof ri items + 1) * ri := by
    rw [Nat.mul_comm]; exact Nat.lt_mul_div_succ _ hri
  rw [Nat.add_mul, Nat.one_mul] at h2
  obtain ⟨j, hj⟩ : ∃ j, nRof ri items = j + 1 := by
    refine ⟨nRof ri items - 1, ?_⟩
    have : nRof ri items ≠ 0 := by
      intro h0; rw [h0] at h2; omega
    omega
  rw [hj] at h1 h2
  rw [Nat.add_mul, Nat.one_mul] at h1 h2
  exact ⟨j, hj, by omega, by omega⟩

/-- the empty-stack case of `next_back`: scan interval `j`, yield its last item -/
theorem nextBack_fill (L : Layout data ri items off kOff d0) (m j : Nat) (lo lr : Nat) (lb : Option Nat) (ho : Nat)
    (hb : Option Nat) (hm : m + 1 ≤ items.length) (h1 : j * ri < m + 1)
    (h2 : m + 1 - j * ri = min ri (items.length - j * ri)) (hlo : lo ≤ off m) :
    ∃ d' x, (St data ri d0.step (nRof ri items) d0.binOff lo lr lb ho (some (j + 1)) [] hb).nextBack = some (d', some x) ∧
      items[m]? = some x.e ∧ BInv data ri items off kOff d0 lo lr lb m d' := by
  have hj : j * ri < items.length := by omega
  have hf := fillStack_spec L j hj [] lo lr lb ho hb
  obtain ⟨c, hc⟩ : ∃ c, min ri (items.length - j * ri) = c + 1 := ⟨min ri (items.length - j * ri) - 1, by omega⟩
  rw [hc] at hf h2
  have hmc : m = j * ri + c := by omega
  obtain ⟨x, hx, hct⟩ := consumeTop_spec L j c (by omega) (by omega) lo lr lb (off (j * ri + (c + 1))) (some j)
    (by rw [← hmc]; exact hlo)
  refine ⟨St data ri d0.step (nRof ri items) d0.binOff lo lr lb (off (j * ri + c)) (some j) (stk off (j * ri) c) (some (kOff j)),
    x, ?_, by rw [hmc]; exact hx, Or.inl ⟨j, c, by rw [← hmc], hmc, by omega⟩⟩
  rw [nextBack_empty_eq _ j rfl rfl]
  show (match Dec.fillStack (St data ri d0.step (nRof ri items) d0.binOff lo lr lb ho (some j) [] hb) with
    | none => none
    | some d => d.consumeTop) = _
  rw [hf]
  simp only [List.append_nil]
  exact hct

theorem nextBack_step (L : Layout data ri items off kOff d0) (m : Nat) (d : Dec) (lo lr : Nat) (lb : Option Nat)
    (hm : m + 1 ≤ items.length) (hlo : lo ≤ off m)
    (hI : BInv data ri items off kOff d0 lo lr lb (m + 1) d) :
    ∃ d' x, d.nextBack = some (d', some x) ∧ items[m]? = some x.e ∧ BInv data ri items off kOff d0 lo lr lb m d' := by
  have hri := L.ri_pos
  rcases hI with ⟨j, c, rfl, h1, h2⟩ | ⟨rfl, h1⟩
  · cases c with
    | zero =>
      cases j with
      | zero => simp at h1
      | succ j =>
        have e : (j + 1) * ri = j * ri + ri := by rw [Nat.add_mul, Nat.one_mul]
        simp only [stk]
        exact nextBack_fill L m j lo lr lb _ _ hm (by omega) (by omega) hlo
    | succ c =>
      have hmc : m = j * ri + c := by omega
      obtain ⟨x, hx, hct⟩ := consumeTop_spec L j c (by omega) (by omega) lo lr lb (off (m + 1)) (some j)
        (by rw [← hmc]; exact hlo)
      refine ⟨St data ri d0.step (nRof ri items) d0.binOff lo lr lb (off (j * ri + c)) (some j) (stk off (j * ri) c) (some (kOff j)),
        x, ?_, by rw [hmc]; exact hx, Or.inl ⟨j, c, by rw [← hmc], hmc, by omega⟩⟩
      unfold Dec.nextBack
      rw [hct]
  · obtain ⟨j, hj, hj1, hj2⟩ := nR_facts L
    have h := nextBack_fill L m j lo lr lb 0 none hm (by omega) (by omega) hlo
    rw [← hj] at h
    exact h

theorem BInv_fresh (L : Layout data ri items off kOff d0) : BInv data ri items off kOff d0 0 0 none items.length d0 :=
  Or.inr ⟨d0_St L, rfl⟩

theorem nextBack_done (L : Layout data ri items off kOff d0) (d : Dec) (lo lr : Nat) (lb : Option Nat)
    (hI : BInv data ri items off kOff d0 lo lr lb 0 d) : ∃ d', d.nextBack = some (d', none) := by
  rcases hI with ⟨j, c, rfl, h1, h2⟩ | ⟨_, h1⟩
  · have hc : c = 0 := by omega
    subst hc
    have hj : j = 0 := by
      have hri := L.ri_pos
      cases j with
      | zero => rfl
      | succ j => rw [Nat.add_mul, Nat.one_mul] at h1; omega
    subst hj
    exact ⟨St data ri d0.step (nRof ri items) d0.binOff lo lr lb (off 0) none [] (some (kOff 0)), rfl⟩
  · have hn : 0 < items.length := List.length_pos_iff.mpr L.nonempty
    omega

/-- draining from the back yields the remaining prefix reversed -/
theorem drainBack_BInv (L : Layout data ri items off kOff d0) :
    ∀ (m f : Nat) (d : Dec) (fr bk : Option (Option PItem)), m ≤ items.length → m + 1 ≤ f → fr = none → bk = none →
      BInv data ri items off kOff d0 0 0 none m d →
      Iter.drainBack f { dec := d, front := fr, back := bk } = some (items.take m).reverse := by
  intro m
  induction m with
  | zero =>
    intro f d fr bk _ hf hfr hbk hI
    subst hfr hbk
    obtain ⟨d', hd⟩ := nextBack_done L d 0 0 none hI
    cases f with
    | zero => omega
    | succ f => simp [Iter.drainBack, Iter.nextBack, hd, peekedValue]
  | succ m ih =>
    intro f d fr bk hm hf hfr hbk hI
    subst hfr hbk
    obtain ⟨d', x, hd, hx, hI'⟩ := nextBack_step L m d 0 0 none hm (Nat.zero_le _) hI
    cases f with
    | zero => omega
    | succ f =>
      simp only [Iter.drainBack, Iter.nextBack, hd]
      rw [ih f d' none none (by omega) (by omega) rfl rfl hI']
      rw [List.take_add_one, hx]
      simp

theorem length_le_data (L : Layout data ri items off kOff d0) : items.length + 1 ≤ data.length + 1 := by
  have h1 := L.off_le
  have h2 : ∀ i, i ≤ items.length → i ≤ off i := by
    intro i
    induction i with
    | zero => intro _; omega
    | succ i ih => intro h; have := ih (by omega); have := L.off_mono i (by omega); omega
  have := h2 items.length (Nat.le_refl _)
  omega

/-- backward iteration over a laid-out block yields the items reversed -/
theorem decodeBlockBack_of_layout (L : Layout data ri items off kOff d0) :
    decodeBlockBack data = some items.reverse := by
  unfold decodeBlockBack Iter.new
  rw [L.new]
  simp only [Option.map_some]
  have := drainBack_BInv L items.length (data.length + 1) d0 none none (Nat.le_refl _) (length_le_data L) rfl rfl (BInv_fresh L)
  rw [this, List.take_length]

end
end Lsm.CodecBack
