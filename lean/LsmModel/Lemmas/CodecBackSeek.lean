import LsmModel.Lemmas.CodecBackWalk
/-
  LsmModel.Lemmas.CodecBackSeek — the binary search over restart heads (`bsearch`, `partition_point`, `seek`)
  over a block whose bytes satisfy `Layout`.
-/
namespace Lsm.CodecBack
open Lsm Lsm.Codec

section
variable {data : Bytes} {ri : Nat} {items : List (Entry Bytes)} {off kOff : Nat → Nat} {d0 : Dec}

theorem lt_nR_iff (hri : 0 < ri) (j : Nat) : j < nRof ri items ↔ j * ri < items.length := by
  show j + 1 ≤ (items.length + ri - 1) / ri ↔ _
  rw [Nat.le_div_iff_mul_le hri, Nat.add_mul, Nat.one_mul]
  omega

/-- `pred` holds at restart head `j` (vacuous when out of range) -/
def HeadT (ri : Nat) (items : List (Entry Bytes)) (pred : Bytes → Nat → Bool) (j : Nat) : Prop :=
  ∀ e, items[j * ri]? = some e → pred e.key e.seqno = true

/-- `pred` fails at restart head `j` (vacuous when out of range) -/
def HeadF (ri : Nat) (items : List (Entry Bytes)) (pred : Bytes → Nat → Bool) (j : Nat) : Prop :=
  ∀ e, items[j * ri]? = some e → pred e.key e.seqno = false

/-- monotonicity of `pred` along the heads -/
def HeadMono (ri : Nat) (items : List (Entry Bytes)) (pred : Bytes → Nat → Bool) : Prop :=
  ∀ a b ea eb, a ≤ b → items[a * ri]? = some ea → items[b * ri]? = some eb →
    pred eb.key eb.seqno = true → pred ea.key ea.seqno = true

theorem bsearch_spec (L : Layout data ri items off kOff d0) (pred : Bytes → Nat → Bool)
    (hmono : HeadMono ri items pred)
    (lo lr : Nat) (lb : Option Nat) (ho : Nat) (p : Option Nat) (st : List Nat) (hb : Option Nat) :
    ∀ (f l r : Nat), l ≤ r → r ≤ nRof ri items → r - l < f →
      (∀ j, j < l → HeadT ri items pred j) → (∀ j, r ≤ j → HeadF ri items pred j) →
      ∃ left, (St data ri d0.step (nRof ri items) d0.binOff lo lr lb ho p st hb).bsearch pred f l r = some left ∧
        l ≤ left ∧ left ≤ r ∧
        (∀ j, j < left → HeadT ri items pred j) ∧ (∀ j, left ≤ j → HeadF ri items pred j) := by
  intro f
  induction f with
  | zero => intro l r _ _ h; omega
  | succ f ih =>
    intro l r hlr hr hf hT hF
    by_cases hlt : l < r
    · have hri := L.ri_pos
      have hmidr : (l + r) / 2 < r := by omega
      have hmidl : l ≤ (l + r) / 2 := by omega
      have hmid : (l + r) / 2 * ri < items.length := (lt_nR_iff hri _).mp (by omega)
      obtain ⟨e, he⟩ : ∃ e, items[(l + r) / 2 * ri]? = some e := ⟨items[(l + r) / 2 * ri], by simp [hmid]⟩
      obtain ⟨_, hm⟩ := idx_div_mod ((l + r) / 2) ri 0 hri
      simp only [Nat.add_zero] at hm
      have hk := L.restartKey _ e he hm
      have hb' := binGet_St L _ hmid lo lr lb ho p st hb
      rw [Dec.bsearch]
      simp only [hlt, if_true]
      rw [hb']
      simp only [St] at hk ⊢
      rw [hk]
      simp only []
      by_cases hp : pred e.key e.seqno = true
      · simp only [hp, if_true]
        have := ih ((l + r) / 2 + 1) r (by omega) hr (by omega)
          (by
            intro j hj e' he'
            exact hmono j ((l + r) / 2) e' e (by omega) he' he hp)
          hF
        obtain ⟨left, h1, h2, h3, h4, h5⟩ := this
        simp only [St] at h1
        exact ⟨left, h1, by omega, h3, h4, h5⟩
      · have hp' : pred e.key e.seqno = false := by simpa using hp
        simp only [hp', Bool.false_eq_true, if_false]
        have := ih l ((l + r) / 2) hmidl (by omega) (by omega) hT
          (by
            intro j hj e' he'
            cases hq : pred e'.key e'.seqno with
            | false => rfl
            | true =>
              have := hmono ((l + r) / 2) j e e' hj he he' hq
              rw [hp'] at this; cases this)
        obtain ⟨left, h1, h2, h3, h4, h5⟩ := this
        simp only [St] at h1
        exact ⟨left, h1, h2, by omega, h4, h5⟩
    · have : l = r := by omega
      subst this
      refine ⟨l, ?_, Nat.le_refl _, Nat.le_refl _, hT, hF⟩
      rw [Dec.bsearch]
      simp only [hlt, if_false]

theorem binIdxLen_St (L : Layout data ri items off kOff d0)
    (lo lr : Nat) (lb : Option Nat) (ho : Nat) (p : Option Nat) (st : List Nat) (hb : Option Nat) :
    (St data ri d0.step (nRof ri items) d0.binOff lo lr lb ho p st hb).binIdxLen = some (nRof ri items) := by
  have h1 := L.binIdxLen
  rw [d0_St L] at h1
  exact h1

/-- `partition_point`: returns restart head `j = left - 1` (or `0` when `left = 0`) -/
theorem partitionPoint_spec (L : Layout data ri items off kOff d0) (pred : Bytes → Nat → Bool)
    (hmono : HeadMono ri items pred)
    (lo lr : Nat) (lb : Option Nat) (ho : Nat) (p : Option Nat) (st : List Nat) (hb : Option Nat) :
    ∃ left j, (St data ri d0.step (nRof ri items) d0.binOff lo lr lb ho p st hb).partitionPoint pred
        = some (some (off (j * ri), j)) ∧
      j = left - 1 ∧ left ≤ nRof ri items ∧ j * ri < items.length ∧
      (∀ a, a < j → HeadT ri items pred a) ∧ (left = 0 ∨ HeadT ri items pred j) ∧
      (∀ a, j < a → HeadF ri items pred a) ∧ (left = 0 → HeadF ri items pred 0) := by
  have hri := L.ri_pos
  obtain ⟨n, hn, hn1, hn2⟩ := nR_facts L
  obtain ⟨left, hbs, _, hle, hT, hF⟩ := bsearch_spec L pred hmono lo lr lb ho p st hb
    (nRof ri items + 1) 0 (nRof ri items) (Nat.zero_le _) (Nat.le_refl _) (by omega)
    (by intro j hj; omega) (by
      intro j hj e he
      have : j * ri < items.length := by
        rcases Nat.lt_or_ge (j * ri) items.length with h | h
        · exact h
        · rw [List.getElem?_eq_none h] at he; cases he
      have := (lt_nR_iff (items := items) hri j).mpr this
      omega)
  have hlen := binIdxLen_St L lo lr lb ho p st hb
  have hg : ∀ j, j < nRof ri items →
      (St data ri d0.step (nRof ri items) d0.binOff lo lr lb ho p st hb).binGet j = some (off (j * ri)) :=
    fun j hj => binGet_St L j ((lt_nR_iff hri j).mp hj) lo lr lb ho p st hb
  have hne : ¬ (nRof ri items = 0) := by omega
  refine ⟨left, left - 1, ?_, rfl, hle, (lt_nR_iff hri _).mp (by omega), fun a ha => hT a (by omega), ?_,
    fun a ha => hF a (by omega), fun h0 => hF 0 (by omega)⟩
  · rw [Dec.partitionPoint, hlen]
    simp only [hne, if_false]
    rw [hbs]
    simp only []
    by_cases h0 : left = 0
    · subst h0
      simp only [if_true, Nat.zero_sub, Nat.zero_mul, L.off_zero]
    · simp only [h0, if_false]
      by_cases h1 : left = nRof ri items
      · simp only [h1, if_true]
        rw [hg _ (by omega)]
        rfl
      · simp only [h1, if_false]
        rw [hg _ (by omega)]
        rfl
  · by_cases h0 : left = 0
    · exact Or.inl h0
    · exact Or.inr (hT _ (by omega))

/-- `Decoder::seek` (first variant): positions the front cursor at restart head `j` -/
theorem seek_spec (L : Layout data ri items off kOff d0) (pred : Bytes → Nat → Bool)
    (hmono : HeadMono ri items pred)
    (lo lr : Nat) (lb : Option Nat) (ho : Nat) (p : Option Nat) (st : List Nat) (hb : Option Nat) :
    ∃ left j, (St data ri d0.step (nRof ri items) d0.binOff lo lr lb ho p st hb).seek pred false
        = some (St data ri d0.step (nRof ri items) d0.binOff (off (j * ri)) lr lb ho p st hb, true) ∧
      j = left - 1 ∧ left ≤ nRof ri items ∧ j * ri < items.length ∧
      (∀ a, a < j → HeadT ri items pred a) ∧ (left = 0 ∨ HeadT ri items pred j) ∧
      (∀ a, j < a → HeadF ri items pred a) ∧ (left = 0 → HeadF ri items pred 0) := by
  obtain ⟨left, j, hpp, rest⟩ := partitionPoint_spec L pred hmono lo lr lb ho p st hb
  refine ⟨left, j, ?_, rest⟩
  rw [Dec.seek]
  simp only [Bool.false_eq_true, if_false]
  rw [hpp]
  simp [St]

end
end Lsm.CodecBack

#print axioms Lsm.CodecBack.bsearch_spec
#print axioms Lsm.CodecBack.partitionPoint_spec
#print axioms Lsm.CodecBack.seek_spec
