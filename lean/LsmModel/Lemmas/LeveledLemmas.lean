import LsmModel.Tree.Leveled
import LsmModel.Lemmas.AdmissibleLemmas
/-
  LsmModel.Lemmas.LeveledLemmas — the choice of the Leveled strategy (`leveledChooseAt`, Tree/Leveled.lean) is
  `admissible` (Tree/Ops.lean) on every well-formed version that obeys usage protocol P6, for EVERY value of the
  float-dependent decisions `LevelPick`, every hidden set, size function and parameters.

  Layers:
  * slice windows: a window of a sorted run splits the run into "before", "window", "after";
  * key ranges: `runRange` / `levelRange` cover the tables they aggregate;
  * `admissible_of_pairs`   — `admissible` from the position condition for the pairs that SHARE A KEY only, hence
                              (with `Version.WF.meta_ok`) for the pairs whose recorded key ranges meet;
  * `admissible_two_level`  — the shape all Leveled branches have: inputs in a source level and the destination level,
                              nothing in between, no input meets a non-input of its own level, no source-level input
                              meets a destination-level non-input;
  * one lemma per branch (`trivialLmax`, `trivialL1`, `chooseL0`, `chooseLn`) and the assembly `leveled_choice_ok`.
-/
namespace Lsm
set_option linter.unusedSectionVars false
set_option linter.unusedVariables false
variable {K : Type} [LT K] [DecidableLT K] [DecidableEq K]

/-- usage protocol P6: every level ≥ 1 holds at most one run -/
def P6 (v : Version K) : Prop := ∀ i lvl, 1 ≤ i → v.levels[i]? = some lvl → lvl.length ≤ 1

/-- the recorded key ranges of two tables meet -/
def Overl (a b : TableM K) : Prop := ¬ a.hi < b.lo ∧ ¬ b.hi < a.lo

/-- `kr` covers the recorded range of `t` -/
def Covers (kr : K × K) (t : TableM K) : Prop := ¬ t.lo < kr.1 ∧ ¬ kr.2 < t.hi

/-! ## slice windows -/

theorem mem_windows {α : Type} {n : Nat} {l w : List α} (h : w ∈ windows n l) :
    ∃ i, i + n ≤ l.length ∧ w = (l.drop i).take n := by
  unfold windows at h
  rw [List.mem_map] at h
  obtain ⟨i, hi, rfl⟩ := h
  rw [List.mem_range] at hi
  exact ⟨i, by omega, rfl⟩

theorem mem_shrinkingWindows {α : Type} {l w : List α} (h : w ∈ shrinkingWindows l) :
    ∃ i n, 1 ≤ n ∧ i + n ≤ l.length ∧ w = (l.drop i).take n := by
  unfold shrinkingWindows at h
  rw [List.mem_flatMap] at h
  obtain ⟨n, hn, hw⟩ := h
  rw [List.mem_map] at hn
  obtain ⟨m, _, rfl⟩ := hn
  obtain ⟨i, hi, rfl⟩ := mem_windows hw
  exact ⟨i, m + 1, by omega, hi, rfl⟩

theorem mem_growingWindows {α : Type} {l w : List α} (h : w ∈ growingWindows l) :
    ∃ i n, 1 ≤ n ∧ i + n ≤ l.length ∧ w = (l.drop i).take n := by
  unfold growingWindows at h
  rw [List.mem_flatMap] at h
  obtain ⟨n, hn, hw⟩ := h
  rw [List.mem_map] at hn
  obtain ⟨m, _, rfl⟩ := hn
  obtain ⟨i, hi, rfl⟩ := mem_windows hw
  exact ⟨i, m + 1, by omega, hi, rfl⟩

theorem window_sublist {α : Type} (l : List α) (i n : Nat) : ((l.drop i).take n).Sublist l :=
  (List.take_sublist _ _).trans (List.drop_sublist _ _)

theorem window_ne_nil {α : Type} {l : List α} {i n : Nat} (hn : 1 ≤ n) (hi : i + n ≤ l.length) :
    (l.drop i).take n ≠ [] := by
  intro h
  have := congrArg List.length h
  simp only [List.length_take, List.length_drop, List.length_nil] at this
  omega

/-- a table of a sorted run outside a window lies entirely before or entirely after the window -/
theorem window_outside {r : Run K} (hs : r.Pairwise (fun a b => a.hi < b.lo)) (i n : Nat) {x : TableM K}
    (hx : x ∈ r) (hnw : x ∉ (r.drop i).take n) :
    (∀ y ∈ (r.drop i).take n, x.hi < y.lo) ∨ (∀ y ∈ (r.drop i).take n, y.hi < x.lo) := by
  obtain ⟨A, W, B, e, hW⟩ : ∃ A W B, r = A ++ (W ++ B) ∧ W = (r.drop i).take n :=
    ⟨r.take i, (r.drop i).take n, (r.drop i).drop n, by rw [List.take_append_drop, List.take_append_drop], rfl⟩
  rw [← hW] at hnw ⊢
  clear hW
  subst e
  rw [List.pairwise_append] at hs
  obtain ⟨_, hWB, hA⟩ := hs
  rw [List.pairwise_append] at hWB
  rcases List.mem_append.1 hx with h | h
  · exact Or.inl (fun y hy => hA x h y (List.mem_append_left _ hy))
  · rcases List.mem_append.1 h with h | h
    · exact absurd h hnw
    · exact Or.inr (fun y hy => hWB.2.2 y hy x h)

theorem pairwise_mem_ne {α : Type} {R : α → α → Prop} {l : List α} (h : l.Pairwise R) {a b : α}
    (ha : a ∈ l) (hb : b ∈ l) (hne : a ≠ b) : R a b ∨ R b a := by
  induction l with
  | nil => cases ha
  | cons x xs ih =>
    rw [List.pairwise_cons] at h
    rcases List.mem_cons.1 ha with rfl | ha' <;> rcases List.mem_cons.1 hb with rfl | hb'
    · exact absurd rfl hne
    · exact Or.inl (h.1 b hb')
    · exact Or.inr (h.1 a ha')
    · exact ih h.2 ha' hb'

/-! ## `tagged`: the run a tagged table sits in -/

theorem tagRuns_mem_run {li roff : Nat} {lvl : List (Run K)} {x : Nat × Nat × TableM K}
    (h : x ∈ tagRuns li roff lvl) : ∃ r, lvl[x.2.1 - roff]? = some r ∧ x.2.2 ∈ r := by
  induction lvl generalizing roff with
  | nil => simp [tagRuns_nil] at h
  | cons r lvl ih =>
    rw [tagRuns_cons, List.mem_append] at h
    rcases h with h | h
    · rw [List.mem_map] at h
      obtain ⟨tb, htb, rfl⟩ := h
      exact ⟨r, by simp, htb⟩
    · obtain ⟨r', hr', hm⟩ := ih h
      have hge := (tagRuns_mem h).2
      refine ⟨r', ?_, hm⟩
      have e : x.2.1 - roff = (x.2.1 - (roff + 1)) + 1 := by omega
      rw [e, List.getElem?_cons_succ]
      exact hr'

theorem tagLevels_mem_run {off : Nat} {L : List (List (Run K))} {x : Nat × Nat × TableM K}
    (h : x ∈ tagLevels off L) : ∃ lvl r, L[x.1 - off]? = some lvl ∧ lvl[x.2.1]? = some r ∧ x.2.2 ∈ r := by
  induction L generalizing off with
  | nil => simp [tagLevels_nil] at h
  | cons lvl L ih =>
    rw [tagLevels_cons, List.mem_append] at h
    rcases h with h | h
    · obtain ⟨r, hr, hm⟩ := tagRuns_mem_run h
      refine ⟨lvl, r, ?_, by simpa using hr, hm⟩
      rw [(tagRuns_mem h).1, Nat.sub_self]
      rfl
    · obtain ⟨lvl', r, hl, hr, hm⟩ := ih h
      have hge := (tagLevels_mem h).1
      refine ⟨lvl', r, ?_, hr, hm⟩
      have e : x.1 - off = (x.1 - (off + 1)) + 1 := by omega
      rw [e, List.getElem?_cons_succ]
      exact hl

/-- a tagged table sits in run `x.2.1` of level `x.1` -/
theorem tagged_mem_run {v : Version K} {x : Nat × Nat × TableM K} (h : x ∈ tagged v) :
    ∃ lvl r, v.levels[x.1]? = some lvl ∧ lvl[x.2.1]? = some r ∧ x.2.2 ∈ r := by
  have := tagLevels_mem_run h
  simpa using this

/-- a table of `v` (given by a tagged entry) whose id is among the ids of some tables of `v` is one of them -/
theorem tagged_mem_of_id {v : Version K} (hnd : (v.tables.map (·.id)).Nodup) {x : Nat × Nat × TableM K}
    (hx : x ∈ tagged v) {l : List (TableM K)} (hl : ∀ t ∈ l, t ∈ v.tables) (hid : x.2.2.id ∈ l.map (·.id)) :
    x.2.2 ∈ l := by
  obtain ⟨t, ht, he⟩ := List.mem_map.1 hid
  have : t = x.2.2 := inj_of_nodup_map _ hnd (hl t ht) (tagged_mem_tables hx) he
  exact this ▸ ht

/-- the level of a tagged table whose table is among the tables of level `i` -/
theorem tagged_lvl_of_mem {v : Version K} (hnd : (v.tables.map (·.id)).Nodup) {x : Nat × Nat × TableM K}
    (hx : x ∈ tagged v) {i : Nat} {lvl : List (Run K)} (h : v.levels[i]? = some lvl) (hm : x.2.2 ∈ lvl.flatten) :
    x.1 = i := by
  apply tagged_lvl_of_id hnd hx
  rw [levelTables_of_getElem? h]
  exact List.mem_map.2 ⟨x.2.2, hm, rfl⟩

section Order
variable [LE K] [Std.IsLinearOrder K] [Std.LawfulOrderLT K]

theorem level_tables_mem {v : Version K} {i : Nat} {lvl : List (Run K)} (h : v.levels[i]? = some lvl)
    {t : TableM K} (ht : t ∈ lvl.flatten) : t ∈ v.tables :=
  (level_tables_sublist (List.mem_of_getElem? h)).subset ht

theorem level_run_ok {v : Version K} (hv : v.WF) {i : Nat} {lvl : List (Run K)} (h : v.levels[i]? = some lvl)
    {r : Run K} (hr : r ∈ lvl) : RunOk r :=
  level_runs_ok hv (List.mem_of_getElem? h) r hr

/-! ## key ranges cover what they aggregate -/

theorem runRange_covers {w : List (TableM K)} (hs : RunSorted w) {kr : K × K} (h : runRange w = some kr) :
    ∀ t ∈ w, Covers kr t := by
  unfold runRange at h
  split at h
  · next f l hf hl =>
    simp only [Option.some.injEq] at h
    subst h
    intro t ht
    obtain ⟨ys, rfl⟩ := List.head?_eq_some_iff.1 hf
    obtain ⟨zs, hzs⟩ := List.getLast?_eq_some_iff.1 hl
    have h1 := runSorted_cons.1 hs
    have hlo : ¬ t.lo < f.lo := by
      rcases List.mem_cons.1 ht with rfl | ht'
      · exact Std.lt_irrefl
      · have := h1.2.1 t ht'
        have := h1.1
        grind
    have hhi : ¬ l.hi < t.hi := by
      rw [hzs] at hs ht
      obtain ⟨hle, hpw⟩ := hs
      rw [List.pairwise_append] at hpw
      rcases List.mem_append.1 ht with ht' | ht'
      · have := hpw.2.2 t ht' l (by simp)
        have := hle l (by simp)
        grind
      · simp only [List.mem_singleton] at ht'
        subst ht'
        exact Std.lt_irrefl
    exact ⟨hlo, hhi⟩
  · cases h

theorem runRange_isSome {w : List (TableM K)} (h : w ≠ []) : ∃ kr, runRange w = some kr := by
  cases w with
  | nil => exact absurd rfl h
  | cons a t =>
    unfold runRange
    have : ((a :: t).getLast?) = some ((a :: t).getLast (by simp)) := List.getLast?_eq_some_getLast _
    rw [List.head?_cons, this]
    exact ⟨_, rfl⟩

theorem aggregateRanges_foldl_covers (rest : List (K × K)) (acc : K × K) :
    let res := rest.foldl (fun acc x => (if x.1 < acc.1 then x.1 else acc.1, if acc.2 < x.2 then x.2 else acc.2)) acc
    (¬ acc.1 < res.1 ∧ ¬ res.2 < acc.2) ∧ ∀ q ∈ rest, ¬ q.1 < res.1 ∧ ¬ res.2 < q.2 := by
  induction rest generalizing acc with
  | nil => simp [Std.lt_irrefl]
  | cons x xs ih =>
    simp only [List.foldl_cons]
    have := ih (if x.1 < acc.1 then x.1 else acc.1, if acc.2 < x.2 then x.2 else acc.2)
    simp only at this
    obtain ⟨⟨h1, h2⟩, h3⟩ := this
    refine ⟨⟨?_, ?_⟩, ?_⟩
    · grind
    · grind
    · intro q hq
      rcases List.mem_cons.1 hq with rfl | hq'
      · constructor <;> grind
      · exact h3 q hq'

theorem aggregateRanges_covers (ek : K) (L : List (K × K)) :
    ∀ q ∈ L, ¬ q.1 < (aggregateRanges ek L).1 ∧ ¬ (aggregateRanges ek L).2 < q.2 := by
  cases L with
  | nil => intro q hq; cases hq
  | cons f rest =>
    intro q hq
    have := aggregateRanges_foldl_covers rest f
    simp only at this
    rcases List.mem_cons.1 hq with rfl | hq'
    · exact this.1
    · exact this.2 q hq'

/-- `Level::aggregate_key_range` covers every table of the level (all runs `RunOk`) -/
theorem levelRange_covers (ek : K) {lvl : List (Run K)} (hr : ∀ r ∈ lvl, RunOk r) :
    ∀ t ∈ lvl.flatten, Covers (levelRange ek lvl) t := by
  intro t ht
  obtain ⟨r, hrl, htr⟩ := List.mem_flatten.1 ht
  obtain ⟨kr, hkr⟩ := runRange_isSome (hr r hrl).1
  have hc := runRange_covers (hr r hrl).sorted hkr t htr
  unfold levelRange
  split
  · next r' =>
    simp only [List.mem_singleton] at hrl
    subst hrl
    rw [hkr]
    exact hc
  · have hq : kr ∈ lvl.filterMap runRange := List.mem_filterMap.2 ⟨r, hrl, hkr⟩
    have := aggregateRanges_covers ek _ kr hq
    unfold Covers at hc ⊢
    grind

theorem not_overl_of_ranges {kr1 kr2 : K × K} {t x : TableM K} (ht : Covers kr2 t) (hx : Covers kr1 x)
    (h : rangesOverlap kr1 kr2 = false) : ¬ Overl t x := by
  unfold rangesOverlap at h
  unfold Covers at ht hx
  unfold Overl
  simp only [Bool.and_eq_false_iff, Bool.not_eq_false', decide_eq_true_eq] at h
  grind

/-- a table of a run that `get_overlapping` does not return does not meet any table the query range covers -/
theorem not_overl_of_not_overlapping {nr : Run K} (hnr : RunOk nr) {kr : K × K} {t x : TableM K}
    (ht : Covers kr t) (hx : x ∈ nr) (hno : x ∉ getOverlapping nr kr.1 kr.2) : ¬ Overl t x := by
  intro ho
  apply hno
  unfold Covers at ht
  unfold Overl at ho
  apply getOverlapping_complete hnr kr.1 kr.2 x hx <;> grind

/-- tables sharing a user key have meeting recorded ranges -/
theorem overl_of_shared_key {t x : TableM K}
    (ht : ∀ e ∈ t.entries, t.containsKey e.key = true) (hx : ∀ e ∈ x.entries, x.containsKey e.key = true)
    (hs : ∃ a ∈ t.entries, ∃ b ∈ x.entries, a.key = b.key) : Overl t x := by
  obtain ⟨a, ha, b, hb, hk⟩ := hs
  have h1 := ht a ha
  have h2 := hx b hb
  simp only [TableM.containsKey, Bool.and_eq_true, Bool.not_eq_eq_eq_not, Bool.not_true,
    decide_eq_false_iff_not] at h1 h2
  unfold Overl
  grind

end Order

/-! ## sufficient conditions for `admissible` -/

/-- `admissible` from the position condition for the input / non-input pairs that share a user key -/
theorem admissible_of_pairs (v : Version K) (ids : List Nat) (dest : Nat) (evict : Bool)
    (h : ∀ t ∈ tagged v, ∀ x ∈ tagged v, t.2.2.id ∈ ids → x.2.2.id ∉ ids →
      (∃ a ∈ t.2.2.entries, ∃ b ∈ x.2.2.entries, a.key = b.key) →
      ((x.1 < t.1 ∨ (x.1 = t.1 ∧ x.2.1 < t.2.1)) ∧ x.1 < dest)
        ∨ (evict = false ∧ (t.1 < x.1 ∨ (t.1 = x.1 ∧ t.2.1 < x.2.1)) ∧ dest ≤ x.1)) :
    admissible v ids dest evict = true := by
  rw [admissible_eq, List.all_eq_true]
  intro t ht
  rw [List.mem_filter] at ht
  rw [List.all_eq_true]
  intro x hx
  rw [List.mem_filter] at hx
  have hti : t.2.2.id ∈ ids := by simpa using ht.2
  have hxi : x.2.2.id ∉ ids := by simpa using hx.2
  simp only
  split
  · rfl
  · next hsh =>
    have hs : ∃ a ∈ t.2.2.entries, ∃ b ∈ x.2.2.entries, a.key = b.key := by
      simp only [Bool.not_eq_true', Bool.not_eq_false] at hsh
      rw [List.any_eq_true] at hsh
      obtain ⟨a, ha, hb⟩ := hsh
      rw [List.any_eq_true] at hb
      obtain ⟨b, hb, hk⟩ := hb
      exact ⟨a, ha, b, hb, by simpa using hk⟩
    have := h t ht.1 x hx.1 hti hxi hs
    simp only [Bool.or_eq_true, Bool.and_eq_true, decide_eq_true_eq, Bool.not_eq_true']
    rcases this with h1 | h2
    · exact Or.inl h1
    · exact Or.inr ⟨⟨h2.1, h2.2.1⟩, h2.2.2⟩

section Order2
variable [LE K] [Std.IsLinearOrder K] [Std.LawfulOrderLT K]

/-- **the shape of every Leveled choice.** The inputs lie in the levels `src ≤ dest`, the levels strictly between
    are empty, tombstones are evicted only into the last level, and no input's key range meets the key range of a
    non-input of its own level or (for an input of `src`) of a non-input of level `dest`. -/
theorem admissible_two_level (v : Version K) (hv : v.WF) (ids : List Nat) (src dest : Nat) (evict : Bool)
    (hsd : src ≤ dest)
    (hin : ∀ t ∈ tagged v, t.2.2.id ∈ ids → t.1 = src ∨ t.1 = dest)
    (hgap : ∀ j, src < j → j < dest → v.levelTables j = [])
    (hev : evict = true → v.levels.length ≤ dest + 1)
    (hno : ∀ t ∈ tagged v, ∀ x ∈ tagged v, t.2.2.id ∈ ids → x.2.2.id ∉ ids →
      (x.1 = t.1 ∨ (t.1 = src ∧ x.1 = dest)) → ¬ Overl t.2.2 x.2.2) :
    admissible v ids dest evict = true := by
  apply admissible_of_pairs
  intro t ht x hx hti hxi hs
  have hov : Overl t.2.2 x.2.2 :=
    overl_of_shared_key (hv.meta_ok _ (tagged_mem_tables ht)) (hv.meta_ok _ (tagged_mem_tables hx)) hs
  have hne : x.1 ≠ t.1 := fun e => hno t ht x hx hti hxi (Or.inl e) hov
  have hxl := tagged_lvl_lt hx
  have hxne : v.levelTables x.1 ≠ [] := List.ne_nil_of_mem (tagged_mem_levelTables hx)
  rcases hin t ht hti with hts | htd
  · -- input at `src`
    have hnd : x.1 ≠ dest := fun e => hno t ht x hx hti hxi (Or.inr ⟨hts, e⟩) hov
    rcases Nat.lt_or_ge x.1 src with h | h
    · exact Or.inl ⟨Or.inl (by omega), by omega⟩
    · rcases Nat.lt_or_ge x.1 dest with h' | h'
      · exact absurd (hgap x.1 (by omega) h') hxne
      · cases evict with
        | false => exact Or.inr ⟨rfl, Or.inl (by omega), h'⟩
        | true => have := hev rfl; omega
  · -- input at `dest`
    rcases Nat.lt_or_ge x.1 dest with h | h
    · exact Or.inl ⟨Or.inl (by omega), h⟩
    · cases evict with
      | false => exact Or.inr ⟨rfl, Or.inl (by omega), h⟩
      | true => have := hev rfl; omega

/-- two different tables of a level that consists of at most one run do not meet -/
theorem same_level_disjoint {v : Version K} (hv : v.WF) {t x : Nat × Nat × TableM K}
    (ht : t ∈ tagged v) (hx : x ∈ tagged v) (hl : x.1 = t.1) {lvl : List (Run K)}
    (hlvl : v.levels[t.1]? = some lvl) (hone : lvl.length ≤ 1) (hne : t.2.2 ≠ x.2.2) : ¬ Overl t.2.2 x.2.2 := by
  obtain ⟨l1, r1, hl1, hr1, hm1⟩ := tagged_mem_run ht
  obtain ⟨l2, r2, hl2, hr2, hm2⟩ := tagged_mem_run hx
  rw [hl, hlvl] at hl2
  rw [hlvl] at hl1
  cases hl1
  cases hl2
  have e1 : t.2.1 = 0 := by
    have := (List.getElem?_eq_some_iff.1 hr1).1; omega
  have e2 : x.2.1 = 0 := by
    have := (List.getElem?_eq_some_iff.1 hr2).1; omega
  rw [e1] at hr1
  rw [e2, hr1] at hr2
  cases hr2
  have hok : RunOk r1 := level_run_ok hv hlvl (List.mem_of_getElem? hr1)
  unfold Overl
  rcases pairwise_mem_ne hok.2.2 hm1 hm2 hne with h | h
  · exact fun ho => ho.1 h
  · exact fun ho => ho.2 h

end Order2


/-! ## the common shape, in terms of the chosen tables -/

/-- what the theorems state about a chosen `(ids, dest)`: admissible for every eviction flag that is only set for
    the last level, `dest` is a level of the version, and the ids are ids of tables of the version -/
def InputsOk (v : Version K) (ids : List Nat) (dest : Nat) : Prop :=
  (∀ evict, (evict = true → v.levels.length ≤ dest + 1) → admissible v ids dest evict = true) ∧
  dest < v.levels.length ∧ ∀ i ∈ ids, i ∈ v.tableIds

/-- no chosen id is in the hidden set -/
def NotHidden (hidden ids : List Nat) : Prop := ∀ i ∈ ids, hidden.contains i = false

theorem isBlocked_false {hidden : List Nat} {ts : List (TableM K)} (h : isBlocked hidden ts = false) :
    ∀ t ∈ ts, hidden.contains t.id = false := by
  intro t ht
  unfold isBlocked at h
  rw [List.any_eq_false] at h
  simpa using h t ht

theorem levelIsBusy_false {v : Version K} {hidden : List Nat} {i : Nat} {lvl : List (Run K)}
    (hl : v.levels[i]? = some lvl) (h : levelIsBusy v hidden i = false) :
    ∀ t ∈ lvl.flatten, hidden.contains t.id = false := by
  unfold levelIsBusy at h
  rw [hl] at h
  exact isBlocked_false h

section Order3
variable [LE K] [Std.IsLinearOrder K] [Std.LawfulOrderLT K]

/-- **inputs `A` from level `src` and `B` from level `d ≥ src`.** Either all of level `src` is input or it is a
    single run; `B` is empty or level `d` is a single run; nothing strictly between; no table of `A` meets a
    non-input table of level `d`. -/
theorem two_level_choice_ok (v : Version K) (hv : v.WF) (src d : Nat) (hsd : src ≤ d)
    {ls ld : List (Run K)} (hs : v.levels[src]? = some ls) (hd : v.levels[d]? = some ld)
    (A B : List (TableM K)) (hA : ∀ t ∈ A, t ∈ ls.flatten) (hB : ∀ t ∈ B, t ∈ ld.flatten)
    (ids : List Nat) (hids : ∀ i, i ∈ ids ↔ (i ∈ A.map (·.id) ∨ i ∈ B.map (·.id)))
    (hgap : ∀ j, src < j → j < d → v.levelTables j = [])
    (hsrc : (∀ t ∈ ls.flatten, t ∈ A) ∨ ls.length ≤ 1)
    (hdst : src < d → (B = [] ∨ ld.length ≤ 1))
    (hno : src < d → ∀ t ∈ A, ∀ x ∈ ld.flatten, x ∉ B → ¬ Overl t x) :
    InputsOk v ids d := by
  have hAt : ∀ t ∈ A, t ∈ v.tables := fun t ht => level_tables_mem hs (hA t ht)
  have hBt : ∀ t ∈ B, t ∈ v.tables := fun t ht => level_tables_mem hd (hB t ht)
  -- where an input sits
  have hwhere : ∀ t ∈ tagged v, t.2.2.id ∈ ids → (t.2.2 ∈ A ∧ t.1 = src) ∨ (t.2.2 ∈ B ∧ t.1 = d) := by
    intro t ht hti
    rcases (hids _).1 hti with h | h
    · have hm := tagged_mem_of_id hv.nodup ht hAt h
      exact Or.inl ⟨hm, tagged_lvl_of_mem hv.nodup ht hs (hA _ hm)⟩
    · have hm := tagged_mem_of_id hv.nodup ht hBt h
      exact Or.inr ⟨hm, tagged_lvl_of_mem hv.nodup ht hd (hB _ hm)⟩
  refine ⟨fun evict hev => ?_, (List.getElem?_eq_some_iff.1 hd).1, ?_⟩
  · apply admissible_two_level v hv ids src d evict hsd
      (fun t ht hti => (hwhere t ht hti).elim (fun h => Or.inl h.2) (fun h => Or.inr h.2)) hgap hev
    intro t ht x hx hti hxi hcase
    have hne : t.2.2 ≠ x.2.2 := fun e => hxi (e ▸ hti)
    have hxA : x.2.2 ∉ A := fun h => hxi ((hids _).2 (Or.inl (List.mem_map.2 ⟨_, h, rfl⟩)))
    have hxB : x.2.2 ∉ B := fun h => hxi ((hids _).2 (Or.inr (List.mem_map.2 ⟨_, h, rfl⟩)))
    by_cases hts : t.1 = src
    · rcases hcase with hsame | ⟨_, hxd⟩
      · -- a non-input of the source level
        rcases hsrc with hall | hone
        · have : x.2.2 ∈ ls.flatten := by
            have := tagged_mem_levelTables hx
            rwa [hsame, hts, levelTables_of_getElem? hs] at this
          exact absurd (hall _ this) hxA
        · exact same_level_disjoint hv ht hx hsame (hts ▸ hs) hone hne
      · by_cases hlt : src < d
        · have htA : t.2.2 ∈ A := by
            rcases hwhere t ht hti with h | h
            · exact h.1
            · omega
          have hxl : x.2.2 ∈ ld.flatten := by
            have := tagged_mem_levelTables hx
            rwa [hxd, levelTables_of_getElem? hd] at this
          exact hno hlt _ htA _ hxl hxB
        · -- `src = d`: `x` is a non-input of the source level
          have hsame : x.1 = t.1 := by omega
          rcases hsrc with hall | hone
          · have : x.2.2 ∈ ls.flatten := by
              have := tagged_mem_levelTables hx
              rwa [hsame, hts, levelTables_of_getElem? hs] at this
            exact absurd (hall _ this) hxA
          · exact same_level_disjoint hv ht hx hsame (hts ▸ hs) hone hne
    · -- the input sits at `d ≠ src`, so it is one of `B`
      have htB : t.2.2 ∈ B ∧ t.1 = d := by
        rcases hwhere t ht hti with h | h
        · exact absurd h.2 hts
        · exact h
      have hsame : x.1 = t.1 := by
        rcases hcase with h | ⟨h, _⟩
        · exact h
        · exact absurd h hts
      rcases hdst (by omega) with hnil | hone
      · rw [hnil] at htB; cases htB.1
      · exact same_level_disjoint hv ht hx hsame (htB.2 ▸ hd) hone hne
  · intro i hi
    unfold Version.tableIds
    rcases (hids i).1 hi with h | h
    · obtain ⟨t, ht, rfl⟩ := List.mem_map.1 h
      exact List.mem_map.2 ⟨t, hAt t ht, rfl⟩
    · obtain ⟨t, ht, rfl⟩ := List.mem_map.1 h
      exact List.mem_map.2 ⟨t, hBt t ht, rfl⟩

/-- a table of a level that `levelOverlapping` does not return meets no table the query range covers -/
theorem not_overl_of_levelOverlapping {tl : List (Run K)} (hr : ∀ r ∈ tl, RunOk r) {kr : K × K} {t x : TableM K}
    (ht : Covers kr t) (hx : x ∈ tl.flatten) (hno : x ∉ levelOverlapping tl kr) : ¬ Overl t x := by
  obtain ⟨r, hrl, hxr⟩ := List.mem_flatten.1 hx
  apply not_overl_of_not_overlapping (hr r hrl) ht hxr
  intro h
  exact hno (List.mem_flatMap.2 ⟨r, hrl, h⟩)

theorem getOverlapping_subset (r : Run K) (lo hi : K) : ∀ t ∈ getOverlapping r lo hi, t ∈ r := by
  intro t ht
  unfold getOverlapping at ht
  split at ht
  · cases ht
  · exact (window_sublist r _ _).subset ht

theorem levelOverlapping_subset (tl : List (Run K)) (kr : K × K) :
    ∀ t ∈ levelOverlapping tl kr, t ∈ tl.flatten := by
  intro t ht
  obtain ⟨r, hr, h⟩ := List.mem_flatMap.1 ht
  exact List.mem_flatten.2 ⟨r, hr, getOverlapping_subset r _ _ t h⟩

end Order3


/-! ## `first_non_empty_level`, `canonical_l1_idx` -/

theorem firstNonEmptyFrom_gap (i : Nat) (ls : List (List (Run K))) (j : Nat) (hij : i ≤ j)
    (hk : ∀ k, firstNonEmptyFrom i ls = some k → j < k) : ∀ l, ls[j - i]? = some l → l = [] := by
  induction ls generalizing i with
  | nil => intro l hl; simp at hl
  | cons a ls ih =>
    intro l hl
    unfold firstNonEmptyFrom at hk
    by_cases ha : a.isEmpty = true
    · simp only [ha, Bool.not_true, Bool.false_eq_true, if_false] at hk
      by_cases hji : j = i
      · subst hji
        simp only [Nat.sub_self, List.getElem?_cons_zero, Option.some.injEq] at hl
        subst hl
        exact List.isEmpty_iff.1 ha
      · have e : j - i = (j - (i + 1)) + 1 := by omega
        rw [e, List.getElem?_cons_succ] at hl
        exact ih (i + 1) (by omega) hk l hl
    · simp only [ha, Bool.not_false, if_true] at hk
      have := hk i rfl
      omega

/-- every level strictly between L0 and `first_non_empty_level` is empty -/
theorem fne_gap (v : Version K) : ∀ j, 1 ≤ j → j < firstNonEmptyLevel v → v.levelTables j = [] := by
  intro j h1 hj
  by_cases hlen : v.levels.length ≤ j
  · exact levelTables_of_ge v hlen
  · have hlt : j < v.levels.length := by omega
    have hget : (v.levels.drop 1)[j - 1]? = some v.levels[j] := by
      rw [List.getElem?_drop]
      have : 1 + (j - 1) = j := by omega
      rw [this]
      exact List.getElem?_eq_getElem hlt
    have := firstNonEmptyFrom_gap 1 (v.levels.drop 1) j h1 (by
      intro k hk
      unfold firstNonEmptyLevel at hj
      rw [hk] at hj
      exact hj) _ hget
    have hl : v.levels[j]? = some v.levels[j] := List.getElem?_eq_getElem hlt
    rw [levelTables_of_getElem? hl, this]
    rfl

theorem canonicalL1_le (v : Version K) (pick : LevelPick) : canonicalL1 v pick ≤ firstNonEmptyLevel v := by
  unfold canonicalL1
  simp only
  split <;> omega

theorem mem_range_drop_one {j n : Nat} (h : j ∈ (List.range n).drop 1) : 1 ≤ j ∧ j < n := by
  have hm := List.mem_of_mem_drop h
  rw [List.mem_range] at hm
  refine ⟨?_, hm⟩
  cases n with
  | zero => simp at h
  | succ n =>
    rw [List.range_succ_eq_map] at h
    simp only [List.drop_succ_cons, List.drop_zero, List.mem_map] at h
    obtain ⟨a, _, rfl⟩ := h
    omega

theorem range_drop_one_mem {j n : Nat} (h1 : 1 ≤ j) (hn : j < n) : j ∈ (List.range n).drop 1 := by
  cases n with
  | zero => omega
  | succ n =>
    rw [List.range_succ_eq_map]
    simp only [List.drop_succ_cons, List.drop_zero, List.mem_map, List.mem_range]
    exact ⟨j - 1, by omega, by omega⟩

theorem levelTables_of_levelEmptyAt {v : Version K} {j : Nat} (h : levelEmptyAt v j = true) :
    v.levelTables j = [] := by
  unfold levelEmptyAt at h
  unfold Version.levelTables
  split at h
  · next lvl hl =>
    rw [hl, List.isEmpty_iff.1 h]
    rfl
  · next hl => rw [hl]; rfl

/-! ## `minByKey`, `pick_minimal_compaction` -/

theorem foldl_min_mem {α : Type} (key : α → Nat) (xs : List α) (best : α) :
    xs.foldl (fun best y => if key y < key best then y else best) best = best ∨
    xs.foldl (fun best y => if key y < key best then y else best) best ∈ xs := by
  induction xs generalizing best with
  | nil => exact Or.inl rfl
  | cons x xs ih =>
    rw [List.foldl_cons]
    rcases ih (if key x < key best then x else best) with h | h
    · rw [h]
      split
      · exact Or.inr List.mem_cons_self
      · exact Or.inl rfl
    · exact Or.inr (List.mem_cons_of_mem _ h)

theorem minByKey_mem {α : Type} (key : α → Nat) {l : List α} {a : α} (h : minByKey key l = some a) : a ∈ l := by
  cases l with
  | nil => cases h
  | cons x xs =>
    simp only [minByKey, Option.some.injEq] at h
    subst h
    rcases foldl_min_mem key xs x with h | h
    · rw [h]; exact List.mem_cons_self
    · exact List.mem_cons_of_mem _ h

/-- the first minimum: nothing before the result has a key as small, nothing at all has a smaller one -/
theorem foldl_min_le {α : Type} (key : α → Nat) (xs : List α) (best : α) :
    key (xs.foldl (fun best y => if key y < key best then y else best) best) ≤ key best ∧
    ∀ y ∈ xs, key (xs.foldl (fun best y => if key y < key best then y else best) best) ≤ key y := by
  induction xs generalizing best with
  | nil => exact ⟨Nat.le_refl _, fun y hy => by cases hy⟩
  | cons x xs ih =>
    rw [List.foldl_cons]
    obtain ⟨h1, h2⟩ := ih (if key x < key best then x else best)
    by_cases hc : key x < key best
    · simp only [if_pos hc] at h1 h2 ⊢
      refine ⟨by omega, ?_⟩
      intro y hy
      rcases List.mem_cons.1 hy with rfl | hy'
      · exact h1
      · exact h2 y hy'
    · simp only [if_neg hc] at h1 h2 ⊢
      refine ⟨h1, ?_⟩
      intro y hy
      rcases List.mem_cons.1 hy with rfl | hy'
      · omega
      · exact h2 y hy'

theorem minByKey_le {α : Type} (key : α → Nat) {l : List α} {a : α} (h : minByKey key l = some a) :
    ∀ y ∈ l, key a ≤ key y := by
  cases l with
  | nil => cases h
  | cons x xs =>
    simp only [minByKey, Option.some.injEq] at h
    subst h
    intro y hy
    rcases List.mem_cons.1 hy with rfl | hy'
    · exact (foldl_min_le key xs y).1
    · exact (foldl_min_le key xs x).2 y hy'

theorem mergeCandidate_spec {curr : Run K} {hidden : List Nat} {size : Nat → Nat} {w : List (TableM K)}
    {c : MergeCand K} (h : mergeCandidate curr hidden size w = some c) :
    c.1 = w ∧ isBlocked hidden w = false ∧ isBlocked hidden c.2.1 = false ∧
    ∃ kr, runRange w = some kr ∧ c.2.1 = getContained curr kr.1 kr.2 := by
  unfold mergeCandidate at h
  split at h
  · cases h
  · next hb =>
    split at h
    · cases h
    · next kr hkr =>
      simp only at h
      split at h
      · cases h
      · split at h
        · cases h
        · next hb2 =>
          simp only [Option.some.injEq] at h
          subst h
          exact ⟨rfl, by simpa using hb, by simpa using hb2, kr, hkr, rfl⟩

/-- what `pick_minimal_compaction` returns: a window of the current run passing the trivial-move test, or a window
    of the next run together with the tables of the current run its range contains -/
theorem pickMinimal_spec {curr : Run K} {next : Option (Run K)} {hidden : List Nat} {size : Nat → Nat}
    {base : Nat} {ids : List Nat} {triv : Bool}
    (h : pickMinimalCompaction curr next hidden size base = some (ids, triv)) :
    (∃ i n, 1 ≤ n ∧ i + n ≤ curr.length ∧ ids = ((curr.drop i).take n).map (·.id) ∧
        trivialWindowOk next hidden ((curr.drop i).take n) = true) ∨
    (∃ nr i n pull kr, next = some nr ∧ 1 ≤ n ∧ i + n ≤ nr.length ∧
        ids = ((nr.drop i).take n).map (·.id) ++ pull.map (·.id) ∧
        runRange ((nr.drop i).take n) = some kr ∧ pull = getContained curr kr.1 kr.2 ∧
        isBlocked hidden ((nr.drop i).take n) = false ∧ isBlocked hidden pull = false) := by
  unfold pickMinimalCompaction at h
  split at h
  · next w hw =>
    simp only [Option.some.injEq, Prod.mk.injEq] at h
    obtain ⟨i, n, hn, hi, rfl⟩ := mem_shrinkingWindows (List.mem_of_find?_eq_some hw)
    exact Or.inl ⟨i, n, hn, hi, h.1.symm, List.find?_some hw⟩
  · split at h
    · cases h
    · next nr _ =>
      rw [Option.map_eq_some_iff] at h
      obtain ⟨c, hc, he⟩ := h
      simp only [Prod.mk.injEq] at he
      have hm := minByKey_mem _ hc
      unfold mergeCandidates at hm
      rw [List.mem_filterMap] at hm
      obtain ⟨w, hw, hcand⟩ := hm
      have hwg : w ∈ growingWindows nr := (List.takeWhile_prefix _).subset hw
      obtain ⟨i, n, hn, hi, rfl⟩ := mem_growingWindows hwg
      obtain ⟨h1, h2, h3, kr, hkr, hp⟩ := mergeCandidate_spec hcand
      refine Or.inr ⟨nr, i, n, c.2.1, kr, rfl, hn, hi, ?_, hkr, hp, h2, h3⟩
      rw [← he.1, h1]


/-! ## the branches of `Strategy::choose` -/

/-- the admissibility part of the statement about a choice -/
def ChoiceAdm (v : Version K) : Choice → Prop
  | .doNothing => True
  | .move ids d => InputsOk v ids d
  | .merge ids d => InputsOk v ids d
  | .drop _ => False

/-- no chosen table is hidden -/
def ChoiceVisible (hidden : List Nat) : Choice → Prop
  | .move ids _ => NotHidden hidden ids
  | .merge ids _ => NotHidden hidden ids
  | _ => True

theorem runRange_ends {w : List (TableM K)} {kr : K × K} (h : runRange w = some kr) :
    ∃ f ∈ w, ∃ l ∈ w, kr = (f.lo, l.hi) := by
  unfold runRange at h
  split at h
  · next f l hf hl =>
    simp only [Option.some.injEq] at h
    obtain ⟨ys, hys⟩ := List.head?_eq_some_iff.1 hf
    obtain ⟨zs, hzs⟩ := List.getLast?_eq_some_iff.1 hl
    exact ⟨f, by rw [hys]; exact List.mem_cons_self, l, by rw [hzs]; simp, h.symm⟩
  · cases h

theorem eq_singleton_of_head {α : Type} {l : List α} {a : α} (hh : l.head? = some a) (hl : l.length ≤ 1) :
    l = [a] := by
  cases l with
  | nil => cases hh
  | cons x xs =>
    simp only [List.head?_cons, Option.some.injEq] at hh
    subst hh
    cases xs with
    | nil => rfl
    | cons y ys => simp at hl

theorem mem_flatten_of_head {α : Type} {L : List (List α)} {r : List α} (hh : L.head? = some r) :
    ∀ t ∈ r, t ∈ L.flatten := by
  intro t ht
  obtain ⟨ys, rfl⟩ := List.head?_eq_some_iff.1 hh
  simp [ht]

section Order4
variable [LE K] [Std.IsLinearOrder K] [Std.LawfulOrderLT K]

/-- the trivial move into Lmax: a `Move` of all of L0 (no hidden-set check in the real code) -/
theorem trivialLmax_ok (p : LeveledParams K) (v : Version K) (hv : v.WF) {c : Choice}
    (h : trivialLmax p v = some c) : ∃ ids dest, c = .move ids dest ∧ InputsOk v ids dest := by
  unfold trivialLmax at h
  split at h
  · cases h
  · next l0 hl0 =>
    split at h
    · simp only at h
      split at h
      · cases h
      · next hany =>
        split at h
        · cases h
        · next lmax hlmax =>
          split at h
          · next hov =>
            simp only [Option.some.injEq] at h
            subst h
            refine ⟨_, _, rfl, ?_⟩
            have hany' : ((List.range (v.levels.length - 1)).drop 1).any (fun idx => !levelEmptyAt v idx) = false := by
              simpa using hany
            rw [List.any_eq_false] at hany'
            apply two_level_choice_ok v hv 0 (v.levels.length - 1) (Nat.zero_le _) hl0 hlmax l0.flatten []
              (fun _ h => h) (fun _ h => by cases h) _ (fun i => by simp [mem_idSet])
            · intro j h1 h2
              apply levelTables_of_levelEmptyAt
              have := hany' j (range_drop_one_mem h1 h2)
              simpa using this
            · exact Or.inl (fun _ h => h)
            · exact fun _ => Or.inl rfl
            · intro _ t ht x hx _
              have h1 := levelRange_covers p.emptyKey (fun r hr => level_run_ok hv hl0 hr) t ht
              have h2 := levelRange_covers p.emptyKey (fun r hr => level_run_ok hv hlmax hr) x hx
              exact not_overl_of_ranges h1 h2 (by simpa using hov)
          · cases h
    · cases h

/-- the trivial move into L1: a `Move` of all of L0 into the first non-empty level, nothing hidden -/
theorem trivialL1_ok (p : LeveledParams K) (v : Version K) (hidden : List Nat) (pick : LevelPick) (hv : v.WF)
    {c : Choice} (h : trivialL1 p v hidden pick = some c) :
    ∃ ids dest, c = .move ids dest ∧ InputsOk v ids dest ∧ NotHidden hidden ids := by
  unfold trivialL1 at h
  split at h
  · cases h
  · next l0 hl0 =>
    simp only at h
    split at h
    · split at h
      · cases h
      · next hbusy =>
        split at h
        · cases h
        · next tl htl =>
          split at h
          · cases h
          · split at h
            · next hov =>
              simp only [Option.some.injEq] at h
              subst h
              have hb0 : levelIsBusy v hidden 0 = false := by
                cases hb : levelIsBusy v hidden 0 <;> simp [hb] at hbusy ⊢
              have hnil : levelOverlapping tl (levelRange p.emptyKey l0) = [] := by
                have := hov
                simp only [Bool.and_eq_true, Option.isNone_iff_eq_none, List.head?_eq_none_iff,
                  List.map_eq_nil_iff] at this
                exact this.1
              refine ⟨_, _, rfl, ?_, ?_⟩
              · apply two_level_choice_ok v hv 0 _ (Nat.zero_le _) hl0 htl l0.flatten []
                  (fun _ h => h) (fun _ h => by cases h) _ (fun i => by simp [mem_idSet])
                · intro j h1 h2
                  apply fne_gap v j h1
                  have := canonicalL1_le v pick
                  omega
                · exact Or.inl (fun _ h => h)
                · exact fun _ => Or.inl rfl
                · intro _ t ht x hx _
                  have h1 := levelRange_covers p.emptyKey (fun r hr => level_run_ok hv hl0 hr) t ht
                  apply not_overl_of_levelOverlapping (fun r hr => level_run_ok hv htl hr) h1 hx
                  rw [hnil]
                  exact fun h => by cases h
              · intro i hi
                rw [mem_idSet] at hi
                obtain ⟨t, ht, rfl⟩ := List.mem_map.1 hi
                exact levelIsBusy_false hl0 hb0 t ht
            · cases h
    · cases h

/-- the L0 → L1 choice -/
theorem chooseL0_ok (p : LeveledParams K) (v : Version K) (hidden : List Nat) (pick : LevelPick) (hv : v.WF)
    (hp6 : P6 v) : ChoiceAdm v (chooseL0 p v hidden pick) ∧ ChoiceVisible hidden (chooseL0 p v hidden pick) := by
  unfold chooseL0
  split
  · exact ⟨trivial, trivial⟩
  · next l0 hl0 =>
    simp only
    split
    · exact ⟨trivial, trivial⟩
    · next hbusy =>
      split
      · exact ⟨trivial, trivial⟩
      · next tl htl =>
        have hb0 : levelIsBusy v hidden 0 = false := by
          cases hb : levelIsBusy v hidden 0 <;> simp [hb] at hbusy ⊢
        have hb1 : levelIsBusy v hidden (canonicalL1 v pick) = false := by
          cases hb : levelIsBusy v hidden (canonicalL1 v pick) <;> simp [hb] at hbusy ⊢
        have key : InputsOk v (idSet (l0.flatten.map (·.id) ++
              (levelOverlapping tl (levelRange p.emptyKey l0)).map (·.id))) (canonicalL1 v pick) ∧
            NotHidden hidden (idSet (l0.flatten.map (·.id) ++
              (levelOverlapping tl (levelRange p.emptyKey l0)).map (·.id))) := by
          constructor
          · apply two_level_choice_ok v hv 0 _ (Nat.zero_le _) hl0 htl l0.flatten
              (levelOverlapping tl (levelRange p.emptyKey l0))
              (fun _ h => h) (levelOverlapping_subset tl _) _ (fun i => by rw [mem_idSet, List.mem_append])
            · intro j h1 h2
              apply fne_gap v j h1
              have := canonicalL1_le v pick
              omega
            · exact Or.inl (fun _ h => h)
            · exact fun hlt => Or.inr (hp6 _ _ (by omega) htl)
            · intro _ t ht x hx hxn
              have h1 := levelRange_covers p.emptyKey (fun r hr => level_run_ok hv hl0 hr) t ht
              exact not_overl_of_levelOverlapping (fun r hr => level_run_ok hv htl hr) h1 hx hxn
          · intro i hi
            rw [mem_idSet, List.mem_append] at hi
            rcases hi with hi | hi
            · obtain ⟨t, ht, rfl⟩ := List.mem_map.1 hi
              exact levelIsBusy_false hl0 hb0 t ht
            · obtain ⟨t, ht, rfl⟩ := List.mem_map.1 hi
              exact levelIsBusy_false htl hb1 t (levelOverlapping_subset tl _ t ht)
        split
        · exact key
        · exact key

end Order4


section Order5
variable [LE K] [Std.IsLinearOrder K] [Std.LawfulOrderLT K]

/-- the tables `pick_minimal_compaction` returns for level `idx ≥ 1` are admissible inputs for `idx + 1` -/
theorem pickMinimal_ok (v : Version K) (hv : v.WF) (hp6 : P6 v) (idx : Nat) (hidx : 1 ≤ idx)
    {level nextLevel : List (Run K)} (hl : v.levels[idx]? = some level) (hn : v.levels[idx + 1]? = some nextLevel)
    {curr : Run K} (hcurr : level.head? = some curr) (hidden : List Nat) (size : Nat → Nat) (base : Nat)
    {ids : List Nat} {triv : Bool}
    (h : pickMinimalCompaction curr nextLevel.head? hidden size base = some (ids, triv)) :
    InputsOk v (idSet ids) (idx + 1) ∧ NotHidden hidden (idSet ids) := by
  have hcurrOk : RunOk curr := level_run_ok hv hl (List.mem_of_mem_head? hcurr)
  have hcurrSub : ∀ t ∈ curr, t ∈ level.flatten := mem_flatten_of_head hcurr
  have hone : level.length ≤ 1 := hp6 _ _ hidx hl
  have hone' : nextLevel.length ≤ 1 := hp6 _ _ (by omega) hn
  rcases pickMinimal_spec h with ⟨i, n, hn1, hin, rfl, hok⟩ | ⟨nr, i, n, pull, kr, hnext, hn1, hin, rfl, hkr, hpull, hb1, hb2⟩
  · -- trivial move of a window of the current run
    have hWsub := window_sublist curr i n
    unfold trivialWindowOk at hok
    have hblk : isBlocked hidden ((curr.drop i).take n) = false := by
      cases hb : isBlocked hidden ((curr.drop i).take n)
      · rfl
      · simp [hb] at hok
    constructor
    · apply two_level_choice_ok v hv idx (idx + 1) (by omega) hl hn ((curr.drop i).take n) []
        (fun t ht => hcurrSub t (hWsub.subset ht)) (fun _ h => by cases h) _ (fun j => by simp [mem_idSet])
      · intro j h1 h2; omega
      · exact Or.inr hone
      · exact fun _ => Or.inl rfl
      · intro _ t ht x hx _
        simp only [hblk, Bool.false_eq_true, if_false] at hok
        cases hnh : nextLevel.head? with
        | none =>
          have : nextLevel = [] := List.head?_eq_none_iff.1 hnh
          rw [this] at hx
          cases hx
        | some nr =>
          rw [hnh] at hok
          simp only at hok
          have hnl : nextLevel = [nr] := eq_singleton_of_head hnh hone'
          have hnrOk : RunOk nr := level_run_ok hv hn (by rw [hnl]; exact List.mem_singleton_self nr)
          have hxnr : x ∈ nr := by
            rw [hnl] at hx
            simpa using hx
          split at hok
          · next kr hkr =>
            have hcov := runRange_covers (RunSorted.sublist hWsub hcurrOk.sorted) hkr t ht
            apply not_overl_of_not_overlapping hnrOk hcov hxnr
            rw [List.isEmpty_iff.1 hok]
            exact fun h => by cases h
          · cases hok
    · intro j hj
      rw [mem_idSet] at hj
      obtain ⟨t, ht, rfl⟩ := List.mem_map.1 hj
      exact isBlocked_false hblk t ht
  · -- merge of a window of the next run with the tables of the current run its range contains
    have hnl : nextLevel = [nr] := eq_singleton_of_head hnext hone'
    have hnrOk : RunOk nr := level_run_ok hv hn (by rw [hnl]; exact List.mem_singleton_self nr)
    have hWsub := window_sublist nr i n
    have hpullS := getContained_sound hcurrOk kr.1 kr.2
    constructor
    · apply two_level_choice_ok v hv idx (idx + 1) (by omega) hl hn pull ((nr.drop i).take n)
        (fun t ht => hcurrSub t (hpullS t (hpull ▸ ht)).1)
        (fun t ht => by rw [hnl]; simpa using hWsub.subset ht) _
        (fun j => by rw [mem_idSet, List.mem_append]; exact Or.comm)
      · intro j h1 h2; omega
      · exact Or.inr hone
      · exact fun _ => Or.inr hone'
      · intro _ t ht x hx hxW
        have hxnr : x ∈ nr := by
          rw [hnl] at hx
          simpa using hx
        have hrc := (hpullS t (hpull ▸ ht)).2
        simp only [rangeContains, Bool.and_eq_true, Bool.not_eq_eq_eq_not, Bool.not_true,
          decide_eq_false_iff_not] at hrc
        obtain ⟨f, hf, l, hl', hkre⟩ := runRange_ends hkr
        rw [hkre] at hrc
        simp only at hrc
        unfold Overl
        rcases window_outside hnrOk.2.2 i n hxnr hxW with hbefore | hafter
        · have := hbefore f hf
          grind
        · have := hafter l hl'
          grind
    · intro j hj
      rw [mem_idSet, List.mem_append] at hj
      rcases hj with hj | hj
      · obtain ⟨t, ht, rfl⟩ := List.mem_map.1 hj
        exact isBlocked_false hb1 t ht
      · obtain ⟨t, ht, rfl⟩ := List.mem_map.1 hj
        exact isBlocked_false hb2 t ht

/-- the L1+ choice for a scored level `idx ≥ 1` -/
theorem chooseLn_ok (p : LeveledParams K) (v : Version K) (hidden : List Nat) (size : Nat → Nat) (idx : Nat)
    (hidx : 1 ≤ idx) (hv : v.WF) (hp6 : P6 v) :
    ChoiceAdm v (chooseLn p v hidden size idx) ∧ ChoiceVisible hidden (chooseLn p v hidden size idx) := by
  unfold chooseLn
  split
  · next level nextLevel hl hn =>
    split
    · exact ⟨trivial, trivial⟩
    · next curr hcurr =>
      split
      · exact ⟨trivial, trivial⟩
      · next ids triv hpick =>
        have key := pickMinimal_ok v hv hp6 idx hidx hl hn hcurr hidden size p.targetSize hpick
        split
        · exact key
        · exact key
  · exact ⟨trivial, trivial⟩

/-- **every branch.** On a well-formed version obeying P6 the Leveled choice is `doNothing`, or a `move` / `merge`
    with admissible inputs; and unless it is the trivial move into Lmax, no chosen table is hidden. -/
theorem leveled_choice_ok (p : LeveledParams K) (v : Version K) (hidden : List Nat) (size : Nat → Nat)
    (pick : LevelPick) (hv : v.WF) (hp6 : P6 v) :
    ChoiceAdm v (leveledChooseAt p v hidden size pick) ∧
    (trivialLmax p v = none → ChoiceVisible hidden (leveledChooseAt p v hidden size pick)) := by
  unfold leveledChooseAt
  split
  · next c hc =>
    obtain ⟨ids, dest, rfl, hok⟩ := trivialLmax_ok p v hv hc
    exact ⟨hok, fun h => by rw [h] at hc; cases hc⟩
  · split
    · next c hc =>
      obtain ⟨ids, dest, rfl, hok, hnh⟩ := trivialL1_ok p v hidden pick hv hc
      exact ⟨hok, fun _ => hnh⟩
    · split
      · exact ⟨trivial, fun _ => trivial⟩
      · have := chooseL0_ok p v hidden pick hv hp6
        exact ⟨this.1, fun _ => this.2⟩
      · next idx _ =>
        have := chooseLn_ok p v hidden size (idx + 1) (by omega) hv hp6
        exact ⟨this.1, fun _ => this.2⟩

end Order5

#print axioms admissible_of_pairs
#print axioms admissible_two_level
#print axioms two_level_choice_ok
#print axioms trivialLmax_ok
#print axioms trivialL1_ok
#print axioms chooseL0_ok
#print axioms pickMinimal_ok
#print axioms chooseLn_ok
#print axioms leveled_choice_ok

end Lsm
