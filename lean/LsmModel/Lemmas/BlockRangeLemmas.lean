import LsmModel.Lemmas.BlockLemmas
/-
  LsmModel.Lemmas.BlockRangeLemmas — the ranged double-ended table iterator (`rangeRun`) of LsmModel.Table.Blocks.
-/
namespace Lsm.Blocks
open Lsm
set_option linter.unusedSectionVars false
set_option linter.unusedSimpArgs false
variable {K : Type}

section Range
variable [LT K] [DecidableLT K] [DecidableEq K] [LE K] [Std.IsLinearOrder K] [Std.LawfulOrderLT K]

/-- what a handle contributes to the range -/
def fclip (lo hi : Bound K) (h : IndexEntry K × Block K) : List (Entry K) :=
  h.2.filter (fun e => inBounds lo hi e.key)

/-- the items an initialised iterator still has to deliver -/
def remInit (lo hi : Bound K) (st : RState K) : List (Entry K) :=
  st.lo.getD [] ++ st.idx.flatMap (fclip lo hi) ++ st.hi.getD []

theorem nextLoop_spec (lo hi : Bound K) (l : List (IndexEntry K × Block K)) (st : RState K)
    (hsrc : ∀ h ∈ l, IsSource h.2) (hlo : st.lo.getD [] = []) :
    let R := l.flatMap (fclip lo hi) ++ st.hi.getD []
    (nextLoop lo hi st l).1 = R.head? ∧ remInit lo hi (nextLoop lo hi st l).2 = R.tail ∧
    (nextLoop lo hi st l).2.init = st.init ∧ (∀ h ∈ (nextLoop lo hi st l).2.idx, h ∈ l) := by
  induction l generalizing st with
  | nil =>
    simp only [nextLoop, List.flatMap_nil, List.nil_append]
    cases hh : st.hi with
    | none => simp [remInit]
    | some L =>
      cases L with
      | nil => simp [remInit]
      | cons x r => simp [remInit, hlo]
  | cons hd rest ih =>
    obtain ⟨ie, b⟩ := hd
    have hb : IsSource b := hsrc (ie, b) (by simp)
    have hrest : ∀ h ∈ rest, IsSource h.2 := fun h hh => hsrc h (by simp [hh])
    simp only [nextLoop, List.flatMap_cons]
    rw [clipF_eq_filter lo hi hb]
    cases hf : b.filter (fun e => inBounds lo hi e.key) with
    | nil =>
      have := ih { st with lo := some [] } hrest (by simp)
      simp only [fclip, hf, List.nil_append]
      refine ⟨this.1, this.2.1, this.2.2.1, ?_⟩
      intro h hh; exact List.mem_cons_of_mem _ (this.2.2.2 h hh)
    | cons x r =>
      simp only [fclip, hf, remInit]
      simp
      intro a b' hab; right; exact hab

theorem backLoop_spec (lo hi : Bound K) (rl : List (IndexEntry K × Block K)) (st : RState K)
    (hsrc : ∀ h ∈ rl, IsSource h.2) (hhi : st.hi.getD [] = []) :
    let R := st.lo.getD [] ++ rl.reverse.flatMap (fclip lo hi)
    (backLoop lo hi st rl).1 = R.getLast? ∧ remInit lo hi (backLoop lo hi st rl).2 = R.dropLast ∧
    (backLoop lo hi st rl).2.init = st.init ∧ (∀ h ∈ (backLoop lo hi st rl).2.idx, h ∈ rl) := by
  induction rl generalizing st with
  | nil =>
    simp only [backLoop, List.reverse_nil, List.flatMap_nil, List.append_nil]
    cases hl : st.lo with
    | none => simp [remInit]
    | some L =>
      cases hr : L.reverse with
      | nil =>
        have : L = [] := by simpa using hr
        simp [remInit, hr, this]
      | cons x r =>
        have : L = r.reverse ++ [x] := by
          have := congrArg List.reverse hr; simpa using this
        simp [remInit, hr, this, hhi]
  | cons hd rest ih =>
    obtain ⟨ie, b⟩ := hd
    have hb : IsSource b := hsrc (ie, b) (by simp)
    have hrest : ∀ h ∈ rest, IsSource h.2 := fun h hh => hsrc h (by simp [hh])
    simp only [backLoop, List.reverse_cons, List.flatMap_append, List.flatMap_cons, List.flatMap_nil,
      List.append_nil]
    rw [clipB_eq_filter lo hi hb]
    cases hf : (b.filter (fun e => inBounds lo hi e.key)).reverse with
    | nil =>
      have hnil : b.filter (fun e => inBounds lo hi e.key) = [] := by simpa using hf
      have := ih { st with hi := some [] } hrest (by simp)
      simp only [fclip, hnil, List.append_nil]
      refine ⟨this.1, this.2.1, this.2.2.1, ?_⟩
      intro h hh; exact List.mem_cons_of_mem _ (this.2.2.2 h hh)
    | cons x r =>
      have hfx : b.filter (fun e => inBounds lo hi e.key) = r.reverse ++ [x] := by
        have := congrArg List.reverse hf; simpa using this
      simp only [fclip, hfx, remInit]
      refine ⟨?_, ?_, trivial, ?_⟩
      · simp [← List.append_assoc]
      · simp only [← List.append_assoc, List.dropLast_concat]
        simp
      · intro h hh
        simp only [List.mem_reverse] at hh
        exact List.mem_cons_of_mem _ hh

/-- the items the iterator still has to deliver (also before the lazy index initialisation) -/
def remaining (lo hi : Bound K) (st : RState K) : List (Entry K) :=
  if st.init then remInit lo hi st
  else match rInit st.idx lo hi with
    | some idx' => idx'.flatMap (fclip lo hi)
    | none => []

def RInv (st : RState K) : Prop :=
  (∀ h ∈ st.idx, IsSource h.2) ∧ (st.init = false → st.lo = none ∧ st.hi = none)

theorem rInit_sub {hs idx' : List (IndexEntry K × Block K)} {lo hi : Bound K} (h : rInit hs lo hi = some idx') :
    ∀ x ∈ idx', x ∈ hs := by
  unfold rInit at h
  simp only [] at h
  split at h
  · exact absurd h (by simp)
  · rename_i a ha
    split at h
    · simp only [Option.some.injEq] at h; subst h
      intro x hx; exact List.mem_of_mem_drop hx
    · split at h
      · exact absurd h (by simp)
      · simp only [Option.some.injEq] at h; subst h
        intro x hx; exact List.mem_of_mem_take (List.mem_of_mem_drop hx)

theorem rNext_spec (lo hi : Bound K) (st : RState K) (hinv : RInv st) :
    (rNext lo hi st).1 = (remaining lo hi st).head? ∧
    remaining lo hi (rNext lo hi st).2 = (remaining lo hi st).tail ∧ RInv (rNext lo hi st).2 := by
  obtain ⟨sidx, slo, shi, sinit⟩ := st
  obtain ⟨hsrc, huninit⟩ := hinv
  simp only at hsrc huninit
  cases sinit with
  | false =>
    obtain ⟨hl, hh⟩ := huninit rfl
    subst hl; subst hh
    simp only [rNext, rEnsureInit, Bool.false_eq_true, if_false, remaining]
    cases hr : rInit sidx lo hi with
    | none => simp [remaining, remInit, RInv]
    | some idx' =>
      simp only []
      have hsub := rInit_sub hr
      have := nextLoop_spec lo hi idx' { idx := idx', lo := none, hi := none, init := true }
        (fun h hh => hsrc h (hsub h hh)) (by simp)
      simp only [Option.getD_none, List.append_nil] at this
      obtain ⟨h1, h2, h3, h4⟩ := this
      refine ⟨h1, ?_, ?_, ?_⟩
      · simp only [h3, if_true]; exact h2
      · intro h hm; exact hsrc h (hsub h (h4 h hm))
      · intro hf; rw [h3] at hf; exact absurd hf (by simp)
  | true =>
    simp only [remaining, if_true]
    have hgen : slo.getD [] = [] →
        (nextLoop lo hi ⟨sidx, slo, shi, true⟩ sidx).1 = (remInit lo hi ⟨sidx, slo, shi, true⟩).head? ∧
        remaining lo hi (nextLoop lo hi ⟨sidx, slo, shi, true⟩ sidx).2
          = (remInit lo hi ⟨sidx, slo, shi, true⟩).tail ∧
        RInv (nextLoop lo hi ⟨sidx, slo, shi, true⟩ sidx).2 := by
      intro hlo
      have := nextLoop_spec lo hi sidx ⟨sidx, slo, shi, true⟩ hsrc hlo
      obtain ⟨h1, h2, h3, h4⟩ := this
      try simp only at h1 h2 h3 h4 hlo
      refine ⟨by simpa [remInit, hlo] using h1, ?_, ?_, ?_⟩
      · simp only [remaining, h3, if_true]; simpa [remInit, hlo] using h2
      · intro h hm; exact hsrc h (h4 h hm)
      · intro hf; rw [h3] at hf; exact absurd hf (by simp)
    cases slo with
    | some L =>
      cases L with
      | cons x r =>
        simp only [rNext]
        refine ⟨by simp [remInit], ?_, ?_, ?_⟩
        · simp [remaining, remInit]
        · exact hsrc
        · intro hf; simp at hf
      | nil =>
        simp only [rNext, rEnsureInit, if_true]
        exact hgen (by simp)
    | none =>
      simp only [rNext, rEnsureInit, if_true]
      exact hgen (by simp)

theorem rNextBack_spec (lo hi : Bound K) (st : RState K) (hinv : RInv st) :
    (rNextBack lo hi st).1 = (remaining lo hi st).getLast? ∧
    remaining lo hi (rNextBack lo hi st).2 = (remaining lo hi st).dropLast ∧ RInv (rNextBack lo hi st).2 := by
  obtain ⟨sidx, slo, shi, sinit⟩ := st
  obtain ⟨hsrc, huninit⟩ := hinv
  simp only at hsrc huninit
  have hsrcr : ∀ h ∈ sidx.reverse, IsSource h.2 := fun h hh => hsrc h (by simpa using hh)
  cases sinit with
  | false =>
    obtain ⟨hl, hh⟩ := huninit rfl
    subst hl; subst hh
    simp only [rNextBack, Option.map_none, rEnsureInit, Bool.false_eq_true, if_false, remaining]
    cases hr : rInit sidx lo hi with
    | none => simp [remaining, remInit, RInv]
    | some idx' =>
      simp only []
      have hsub := rInit_sub hr
      have := backLoop_spec lo hi idx'.reverse { idx := idx', lo := none, hi := none, init := true }
        (fun h hm => hsrc h (hsub h (by simpa using hm))) (by simp)
      simp only [Option.getD_none, List.nil_append, List.reverse_reverse] at this
      obtain ⟨h1, h2, h3, h4⟩ := this
      refine ⟨h1, ?_, ?_, ?_⟩
      · simp only [h3, if_true]; exact h2
      · intro h hm; exact hsrc h (hsub h (by simpa using h4 h hm))
      · intro hf; rw [h3] at hf; exact absurd hf (by simp)
  | true =>
    simp only [remaining, if_true]
    have hgen : shi.getD [] = [] →
        (backLoop lo hi ⟨sidx, slo, shi, true⟩ sidx.reverse).1 = (remInit lo hi ⟨sidx, slo, shi, true⟩).getLast? ∧
        remaining lo hi (backLoop lo hi ⟨sidx, slo, shi, true⟩ sidx.reverse).2
          = (remInit lo hi ⟨sidx, slo, shi, true⟩).dropLast ∧
        RInv (backLoop lo hi ⟨sidx, slo, shi, true⟩ sidx.reverse).2 := by
      intro hhi
      have := backLoop_spec lo hi sidx.reverse ⟨sidx, slo, shi, true⟩ hsrcr hhi
      simp only [List.reverse_reverse] at this
      obtain ⟨h1, h2, h3, h4⟩ := this
      try simp only at h1 h2 h3 h4 hhi
      refine ⟨by simpa [remInit, hhi] using h1, ?_, ?_, ?_⟩
      · simp only [remaining, h3, if_true]; simpa [remInit, hhi] using h2
      · intro h hm; exact hsrc h (by simpa using h4 h hm)
      · intro hf; rw [h3] at hf; exact absurd hf (by simp)
    cases shi with
    | some L =>
      cases hr : L.reverse with
      | cons x r =>
        have hL : L = r.reverse ++ [x] := by
          have := congrArg List.reverse hr; simpa using this
        simp only [rNextBack, Option.map_some, hr]
        refine ⟨by simp [remInit, hL], ?_, ?_, ?_⟩
        · simp only [remaining, if_true, remInit, hL, Option.getD_some]
          simp only [← List.append_assoc, List.dropLast_concat]
        · exact hsrc
        · intro hf; simp at hf
      | nil =>
        have hL : L = [] := by simpa using hr
        simp only [rNextBack, Option.map_some, hr, rEnsureInit, if_true]
        exact hgen (by simp [hL])
    | none =>
      simp only [rNextBack, Option.map_none, rEnsureInit, if_true]
      exact hgen (by simp)

theorem rRun_spec (lo hi : Bound K) (w : List Dir) (st : RState K) (hinv : RInv st) :
    rRun lo hi st w = bothEnds (remaining lo hi st) w := by
  induction w generalizing st with
  | nil => simp [rRun, bothEnds]
  | cons d w ih =>
    cases d with
    | F =>
      obtain ⟨h1, h2, h3⟩ := rNext_spec lo hi st hinv
      simp only [rRun]
      rw [ih _ h3, h1, h2]
      cases hr : remaining lo hi st <;> simp [bothEnds]
    | B =>
      obtain ⟨h1, h2, h3⟩ := rNextBack_spec lo hi st hinv
      simp only [rRun]
      rw [ih _ h3, h1, h2]
      cases hr : (remaining lo hi st).reverse with
      | nil =>
        have : remaining lo hi st = [] := by simpa using hr
        simp [bothEnds, this]
      | cons x r =>
        have hL : remaining lo hi st = r.reverse ++ [x] := by
          have := congrArg List.reverse hr; simpa using this
        rw [bothEnds, hr]
        simp [hL]

/-! ### the lazy index initialisation keeps exactly the blocks that matter -/

theorem handles_flatMap_fclip (lo hi : Bound K) (bl : List (Block K)) (hne : ∀ b ∈ bl, b ≠ []) :
    (handles bl).flatMap (fclip lo hi) = bl.flatten.filter (fun e => inBounds lo hi e.key) := by
  induction bl with
  | nil => rfl
  | cons b bl ih =>
    obtain ⟨l, hl⟩ := getLast?_of_ne_nil (hne b (by simp))
    rw [handles_cons b bl hl, List.flatMap_cons, ih (fun x hx => hne x (by simp [hx]))]
    simp [fclip]

theorem mem_handles {bl : List (Block K)} {h : IndexEntry K × Block K} (hm : h ∈ handles bl) :
    ∃ b ∈ bl, ∃ l, b.getLast? = some l ∧ h = (endIe l, b) := by
  simp only [handles, List.mem_flatMap] at hm
  obtain ⟨b, hb, hh⟩ := hm
  refine ⟨b, hb, ?_⟩
  unfold hOf at hh
  cases hl : b.getLast? with
  | none => simp [hl] at hh
  | some l => simp only [hl, List.mem_singleton] at hh; exact ⟨l, rfl, hh⟩

theorem flatMap_drop_of_nil {α β : Type} (f : α → List β) (X : List α) (a : Nat)
    (h : ∀ x ∈ X.take a, f x = []) : (X.drop a).flatMap f = X.flatMap f := by
  conv => rhs; rw [← List.take_append_drop a X]
  rw [List.flatMap_append, List.flatMap_eq_nil_iff.mpr h, List.nil_append]

theorem flatMap_take_of_nil {α β : Type} (f : α → List β) (X : List α) (m : Nat)
    (h : ∀ x ∈ X.drop m, f x = []) : (X.take m).flatMap f = X.flatMap f := by
  conv => rhs; rw [← List.take_append_drop m X]
  rw [List.flatMap_append, List.flatMap_eq_nil_iff.mpr h, List.append_nil]

theorem take_ppoint_map {α β : Type} (p : β → Bool) (f : α → β) (l : List α) :
    ∀ x ∈ l.take (ppoint p (l.map f)), p (f x) = true := by
  induction l with
  | nil => simp [ppoint]
  | cons y ys ih =>
    simp only [List.map_cons, ppoint]
    by_cases h : p (f y) = true
    · simp only [h, if_true, List.take_succ_cons, List.mem_cons]
      rintro x (rfl | hx)
      · exact h
      · exact ih x hx
    · simp [h]

/-- a block skipped by the lower index seek holds nothing inside the range -/
theorem lower_skip (lo hi : Bound K) (k : K) (hk : boundKey? lo = some k) (bl : List (Block K))
    (hs : IsSource bl.flatten) (hmax : ∀ e ∈ bl.flatten, e.seqno < u64Max)
    (h : IndexEntry K × Block K) (hm : h ∈ handles bl) (hp : idxPred k u64Max h.1 = true) :
    fclip lo hi h = [] := by
  obtain ⟨b, hb, l, hl, rfl⟩ := mem_handles hm
  have hsub : b.Sublist bl.flatten := List.sublist_flatten_of_mem hb
  have hsb : IsSource b := IsSource.sublist hsub hs
  have hlm : l ∈ b := List.mem_of_getLast? hl
  have hls := hmax l (hsub.subset hlm)
  simp only [idxPred, endIe, Bool.or_eq_true, Bool.and_eq_true, decide_eq_true_eq] at hp
  have hlk : l.key < k := by
    rcases hp with h1 | ⟨_, h2⟩
    · exact of_decide_eq_true h1
    · have h2' : u64Max ≤ l.seqno := of_decide_eq_true h2
      omega
  obtain ⟨hB, _⟩ := last_bounds (rest := []) hl (by simpa using hsb)
  simp only [fclip, List.filter_eq_nil_iff]
  intro x hx
  have hxk : x.key < k := by
    rcases hB x hx with rfl | hlt
    · exact hlk
    · have := ikLt_key_le hlt; grind
  cases lo with
  | unb => simp [boundKey?] at hk
  | incl y =>
    simp only [boundKey?, Option.some.injEq] at hk; subst hk
    simp [inBounds, Bound.okLo, hxk]
  | excl y =>
    simp only [boundKey?, Option.some.injEq] at hk; subst hk
    have : ¬ y < x.key := by grind
    simp [inBounds, Bound.okLo, this]

/-- blocks beyond the upper index seek position hold nothing inside the range -/
theorem upper_skip (lo hi : Bound K) (k : K) (hk : boundKey? hi = some k) (bl : List (Block K))
    (hne : ∀ b ∈ bl, b ≠ []) (hs : IsSource bl.flatten) :
    ∀ h ∈ (handles bl).drop
        (min (ppoint (idxPredUpper k) ((handles bl).map (·.1))) ((handles bl).length - 1) + 1),
      fclip lo hi h = [] := by
  induction bl with
  | nil => simp [handles]
  | cons b bl ih =>
    obtain ⟨l, hl⟩ := getLast?_of_ne_nil (hne b (by simp))
    have hne' : ∀ x ∈ bl, x ≠ [] := fun x hx => hne x (by simp [hx])
    rw [List.flatten_cons] at hs
    have hs' : IsSource bl.flatten := (List.pairwise_append.mp hs).2.1
    obtain ⟨_, hR⟩ := last_bounds hl hs
    have ih := ih hne' hs'
    rw [handles_cons b bl hl]
    simp only [List.map_cons, ppoint, List.length_cons, Nat.add_sub_cancel]
    by_cases hp : idxPredUpper k (endIe l) = true
    · simp only [hp, if_true]
      by_cases hn : (handles bl).length = 0
      · have : handles bl = [] := List.eq_nil_of_length_eq_zero hn
        simp [this]
      · have e : min (ppoint (idxPredUpper k) ((handles bl).map (·.1)) + 1) (handles bl).length + 1
            = (min (ppoint (idxPredUpper k) ((handles bl).map (·.1))) ((handles bl).length - 1) + 1) + 1 := by
          omega
        rw [e, List.drop_succ_cons]
        exact ih
    · simp only [hp, Bool.false_eq_true, if_false, Nat.zero_min, Nat.zero_add, List.drop_succ_cons, List.drop_zero]
      intro h hm
      obtain ⟨b', hb', l', hl', rfl⟩ := mem_handles hm
      simp only [idxPredUpper, endIe, Bool.not_eq_true', decide_eq_false_iff_not, Decidable.not_not] at hp
      simp only [fclip, List.filter_eq_nil_iff]
      intro x hx
      have hxm : x ∈ bl.flatten := (List.sublist_flatten_of_mem hb').subset hx
      have hkx : k < x.key := by
        have := ikLt_key_le (hR x hxm); grind
      cases hi with
      | unb => simp [boundKey?] at hk
      | incl y =>
        simp only [boundKey?, Option.some.injEq] at hk; subst hk
        simp [inBounds, Bound.okHi, hkx]
      | excl y =>
        simp only [boundKey?, Option.some.injEq] at hk; subst hk
        have : ¬ x.key < y := by grind
        simp [inBounds, Bound.okHi, this]

theorem rInit_spec (lo hi : Bound K) (bl : List (Block K)) (hne : ∀ b ∈ bl, b ≠ [])
    (hs : IsSource bl.flatten) (hmax : ∀ e ∈ bl.flatten, e.seqno < u64Max) :
    (match rInit (handles bl) lo hi with
     | some idx' => idx'.flatMap (fclip lo hi)
     | none => []) = bl.flatten.filter (fun e => inBounds lo hi e.key) := by
  rw [← handles_flatMap_fclip lo hi bl hne]
  unfold rInit
  simp only []
  -- lower seek
  have hlower : ∀ k, boundKey? lo = some k →
      ∀ x ∈ (handles bl).take (ppoint (idxPred k u64Max) ((handles bl).map (·.1))), fclip lo hi x = [] := by
    intro k hk x hx
    exact lower_skip lo hi k hk bl hs hmax x (List.mem_of_mem_take hx) (take_ppoint_map _ _ _ x hx)
  -- the common tail of the proof: given the lower position `a` with an all-empty prefix
  have htail : ∀ a : Nat, (∀ x ∈ (handles bl).take a, fclip lo hi x = []) →
      (match (match boundKey? hi with
        | none => (some ((handles bl).drop a) : Option (List (IndexEntry K × Block K)))
        | some k =>
          match seekUpperIdx ((handles bl).map (fun h => h.1)) k with
          | none => none
          | some b => some (((handles bl).take (b + 1)).drop a)) with
       | some (idx' : List (IndexEntry K × Block K)) => idx'.flatMap (fclip lo hi)
       | none => []) = (handles bl).flatMap (fclip lo hi) := by
    intro a ha
    cases hkh : boundKey? hi with
    | none => simp only []; exact flatMap_drop_of_nil _ _ _ ha
    | some k =>
      simp only [seekUpperIdx, List.length_map]
      by_cases hn : (handles bl).length = 0
      · have : handles bl = [] := List.eq_nil_of_length_eq_zero hn
        simp [this]
      · simp only [hn, if_false]
        rw [flatMap_drop_of_nil]
        · exact flatMap_take_of_nil _ _ _ (upper_skip lo hi k hkh bl hne hs)
        · intro x hx
          rw [List.take_take] at hx
          apply ha
          have : min a (min (ppoint (idxPredUpper k) ((handles bl).map (·.1))) ((handles bl).length - 1) + 1)
              ≤ a := Nat.min_le_left _ _
          exact (List.take_subset_take_left _ this) hx
  cases hkl : boundKey? lo with
  | none =>
    simp only []
    exact htail 0 (by simp)
  | some k =>
    simp only [seekLowerIdx, List.length_map]
    by_cases hge : ppoint (idxPred k u64Max) ((handles bl).map (·.1)) ≥ (handles bl).length
    · simp only [hge, if_true]
      symm
      rw [List.flatMap_eq_nil_iff]
      intro x hx
      have := hlower k hkl x
      rw [List.take_of_length_le hge] at this
      exact this hx
    · simp only [hge, if_false]
      exact htail _ (hlower k hkl)

end Range
end Lsm.Blocks
