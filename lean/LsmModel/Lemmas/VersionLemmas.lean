import LsmModel.Tree.Ops
import LsmModel.Lemmas.RunLemmas
import LsmModel.Lemmas.OptimizeLemmas
import LsmModel.Lemmas.OrderLemmas
/-
  LsmModel.Lemmas.VersionLemmas — the copy-on-write version transformations (`with_new_l0_run`, `with_merge`,
  `with_moved`, `with_dropped`) and the PER-KEY read order of tables.
-/
set_option linter.unusedSectionVars false
set_option linter.unusedVariables false
namespace Lsm
variable {K : Type} [LT K] [DecidableLT K] [DecidableEq K]

/-- structural well-formedness of a version: every run RunOk, table ids pairwise distinct, every table's recorded
    range covers its entries' keys and entries form a source.
    (`meta` is a reserved word in Lean 4.33, hence the field name `meta_ok`.) -/
structure Version.WF (v : Version K) : Prop where
  runs_ok : ∀ r ∈ v.runs, RunOk r
  nodup   : (v.tables.map (·.id)).Nodup
  meta_ok : ∀ t ∈ v.tables, ∀ e ∈ t.entries, t.containsKey e.key = true
  src     : ∀ t ∈ v.tables, IsSource t.entries

/-- the tables that may hold key `k`, in read order -/
def keyTables (v : Version K) (k : K) : List (TableM K) := v.tables.filter (fun t => t.containsKey k)

/-! ### generic list facts -/

theorem nodup_of_map_nodup {α β : Type} (f : α → β) {l : List α} (h : (l.map f).Nodup) : l.Nodup := by
  rw [List.Nodup, List.pairwise_map] at h
  exact h.imp (fun hab e => hab (congrArg f e))

theorem findSome?_flatten' {α β : Type} (f : α → Option β) (L : List (List α)) :
    L.flatten.findSome? f = L.findSome? (fun l => l.findSome? f) := by
  induction L with
  | nil => rfl
  | cons l L ih =>
    simp only [List.flatten_cons, List.findSome?_append, List.findSome?_cons, ih]
    cases l.findSome? f <;> simp

theorem findSome?_congr' {α β : Type} {f g : α → Option β} {l : List α} (h : ∀ x ∈ l, f x = g x) :
    l.findSome? f = l.findSome? g := by
  induction l with
  | nil => rfl
  | cons x xs ih =>
    simp only [List.findSome?_cons, h x List.mem_cons_self, ih (fun y hy => h y (List.mem_cons_of_mem _ hy))]

theorem mapIdx_const {α β : Type} (g : α → β) (l : List α) : l.mapIdx (fun _ x => g x) = l.map g := by
  apply List.ext_getElem
  · simp
  · intro i h1 h2; simp

/-- a list is pairwise "occurs before" w.r.t. itself -/
theorem pairwise_before (l : List (TableM K)) : l.Pairwise (fun a b => before l a b) := by
  induction l with
  | nil => exact List.Pairwise.nil
  | cons x t ih =>
    rw [List.pairwise_cons]
    constructor
    · intro y hy
      obtain ⟨l2, l3, rfl⟩ := List.append_of_mem hy
      exact ⟨[], l2, l3, by simp⟩
    · refine ih.imp ?_
      rintro a b ⟨l1, l2, l3, h⟩
      exact ⟨x :: l1, l2, l3, by simp [h]⟩

section Order
variable [LE K] [Std.IsLinearOrder K] [Std.LawfulOrderLT K]

/-! ### (1) point reads only depend on `keyTables` -/

/-- in a sorted run at most one table contains `k`: the filter is the `find?` -/
theorem filter_containsKey_of_sorted {r : Run K} (h : RunSorted r) (k : K) :
    r.filter (fun t => t.containsKey k) = (r.find? (fun t => t.containsKey k)).toList := by
  induction r with
  | nil => rfl
  | cons x xs ih =>
    have hc := runSorted_cons.1 h
    by_cases hx : x.containsKey k = true
    · simp only [List.filter_cons, hx, ↓reduceIte, List.find?_cons, Option.toList_some]
      congr 1
      rw [List.filter_eq_nil_iff]
      intro y hy
      have := hc.2.1 y hy
      simp only [TableM.containsKey, Bool.and_eq_true, Bool.not_eq_eq_eq_not, Bool.not_true,
        decide_eq_false_iff_not] at hx ⊢
      grind
    · simp only [List.filter_cons, hx, List.find?_cons]
      exact ih hc.2.2

theorem two_containsKey_overlaps {a b : TableM K} {k : K} (ha : a.containsKey k = true)
    (hb : b.containsKey k = true) : a.overlaps b = true := by
  simp only [TableM.containsKey, TableM.overlaps, Bool.and_eq_true, Bool.not_eq_eq_eq_not, Bool.not_true,
    decide_eq_false_iff_not] at *
  grind

/-- what one run contributes to a point read -/
theorem run_read_eq {r : Run K} (h : RunOk r) (k : K) (f : TableM K → Option (Entry K)) :
    (match getForKey r k with | some tb => f tb | none => none)
      = (r.filter (fun t => t.containsKey k)).findSome? f := by
  rw [get_for_key_unique h k, filter_containsKey_of_sorted h.sorted k]
  cases r.find? (fun t => t.containsKey k) <;> simp

theorem keyTables_eq_flatten_runs (v : Version K) (k : K) :
    keyTables v k = (v.runs.map (fun r => r.filter (fun t => t.containsKey k))).flatten := by
  simp [keyTables, Version.tables, Version.runs, List.filter_flatten]

/-- (1) a point read is the first hit over the tables containing the key, in read order -/
theorem versionGet_eq_keyTables {v : Version K} (h : v.WF) (k : K) (S : Nat) :
    versionGet v k S = (keyTables v k).findSome? (fun t => tableGet t k S) := by
  rw [keyTables_eq_flatten_runs, findSome?_flatten', List.findSome?_map]
  unfold versionGet
  apply findSome?_congr'
  intro r hr
  exact run_read_eq (h.runs_ok r hr) k _

/-- a table whose recorded range does not contain `k` cannot answer a read of `k` (uses `meta_ok`) -/
theorem tableGet_none_of_not_contains {v : Version K} (h : v.WF) {t : TableM K} (ht : t ∈ v.tables) {k : K}
    (hk : t.containsKey k = false) (S : Nat) : tableGet t k S = none := by
  unfold tableGet
  rw [newest_eq_none]
  intro e he hek
  have := h.meta_ok t ht e he
  rw [hek] at this
  simp [this] at hk

/-- corollary: a point read is also the first hit over ALL tables in read order -/
theorem versionGet_eq_tables {v : Version K} (h : v.WF) (k : K) (S : Nat) :
    versionGet v k S = v.tables.findSome? (fun t => tableGet t k S) := by
  rw [versionGet_eq_keyTables h]
  unfold keyTables
  have := fun t ht => @tableGet_none_of_not_contains _ _ _ _ _ _ _ v h t ht k
  generalize v.tables = l at this
  induction l with
  | nil => rfl
  | cons x xs ih =>
    have ih' := ih (fun t ht => this t (List.mem_cons_of_mem _ ht))
    by_cases hx : x.containsKey k = true
    · simp only [List.filter_cons, hx, ↓reduceIte, List.findSome?_cons, ih']
    · have hx' : x.containsKey k = false := by simpa using hx
      simp only [List.filter_cons, hx, List.findSome?_cons, this x List.mem_cons_self hx' S]
      exact ih'

/-! ### (2) one level: `removeIds` and `optimizeRuns` -/

theorem removeIds_tables (ids : List Nat) (lvl : List (Run K)) :
    (removeIds ids lvl).flatten = lvl.flatten.filter (fun t => !ids.contains t.id) := by
  unfold removeIds
  rw [List.flatten_filter_not_isEmpty, List.filter_flatten]

theorem RunSorted.sublist {r r' : Run K} (hs : List.Sublist r' r) (h : RunSorted r) : RunSorted r' :=
  ⟨fun t ht => h.1 t (hs.subset ht), h.2.sublist hs⟩

theorem mem_removeIds {ids : List Nat} {lvl : List (Run K)} {r : Run K} (h : r ∈ removeIds ids lvl) :
    r ≠ [] ∧ ∃ r0 ∈ lvl, r = r0.filter (fun t => !ids.contains t.id) := by
  unfold removeIds at h
  simp only [List.mem_filter, List.mem_map] at h
  obtain ⟨⟨r0, h0, rfl⟩, hne⟩ := h
  refine ⟨?_, r0, h0, rfl⟩
  intro e
  rw [e] at hne
  simp at hne

theorem removeIds_runs_ok (ids : List Nat) (lvl : List (Run K)) (h : ∀ r ∈ lvl, RunOk r) :
    ∀ r ∈ removeIds ids lvl, RunOk r := by
  intro r hr
  obtain ⟨hne, r0, h0, rfl⟩ := mem_removeIds hr
  exact runOk_iff_sorted.2 ⟨hne, (h r0 h0).sorted.sublist List.filter_sublist⟩

/-- tables containing `k` in a list of sorted runs with pairwise distinct tables come in strictly increasing run index -/
theorem keyFilter_pairwise_runIdx (rs : List (Run K)) (h : ∀ r ∈ rs, RunSorted r) (hnd : rs.flatten.Nodup) (k : K) :
    (rs.flatten.filter (fun t => t.containsKey k)).Pairwise
      (fun a b => ∃ i j, runIdx rs a = some i ∧ runIdx rs b = some j ∧ i < j) := by
  induction rs with
  | nil => simp
  | cons r rs ih =>
    simp only [List.flatten_cons, List.filter_append]
    simp only [List.flatten_cons, List.nodup_append] at hnd
    obtain ⟨_, hnd2, hdisj⟩ := hnd
    rw [List.pairwise_append]
    refine ⟨?_, ?_, ?_⟩
    · rw [filter_containsKey_of_sorted (h r List.mem_cons_self)]
      cases r.find? (fun t => t.containsKey k) <;> simp
    · have ih' := ih (fun r' hr' => h r' (List.mem_cons_of_mem _ hr')) hnd2
      refine ih'.imp_of_mem ?_
      intro a b ha hb ⟨i, j, hi, hj, hij⟩
      have ha' : a ∉ r := fun hh => hdisj a hh a (List.mem_filter.1 ha).1 rfl
      have hb' : b ∉ r := fun hh => hdisj b hh b (List.mem_filter.1 hb).1 rfl
      exact ⟨i + 1, j + 1, by simp [runIdx_cons, ha', hi], by simp [runIdx_cons, hb', hj], by omega⟩
    · intro a ha b hb
      have ha' : a ∈ r := (List.mem_filter.1 ha).1
      have hb1 : b ∈ rs.flatten := (List.mem_filter.1 hb).1
      have hb' : b ∉ r := fun hh => hdisj b hh b hb1 rfl
      obtain ⟨j, hj⟩ := runIdx_of_mem hb1
      exact ⟨0, j + 1, by simp [runIdx_cons, ha'], by simp [runIdx_cons, hb', hj], by omega⟩

/-- (2) re-packing a level keeps the relative read order of the tables containing `k` -/
theorem optimize_keyOrder (runs : List (Run K)) (h : ∀ r ∈ runs, RunOk r) (hnd : runs.flatten.Nodup) (k : K) :
    (optimizeRuns runs).flatten.filter (fun t => t.containsKey k)
      = runs.flatten.filter (fun t => t.containsKey k) := by
  by_cases h2 : runs.length ≤ 1
  · simp [optimizeRuns, h2]
  · have h2' : 2 ≤ runs.length := by omega
    have hlo : ∀ t ∈ runs.flatten, ¬ t.hi < t.lo := by
      intro t ht
      obtain ⟨r, hr, htr⟩ := List.mem_flatten.1 ht
      exact (h r hr).2.1 t htr
    have hok := optimize_runs_ok runs hlo h
    have hperm := optimize_perm runs
    have hnd' : (optimizeRuns runs).flatten.Nodup := hperm.nodup_iff.2 hnd
    have P1 := keyFilter_pairwise_runIdx (optimizeRuns runs) (fun r hr => (hok r hr).sorted) hnd' k
    have P2 : (runs.flatten.filter (fun t => t.containsKey k)).Pairwise
        (fun a b => ∃ i j, runIdx (optimizeRuns runs) a = some i ∧ runIdx (optimizeRuns runs) b = some j ∧ i < j) := by
      have := (pairwise_before runs.flatten).filter (fun t => t.containsKey k)
      refine this.imp_of_mem ?_
      intro a b ha hb hab
      exact optimize_order runs h2' hnd a b hab
        (two_containsKey_overlaps (List.mem_filter.1 ha).2 (List.mem_filter.1 hb).2)
    refine List.Perm.eq_of_pairwise ?_ P1 P2 (hperm.filter _)
    rintro a b _ _ ⟨i, j, hi, hj, hij⟩ ⟨j', i', hj', hi', hji⟩
    rw [hi] at hi'; rw [hj] at hj'
    simp only [Option.some.injEq] at hi' hj'
    omega

/-! ### generic list facts II -/

theorem mapIdx_dest_flatten {α β : Type} (l : List α) (dest : Nat) (N : List β) (G : α → List β) :
    (l.mapIdx (fun i x => (if i = dest then N else []) ++ G x)).flatten
      = (l.take dest).flatMap G ++ (if dest < l.length then N else []) ++ (l.drop dest).flatMap G := by
  induction l generalizing dest with
  | nil => simp
  | cons a l ih =>
    rw [List.mapIdx_cons]
    cases dest with
    | zero =>
      have : (fun i x => (if i + 1 = 0 then N else []) ++ G x) = fun _ x => G x := by
        funext i x; simp
      rw [this, mapIdx_const]
      simp [List.flatMap_def]
    | succ d =>
      have : (fun i x => (if i + 1 = d + 1 then N else []) ++ G x)
          = fun i x => (if i = d then N else []) ++ G x := by
        funext i x; simp
      rw [this, List.flatten_cons, ih d]
      simp

theorem perm_mapIdx_flatten {α β : Type} (l : List α) (f g : Nat → α → List β)
    (h : ∀ i (hi : i < l.length), (f i l[i]).Perm (g i l[i])) :
    (l.mapIdx f).flatten.Perm (l.mapIdx g).flatten := by
  induction l generalizing f g with
  | nil => simp
  | cons a l ih =>
    simp only [List.mapIdx_cons, List.flatten_cons]
    refine List.Perm.append (h 0 (by simp)) (ih _ _ ?_)
    intro i hi
    exact h (i + 1) (by simpa using hi)

theorem flatten_map_singleton {α : Type} (l : List α) : (l.map (fun t => [t])).flatten = l := by
  induction l with
  | nil => rfl
  | cons x xs ih => simp [ih]

theorem filter_comm' {α : Type} (a b : α → Bool) (l : List α) :
    (l.filter a).filter b = (l.filter b).filter a := by
  simp only [List.filter_filter]
  congr 1; funext x; exact Bool.and_comm _ _

/-! ### one level of a rebuilt version: `optimizeRuns (X ++ removeIds ids lvl)` -/

theorem level_step_perm (X lvl : List (Run K)) (ids : List Nat) :
    (optimizeRuns (X ++ removeIds ids lvl)).flatten.Perm
      (X.flatten ++ lvl.flatten.filter (fun t => !ids.contains t.id)) := by
  have := optimize_perm (X ++ removeIds ids lvl)
  rwa [List.flatten_append, removeIds_tables] at this

theorem level_step_runs_ok (X lvl : List (Run K)) (ids : List Nat) (hX : ∀ r ∈ X, RunOk r)
    (hl : ∀ r ∈ lvl, RunOk r) : ∀ r ∈ optimizeRuns (X ++ removeIds ids lvl), RunOk r := by
  have hall : ∀ r ∈ X ++ removeIds ids lvl, RunOk r := by
    intro r hr
    rcases List.mem_append.1 hr with h | h
    · exact hX r h
    · exact removeIds_runs_ok ids lvl hl r h
  apply optimize_runs_ok _ _ hall
  intro t ht
  obtain ⟨r, hr, htr⟩ := List.mem_flatten.1 ht
  exact (hall r hr).2.1 t htr

theorem level_step_filter (X lvl : List (Run K)) (ids : List Nat) (k : K) (hX : ∀ r ∈ X, RunOk r)
    (hl : ∀ r ∈ lvl, RunOk r)
    (hnd : (X.flatten ++ lvl.flatten.filter (fun t => !ids.contains t.id)).Nodup) :
    (optimizeRuns (X ++ removeIds ids lvl)).flatten.filter (fun t => t.containsKey k)
      = X.flatten.filter (fun t => t.containsKey k)
        ++ (lvl.flatten.filter (fun t => t.containsKey k)).filter (fun t => !ids.contains t.id) := by
  have hall : ∀ r ∈ X ++ removeIds ids lvl, RunOk r := by
    intro r hr
    rcases List.mem_append.1 hr with h | h
    · exact hX r h
    · exact removeIds_runs_ok ids lvl hl r h
  rw [optimize_keyOrder _ hall (by rwa [List.flatten_append, removeIds_tables]) k,
    List.flatten_append, removeIds_tables, List.filter_append, filter_comm']

/-! ### versions: generic facts -/

theorem Version.tables_eq_flatMap (v : Version K) : v.tables = v.levels.flatMap (·.flatten) := by
  simp [Version.tables, List.flatten_flatten, List.flatMap_def]

theorem level_tables_sublist {v : Version K} {lvl : List (Run K)} (h : lvl ∈ v.levels) :
    List.Sublist lvl.flatten v.tables := by
  rw [Version.tables, List.flatten_flatten]
  exact List.sublist_flatten_of_mem (List.mem_map.2 ⟨lvl, h, rfl⟩)

theorem level_runs_ok {v : Version K} (hv : v.WF) {lvl : List (Run K)} (h : lvl ∈ v.levels) :
    ∀ r ∈ lvl, RunOk r := by
  intro r hr
  exact hv.runs_ok r (List.mem_flatten.2 ⟨lvl, h, hr⟩)

theorem Version.WF.lo_le_hi {v : Version K} (hv : v.WF) {t : TableM K} (ht : t ∈ v.tables) : ¬ t.hi < t.lo := by
  obtain ⟨r, hr, htr⟩ := List.mem_flatten.1 ht
  exact (hv.runs_ok r hr).2.1 t htr

theorem Version.WF.tables_nodup {v : Version K} (hv : v.WF) : v.tables.Nodup :=
  nodup_of_map_nodup _ hv.nodup

/-- the tables of the levels above `dest` (read before level `dest`) -/
def Version.tablesAbove (v : Version K) (dest : Nat) : List (TableM K) := (v.levels.take dest).flatten.flatten

/-- the tables of level `dest` and below (read from level `dest` on) -/
def Version.tablesFrom (v : Version K) (dest : Nat) : List (TableM K) := (v.levels.drop dest).flatten.flatten

/-- the tables of level `i` in read order (`[]` if there is no such level) -/
def Version.levelTables (v : Version K) (i : Nat) : List (TableM K) := (v.levels[i]?.getD []).flatten

theorem Version.tables_split (v : Version K) (dest : Nat) : v.tables = v.tablesAbove dest ++ v.tablesFrom dest := by
  simp only [Version.tables, Version.tablesAbove, Version.tablesFrom]
  rw [← List.flatten_append, ← List.flatten_append, List.take_append_drop]

theorem keyTables_split (v : Version K) (dest : Nat) (k : K) :
    keyTables v k = (v.tablesAbove dest).filter (fun t => t.containsKey k)
      ++ (v.tablesFrom dest).filter (fun t => t.containsKey k) := by
  rw [keyTables, v.tables_split dest, List.filter_append]

/-- `keyTables` is the concatenation of the per-level lists -/
theorem keyTables_eq_flatMap_levels (v : Version K) (k : K) :
    keyTables v k = v.levels.flatMap (fun lvl => lvl.flatten.filter (fun t => t.containsKey k)) := by
  simp only [keyTables, Version.tables, List.flatten_flatten, List.flatMap_def]
  rw [List.filter_flatten, List.map_map]
  rfl

theorem keyTables_eq_flatMap_range (v : Version K) (k : K) :
    keyTables v k = (List.range v.levels.length).flatMap
      (fun i => (v.levelTables i).filter (fun t => t.containsKey k)) := by
  rw [keyTables_eq_flatMap_levels]
  simp only [List.flatMap_def]
  congr 1
  apply List.ext_getElem
  · simp
  · intro i h1 h2
    simp only [List.length_map] at h1
    simp [Version.levelTables, h1]

/-- the common shape of `with_merge` / `with_moved` / `with_dropped`: remove `ids` everywhere, put the runs `X`
    in front of level `dest`, re-pack every level -/
def rebuildLevels (levels : List (List (Run K))) (ids : List Nat) (dest : Nat) (X : List (Run K)) :
    List (List (Run K)) :=
  levels.mapIdx (fun i lvl => optimizeRuns ((if i = dest then X else []) ++ removeIds ids lvl))

theorem map_mapIdx' {α β γ : Type} (g : β → γ) (f : Nat → α → β) (l : List α) :
    (l.mapIdx f).map g = l.mapIdx (fun i x => g (f i x)) := by
  apply List.ext_getElem
  · simp
  · intro i h1 h2; simp

theorem flatMap_level_filter (L : List (List (Run K))) (a b : TableM K → Bool) :
    L.flatMap (fun lvl => (lvl.flatten.filter a).filter b) = (L.flatten.flatten.filter a).filter b := by
  induction L with
  | nil => rfl
  | cons l L ih => simp only [List.flatMap_cons, List.flatten_cons, List.flatten_append, List.filter_append, ih]

theorem flatMap_level_filter1 (L : List (List (Run K))) (a : TableM K → Bool) :
    L.flatMap (fun lvl => lvl.flatten.filter a) = L.flatten.flatten.filter a := by
  induction L with
  | nil => rfl
  | cons l L ih => simp only [List.flatMap_cons, List.flatten_cons, List.flatten_append, List.filter_append, ih]

theorem mem_rebuildLevels {levels : List (List (Run K))} {ids : List Nat} {dest : Nat} {X : List (Run K)}
    {lvl' : List (Run K)} (h : lvl' ∈ rebuildLevels levels ids dest X) :
    ∃ i, ∃ (hi : i < levels.length),
      lvl' = optimizeRuns ((if i = dest then X else []) ++ removeIds ids levels[i]) := by
  unfold rebuildLevels at h
  obtain ⟨i, hi, rfl⟩ := List.mem_mapIdx.1 h
  exact ⟨i, hi, rfl⟩

/-- per level: what `rebuildLevels` does to the tables containing `k` -/
theorem rebuild_level_filter {v : Version K} (hv : v.WF) (ids : List Nat) (dest : Nat) (X : List (Run K))
    (hX : ∀ r ∈ X, RunOk r)
    (hnd : (X.flatten ++ v.tables.filter (fun t => !ids.contains t.id)).Nodup) (k : K)
    (i : Nat) (hi : i < v.levels.length) :
    (optimizeRuns ((if i = dest then X else []) ++ removeIds ids v.levels[i])).flatten.filter
        (fun t => t.containsKey k)
      = (if i = dest then X.flatten.filter (fun t => t.containsKey k) else [])
        ++ (v.levels[i].flatten.filter (fun t => t.containsKey k)).filter (fun t => !ids.contains t.id) := by
  have hmem : v.levels[i] ∈ v.levels := List.getElem_mem hi
  have hsub := (level_tables_sublist hmem).filter (fun t => !ids.contains t.id)
  have hl := level_runs_ok hv hmem
  by_cases hd : i = dest
  · simp only [hd, ↓reduceIte]
    subst hd
    exact level_step_filter X _ ids k hX hl (hnd.sublist (List.Sublist.append_left hsub _))
  · simp only [hd, ↓reduceIte]
    have := level_step_filter [] v.levels[i] ids k (by simp) hl
      (by simpa using (List.nodup_append.1 hnd).2.1.sublist hsub)
    simpa using this

/-- generic: the per-key read order after a rebuild -/
theorem rebuild_keyTables {v : Version K} (hv : v.WF) (ids : List Nat) (dest : Nat) (X : List (Run K))
    (hX : ∀ r ∈ X, RunOk r)
    (hnd : (X.flatten ++ v.tables.filter (fun t => !ids.contains t.id)).Nodup) (k : K) :
    (rebuildLevels v.levels ids dest X).flatten.flatten.filter (fun t => t.containsKey k)
      = ((v.tablesAbove dest).filter (fun t => t.containsKey k)).filter (fun t => !ids.contains t.id)
        ++ (if dest < v.levels.length then X.flatten.filter (fun t => t.containsKey k) else [])
        ++ ((v.tablesFrom dest).filter (fun t => t.containsKey k)).filter (fun t => !ids.contains t.id) := by
  rw [List.flatten_flatten, List.filter_flatten, List.map_map]
  unfold rebuildLevels
  rw [map_mapIdx']
  have e : v.levels.mapIdx (fun i lvl =>
        ((List.filter fun t => t.containsKey k) ∘ List.flatten)
          (optimizeRuns ((if i = dest then X else []) ++ removeIds ids lvl)))
      = v.levels.mapIdx (fun i lvl =>
        (if i = dest then X.flatten.filter (fun t => t.containsKey k) else [])
        ++ (lvl.flatten.filter (fun t => t.containsKey k)).filter (fun t => !ids.contains t.id)) :=
    List.mapIdx_eq_mapIdx_iff.2 (fun i hi => rebuild_level_filter hv ids dest X hX hnd k i hi)
  rw [e, mapIdx_dest_flatten, flatMap_level_filter, flatMap_level_filter]
  rfl

/-- generic: nothing lost, nothing invented -/
theorem rebuild_tables_perm (levels : List (List (Run K))) (ids : List Nat) (dest : Nat) (X : List (Run K)) :
    (rebuildLevels levels ids dest X).flatten.flatten.Perm
      (levels.flatten.flatten.filter (fun t => !ids.contains t.id)
        ++ (if dest < levels.length then X.flatten else [])) := by
  rw [List.flatten_flatten]
  unfold rebuildLevels
  rw [map_mapIdx']
  have P := perm_mapIdx_flatten levels
    (fun i lvl => (optimizeRuns ((if i = dest then X else []) ++ removeIds ids lvl)).flatten)
    (fun i lvl => (if i = dest then X.flatten else []) ++ lvl.flatten.filter (fun t => !ids.contains t.id))
    (by
      intro i hi
      have := level_step_perm (if i = dest then X else []) levels[i] ids
      by_cases hd : i = dest
      · simpa [hd] using this
      · simpa [hd] using this)
  refine P.trans ?_
  rw [mapIdx_dest_flatten]
  have e : levels.flatten.flatten.filter (fun t => !ids.contains t.id)
      = (levels.take dest).flatMap (fun lvl => lvl.flatten.filter (fun t => !ids.contains t.id))
        ++ (levels.drop dest).flatMap (fun lvl => lvl.flatten.filter (fun t => !ids.contains t.id)) := by
    rw [← List.flatMap_append, List.take_append_drop, flatMap_level_filter1]
  rw [e]
  simp only [List.append_assoc]
  exact List.Perm.append_left _ List.perm_append_comm

theorem rebuild_runs_ok {v : Version K} (hv : v.WF) (ids : List Nat) (dest : Nat) (X : List (Run K))
    (hX : ∀ r ∈ X, RunOk r) : ∀ r ∈ (rebuildLevels v.levels ids dest X).flatten, RunOk r := by
  intro r hr
  obtain ⟨lvl', hl', hr'⟩ := List.mem_flatten.1 hr
  obtain ⟨i, hi, rfl⟩ := mem_rebuildLevels hl'
  refine level_step_runs_ok _ _ ids ?_ (level_runs_ok hv (List.getElem_mem hi)) r hr'
  intro r' h'
  by_cases hd : i = dest
  · simp only [hd, ↓reduceIte] at h'; exact hX r' h'
  · simp [hd] at h'

/-- a version whose tables all come from a well-formed version or from a list `N` of well-formed new tables -/
theorem WF_of_tables {v v' : Version K} (hv : v.WF) (N : List (TableM K))
    (hruns : ∀ r ∈ v'.runs, RunOk r) (hnd : (v'.tables.map (·.id)).Nodup)
    (hsub : ∀ t ∈ v'.tables, t ∈ v.tables ∨ t ∈ N)
    (hmeta : ∀ t ∈ N, ∀ e ∈ t.entries, t.containsKey e.key = true)
    (hsrc : ∀ t ∈ N, IsSource t.entries) : v'.WF where
  runs_ok := hruns
  nodup := hnd
  meta_ok := fun t ht => (hsub t ht).elim (hv.meta_ok t) (hmeta t)
  src := fun t ht => (hsub t ht).elim (hv.src t) (hsrc t)

theorem rebuild_WF {v : Version K} (hv : v.WF) (ids : List Nat) (dest : Nat) (X : List (Run K))
    (hX : ∀ r ∈ X, RunOk r)
    (hnd : ((X.flatten ++ v.tables.filter (fun t => !ids.contains t.id)).map (·.id)).Nodup)
    (hmeta : ∀ t ∈ X.flatten, ∀ e ∈ t.entries, t.containsKey e.key = true)
    (hsrc : ∀ t ∈ X.flatten, IsSource t.entries) (vid : Nat) :
    ({ id := vid, levels := rebuildLevels v.levels ids dest X } : Version K).WF := by
  have P := rebuild_tables_perm v.levels ids dest X
  apply WF_of_tables hv X.flatten
  · exact rebuild_runs_ok hv ids dest X hX
  · show (((rebuildLevels v.levels ids dest X).flatten.flatten).map (·.id)).Nodup
    rw [(P.map _).nodup_iff]
    by_cases hd : dest < v.levels.length
    · simp only [hd, ↓reduceIte]
      exact ((List.perm_append_comm.map _).nodup_iff).1 hnd
    · simp only [hd, ↓reduceIte, List.append_nil]
      exact hnd.sublist ((List.sublist_append_right _ _).map _)
  · intro t ht
    have := P.mem_iff.1 ht
    rcases List.mem_append.1 this with h | h
    · exact Or.inl (List.mem_filter.1 h).1
    · by_cases hd : dest < v.levels.length
      · simp only [hd, ↓reduceIte] at h; exact Or.inr h
      · simp [hd] at h
  · exact hmeta
  · exact hsrc

/-- level `i` of a rebuilt version -/
theorem rebuild_levelTables (levels : List (List (Run K))) (ids : List Nat) (dest : Nat) (X : List (Run K))
    (vid i : Nat) (hi : i < levels.length) :
    ({ id := vid, levels := rebuildLevels levels ids dest X } : Version K).levelTables i
      = (optimizeRuns ((if i = dest then X else []) ++ removeIds ids levels[i])).flatten := by
  simp [Version.levelTables, rebuildLevels, hi]

/-! ### the new run of `with_merge` / `with_new_l0_run` -/

/-- the run list `with_merge` and `with_new_l0_run` put in front of a level: nothing for an empty output -/
def newRun (nt : Run K) : List (Run K) := if nt.isEmpty then [] else [nt]

theorem newRun_flatten (nt : Run K) : (newRun nt).flatten = nt := by
  cases nt <;> simp [newRun]

theorem newRun_ok {nt : Run K} (h : RunSorted nt) : ∀ r ∈ newRun nt, RunOk r := by
  intro r hr
  cases nt with
  | nil => simp [newRun] at hr
  | cons a t =>
    simp only [newRun, List.isEmpty_cons, Bool.false_eq_true, ↓reduceIte, List.mem_singleton] at hr
    subst hr
    exact runOk_iff_sorted.2 ⟨by simp, h⟩

/-- in a sorted run at most one table contains `k` -/
theorem filter_containsKey_length_le_one {nt : Run K} (h : RunSorted nt) (k : K) :
    (nt.filter (fun t => t.containsKey k)).length ≤ 1 := by
  rw [filter_containsKey_of_sorted h]
  cases nt.find? (fun t => t.containsKey k) <;> simp

/-- fresh, pairwise distinct ids keep the id list duplicate-free -/
theorem fresh_ids_nodup {v : Version K} (hv : v.WF) (ids : List Nat) (nt : List (TableM K))
    (hid : (nt.map (·.id)).Nodup) (hfresh : ∀ t ∈ nt, t.id ∉ v.tables.map (·.id)) :
    ((nt ++ v.tables.filter (fun t => !ids.contains t.id)).map (·.id)).Nodup := by
  rw [List.map_append, List.nodup_append]
  refine ⟨hid, hv.nodup.sublist (List.filter_sublist.map _), ?_⟩
  intro a ha b hb e
  obtain ⟨t, ht, rfl⟩ := List.mem_map.1 ha
  subst e
  exact hfresh t ht ((List.filter_sublist.map _).subset hb)

/-- the moved tables together with the remaining ones are the old tables: ids stay distinct -/
theorem moved_ids_nodup {v : Version K} (hv : v.WF) (ids : List Nat) :
    ((v.tables.filter (fun t => ids.contains t.id)
        ++ v.tables.filter (fun t => !ids.contains t.id)).map (·.id)).Nodup :=
  (((List.filter_append_perm (fun t : TableM K => ids.contains t.id) v.tables).map (·.id)).nodup_iff).2 hv.nodup

/-! ### (3)/(4) `with_dropped` -/

theorem withDropped_levels (v : Version K) (ids : List Nat) :
    (v.withDropped ids).levels = rebuildLevels v.levels ids 0 [] := by
  simp only [Version.withDropped, rebuildLevels, ite_self, List.nil_append]
  exact (mapIdx_const _ _).symm

theorem withDropped_eq (v : Version K) (ids : List Nat) :
    v.withDropped ids = { id := v.id + 1, levels := rebuildLevels v.levels ids 0 [] } := by
  rw [← withDropped_levels]; rfl

/-- (4) C07 for `with_dropped`: exactly the tables with the given ids disappear -/
theorem withDropped_tables_perm (v : Version K) (ids : List Nat) :
    (v.withDropped ids).tables.Perm (v.tables.filter (fun t => !ids.contains t.id)) := by
  have := rebuild_tables_perm v.levels ids 0 []
  rw [← withDropped_levels] at this
  simpa [Version.tables] using this

/-- (3) `with_dropped` removes the dropped tables from the per-key read order and changes nothing else -/
theorem withDropped_keyTables {v : Version K} (hv : v.WF) (ids : List Nat) (k : K) :
    keyTables (v.withDropped ids) k = (keyTables v k).filter (fun t => !ids.contains t.id) := by
  have := rebuild_keyTables hv ids 0 [] (by simp)
    (by simpa using hv.tables_nodup.sublist List.filter_sublist) k
  rw [← withDropped_levels] at this
  rw [keyTables, Version.tables, this, keyTables_split v 0 k]
  simp

theorem withDropped_WF {v : Version K} (hv : v.WF) (ids : List Nat) : (v.withDropped ids).WF := by
  rw [withDropped_eq]
  exact rebuild_WF hv ids 0 [] (by simp)
    (by simpa using hv.nodup.sublist (List.filter_sublist.map _)) (by simp) (by simp) _

/-! ### (3)/(4) `with_merge` -/

theorem withMerge_levels (v : Version K) (ids : List Nat) (nt : Run K) (dest : Nat) :
    (v.withMerge ids nt dest).levels = rebuildLevels v.levels ids dest (newRun nt) := by
  simp only [Version.withMerge, rebuildLevels]
  apply List.mapIdx_eq_mapIdx_iff.2
  intro i hi
  congr 1
  cases nt with
  | nil => simp [newRun]
  | cons a t => by_cases hd : i = dest <;> simp [newRun, hd]

theorem withMerge_eq (v : Version K) (ids : List Nat) (nt : Run K) (dest : Nat) :
    v.withMerge ids nt dest = { id := v.id + 1, levels := rebuildLevels v.levels ids dest (newRun nt) } := by
  rw [← withMerge_levels]; rfl

/-- (4) C07 for `with_merge`: inputs out, outputs in, nothing else (`nt = []` is allowed) -/
theorem withMerge_tables_perm (v : Version K) (ids : List Nat) (nt : Run K) (dest : Nat)
    (hdest : dest < v.levels.length) :
    (v.withMerge ids nt dest).tables.Perm (v.tables.filter (fun t => !ids.contains t.id) ++ nt) := by
  have := rebuild_tables_perm v.levels ids dest (newRun nt)
  rw [← withMerge_levels] at this
  simpa [Version.tables, hdest, newRun_flatten] using this

/-- without `dest < v.levels.length` the output is silently lost -/
theorem withMerge_tables_perm_of_ge (v : Version K) (ids : List Nat) (nt : Run K) (dest : Nat)
    (hdest : v.levels.length ≤ dest) :
    (v.withMerge ids nt dest).tables.Perm (v.tables.filter (fun t => !ids.contains t.id)) := by
  have := rebuild_tables_perm v.levels ids dest (newRun nt)
  rw [← withMerge_levels] at this
  simpa [Version.tables, Nat.not_lt.2 hdest] using this

/-- (3) per level: level `dest` gets the (at most one) new table containing `k` in front; every level loses the
    inputs; nothing else moves -/
theorem withMerge_levelKeyTables {v : Version K} (hv : v.WF) (ids : List Nat) (nt : Run K) (dest : Nat)
    (hnt : RunSorted nt) (hid : (nt.map (·.id)).Nodup) (hfresh : ∀ t ∈ nt, t.id ∉ v.tables.map (·.id))
    (k : K) (i : Nat) (hi : i < v.levels.length) :
    ((v.withMerge ids nt dest).levelTables i).filter (fun t => t.containsKey k)
      = (if i = dest then nt.filter (fun t => t.containsKey k) else [])
        ++ ((v.levelTables i).filter (fun t => t.containsKey k)).filter (fun t => !ids.contains t.id) := by
  rw [withMerge_eq, rebuild_levelTables _ _ _ _ _ _ hi,
    rebuild_level_filter hv ids dest (newRun nt) (newRun_ok hnt)
      (by rw [newRun_flatten]; exact nodup_of_map_nodup _ (fresh_ids_nodup hv ids nt hid hfresh)) k i hi,
    newRun_flatten]
  simp [Version.levelTables, hi]

/-- (3) whole version: the surviving old tables keep their order; the new table containing `k` is read after all
    tables of the levels above `dest` and before all surviving tables of level `dest` and below -/
theorem withMerge_keyTables {v : Version K} (hv : v.WF) (ids : List Nat) (nt : Run K) (dest : Nat)
    (hdest : dest < v.levels.length)
    (hnt : RunSorted nt) (hid : (nt.map (·.id)).Nodup) (hfresh : ∀ t ∈ nt, t.id ∉ v.tables.map (·.id))
    (k : K) :
    keyTables (v.withMerge ids nt dest) k
      = ((v.tablesAbove dest).filter (fun t => t.containsKey k)).filter (fun t => !ids.contains t.id)
        ++ nt.filter (fun t => t.containsKey k)
        ++ ((v.tablesFrom dest).filter (fun t => t.containsKey k)).filter (fun t => !ids.contains t.id) := by
  have := rebuild_keyTables hv ids dest (newRun nt) (newRun_ok hnt)
    (by rw [newRun_flatten]; exact nodup_of_map_nodup _ (fresh_ids_nodup hv ids nt hid hfresh)) k
  rw [← withMerge_levels] at this
  rw [keyTables, Version.tables, this, newRun_flatten]
  simp [hdest]

theorem withMerge_WF {v : Version K} (hv : v.WF) (ids : List Nat) (nt : Run K) (dest : Nat)
    (hnt : RunSorted nt) (hid : (nt.map (·.id)).Nodup) (hfresh : ∀ t ∈ nt, t.id ∉ v.tables.map (·.id))
    (hmeta : ∀ t ∈ nt, ∀ e ∈ t.entries, t.containsKey e.key = true)
    (hsrc : ∀ t ∈ nt, IsSource t.entries) : (v.withMerge ids nt dest).WF := by
  rw [withMerge_eq]
  exact rebuild_WF hv ids dest (newRun nt) (newRun_ok hnt)
    (by rw [newRun_flatten]; exact fresh_ids_nodup hv ids nt hid hfresh)
    (by rw [newRun_flatten]; exact hmeta) (by rw [newRun_flatten]; exact hsrc) _

/-! ### (3)/(4) `with_moved` -/

/-- the tables `with_moved` moves, in read order -/
def Version.affected (v : Version K) (ids : List Nat) : List (TableM K) :=
  v.tables.filter (fun t => ids.contains t.id)

theorem withMoved_levels (v : Version K) (ids : List Nat) (dest : Nat) :
    (v.withMoved ids dest).levels = rebuildLevels v.levels ids dest ((v.affected ids).map (fun t => [t])) := by
  simp only [Version.withMoved, rebuildLevels, Version.affected]
  apply List.mapIdx_eq_mapIdx_iff.2
  intro i hi
  congr 1
  by_cases hd : i = dest <;> simp [hd]

theorem withMoved_eq (v : Version K) (ids : List Nat) (dest : Nat) :
    v.withMoved ids dest
      = { id := v.id + 1, levels := rebuildLevels v.levels ids dest ((v.affected ids).map (fun t => [t])) } := by
  rw [← withMoved_levels]; rfl

theorem affected_runs_ok {v : Version K} (hv : v.WF) (ids : List Nat) :
    ∀ r ∈ (v.affected ids).map (fun t => [t]), RunOk r := by
  intro r hr
  obtain ⟨t, ht, rfl⟩ := List.mem_map.1 hr
  exact runOk_singleton t (hv.lo_le_hi (List.mem_filter.1 ht).1)

/-- (4) C07 for `with_moved`: the table set is unchanged -/
theorem withMoved_tables_perm (v : Version K) (ids : List Nat) (dest : Nat) (hdest : dest < v.levels.length) :
    (v.withMoved ids dest).tables.Perm v.tables := by
  have := rebuild_tables_perm v.levels ids dest ((v.affected ids).map (fun t => [t]))
  rw [← withMoved_levels] at this
  simp only [hdest, ↓reduceIte, flatten_map_singleton] at this
  refine this.trans (List.perm_append_comm.trans ?_)
  exact List.filter_append_perm (fun t : TableM K => ids.contains t.id) v.tables

/-- without `dest < v.levels.length` the moved tables are silently lost -/
theorem withMoved_tables_perm_of_ge (v : Version K) (ids : List Nat) (dest : Nat)
    (hdest : v.levels.length ≤ dest) :
    (v.withMoved ids dest).tables.Perm (v.tables.filter (fun t => !ids.contains t.id)) := by
  have := rebuild_tables_perm v.levels ids dest ((v.affected ids).map (fun t => [t]))
  rw [← withMoved_levels] at this
  simpa [Version.tables, Nat.not_lt.2 hdest] using this

/-- (3) per level: level `dest` gets the moved tables containing `k` (original read order) in front; every level
    loses the moved ids -/
theorem withMoved_levelKeyTables {v : Version K} (hv : v.WF) (ids : List Nat) (dest : Nat)
    (k : K) (i : Nat) (hi : i < v.levels.length) :
    ((v.withMoved ids dest).levelTables i).filter (fun t => t.containsKey k)
      = (if i = dest then (v.affected ids).filter (fun t => t.containsKey k) else [])
        ++ ((v.levelTables i).filter (fun t => t.containsKey k)).filter (fun t => !ids.contains t.id) := by
  rw [withMoved_eq, rebuild_levelTables _ _ _ _ _ _ hi,
    rebuild_level_filter hv ids dest _ (affected_runs_ok hv ids)
      (by rw [flatten_map_singleton]; exact nodup_of_map_nodup _ (moved_ids_nodup hv ids)) k i hi,
    flatten_map_singleton]
  simp [Version.levelTables, hi]

/-- (3) whole version -/
theorem withMoved_keyTables {v : Version K} (hv : v.WF) (ids : List Nat) (dest : Nat)
    (hdest : dest < v.levels.length) (k : K) :
    keyTables (v.withMoved ids dest) k
      = ((v.tablesAbove dest).filter (fun t => t.containsKey k)).filter (fun t => !ids.contains t.id)
        ++ (v.affected ids).filter (fun t => t.containsKey k)
        ++ ((v.tablesFrom dest).filter (fun t => t.containsKey k)).filter (fun t => !ids.contains t.id) := by
  have := rebuild_keyTables hv ids dest _ (affected_runs_ok hv ids)
    (by rw [flatten_map_singleton]; exact nodup_of_map_nodup _ (moved_ids_nodup hv ids)) k
  rw [← withMoved_levels] at this
  rw [keyTables, Version.tables, this, flatten_map_singleton]
  simp [hdest]

/-- the moved tables containing `k` are the moved elements of the old per-key list -/
theorem affected_filter_eq (v : Version K) (ids : List Nat) (k : K) :
    (v.affected ids).filter (fun t => t.containsKey k) = (keyTables v k).filter (fun t => ids.contains t.id) :=
  filter_comm' _ _ _

theorem withMoved_WF {v : Version K} (hv : v.WF) (ids : List Nat) (dest : Nat) : (v.withMoved ids dest).WF := by
  rw [withMoved_eq]
  refine rebuild_WF hv ids dest _ (affected_runs_ok hv ids)
    (by rw [flatten_map_singleton]; exact moved_ids_nodup hv ids) ?_ ?_ _
  · rw [flatten_map_singleton]
    intro t ht
    exact hv.meta_ok t (List.mem_filter.1 ht).1
  · rw [flatten_map_singleton]
    intro t ht
    exact hv.src t (List.mem_filter.1 ht).1

/-! ### (3)/(4) `with_new_l0_run` -/

theorem fresh_ids_nodup' {v : Version K} (hv : v.WF) (nt : List (TableM K))
    (hid : (nt.map (·.id)).Nodup) (hfresh : ∀ t ∈ nt, t.id ∉ v.tables.map (·.id)) :
    ((nt ++ v.tables).map (·.id)).Nodup := by
  rw [List.map_append, List.nodup_append]
  refine ⟨hid, hv.nodup, ?_⟩
  intro a ha b hb e
  obtain ⟨t, ht, rfl⟩ := List.mem_map.1 ha
  subst e
  exact hfresh t ht hb

theorem withNewL0Run_levels (v : Version K) (nt : Run K) (l0 : List (Run K)) (rest : List (List (Run K)))
    (h : v.levels = l0 :: rest) :
    v.withNewL0Run nt = { id := v.id + 1, levels := optimizeRuns (newRun nt ++ l0) :: rest } := by
  simp [Version.withNewL0Run, h, newRun]

/-- (4) C07 for `with_new_l0_run` (needs a level 0 to exist) -/
theorem withNewL0Run_tables_perm (v : Version K) (nt : Run K) (h0 : 0 < v.levels.length) :
    (v.withNewL0Run nt).tables.Perm (nt ++ v.tables) := by
  match hl : v.levels, h0 with
  | l0 :: rest, _ =>
    rw [withNewL0Run_levels v nt l0 rest hl]
    simp only [Version.tables, hl, List.flatten_cons, List.flatten_append]
    rw [← List.append_assoc]
    refine List.Perm.append_right _ ?_
    have := optimize_perm (newRun nt ++ l0)
    rwa [List.flatten_append, newRun_flatten] at this

/-- (3) level 0 gets the (at most one) new table containing `k` in front; nothing else moves -/
theorem withNewL0Run_keyTables {v : Version K} (hv : v.WF) (nt : Run K) (h0 : 0 < v.levels.length)
    (hnt : RunSorted nt) (hid : (nt.map (·.id)).Nodup) (hfresh : ∀ t ∈ nt, t.id ∉ v.tables.map (·.id))
    (k : K) :
    keyTables (v.withNewL0Run nt) k = nt.filter (fun t => t.containsKey k) ++ keyTables v k := by
  match hl : v.levels, h0 with
  | l0 :: rest, _ =>
    have hmem : l0 ∈ v.levels := by simp [hl]
    have hall : ∀ r ∈ newRun nt ++ l0, RunOk r := by
      intro r hr
      rcases List.mem_append.1 hr with h | h
      · exact newRun_ok hnt r h
      · exact level_runs_ok hv hmem r h
    have hnd : (newRun nt ++ l0).flatten.Nodup := by
      rw [List.flatten_append, newRun_flatten]
      have := nodup_of_map_nodup _ (fresh_ids_nodup' hv nt hid hfresh)
      exact this.sublist (List.Sublist.append_left (level_tables_sublist hmem) _)
    rw [withNewL0Run_levels v nt l0 rest hl]
    simp only [keyTables, Version.tables, hl, List.flatten_cons, List.flatten_append, List.filter_append]
    rw [optimize_keyOrder _ hall hnd k, List.flatten_append, newRun_flatten, List.filter_append,
      List.append_assoc]

theorem withNewL0Run_WF {v : Version K} (hv : v.WF) (nt : Run K)
    (hnt : RunSorted nt) (hid : (nt.map (·.id)).Nodup) (hfresh : ∀ t ∈ nt, t.id ∉ v.tables.map (·.id))
    (hmeta : ∀ t ∈ nt, ∀ e ∈ t.entries, t.containsKey e.key = true)
    (hsrc : ∀ t ∈ nt, IsSource t.entries) : (v.withNewL0Run nt).WF := by
  match hl : v.levels with
  | [] =>
    have e : v.withNewL0Run nt = { v with id := v.id + 1 } := by simp [Version.withNewL0Run, hl]
    rw [e]
    exact ⟨hv.runs_ok, hv.nodup, hv.meta_ok, hv.src⟩
  | l0 :: rest =>
    have hmem : l0 ∈ v.levels := by simp [hl]
    have P := withNewL0Run_tables_perm v nt (by simp [hl])
    apply WF_of_tables hv nt
    · intro r hr
      rw [withNewL0Run_levels v nt l0 rest hl] at hr
      simp only [Version.runs, List.flatten_cons, List.mem_append] at hr
      rcases hr with h | h
      · have hall : ∀ r ∈ newRun nt ++ l0, RunOk r := by
          intro r hr
          rcases List.mem_append.1 hr with h | h
          · exact newRun_ok hnt r h
          · exact level_runs_ok hv hmem r h
        refine optimize_runs_ok _ ?_ hall r h
        intro t ht
        obtain ⟨r', hr', htr⟩ := List.mem_flatten.1 ht
        exact (hall r' hr').2.1 t htr
      · exact hv.runs_ok r (by simp only [Version.runs, hl, List.flatten_cons, List.mem_append]; exact Or.inr h)
    · rw [(P.map _).nodup_iff]
      exact fresh_ids_nodup' hv nt hid hfresh
    · intro t ht
      have := P.mem_iff.1 ht
      rcases List.mem_append.1 this with h | h
      · exact Or.inr h
      · exact Or.inl h
    · exact hmeta
    · exact hsrc

theorem withDropped_levelKeyTables {v : Version K} (hv : v.WF) (ids : List Nat) (k : K) (i : Nat)
    (hi : i < v.levels.length) :
    ((v.withDropped ids).levelTables i).filter (fun t => t.containsKey k)
      = ((v.levelTables i).filter (fun t => t.containsKey k)).filter (fun t => !ids.contains t.id) := by
  rw [withDropped_eq, rebuild_levelTables _ _ _ _ _ _ hi,
    rebuild_level_filter hv ids 0 [] (by simp)
      (by simpa using hv.tables_nodup.sublist List.filter_sublist) k i hi]
  simp [Version.levelTables, hi]

/-! ### reads across a transformation -/

/-- equal per-key table lists give equal point reads -/
theorem versionGet_congr {v v' : Version K} (hv : v.WF) (hv' : v'.WF) {k : K}
    (h : keyTables v' k = keyTables v k) (S : Nat) : versionGet v' k S = versionGet v k S := by
  rw [versionGet_eq_keyTables hv, versionGet_eq_keyTables hv', h]

/-- a point read after `with_dropped`: first hit over the surviving tables of `k`, old order -/
theorem withDropped_versionGet {v : Version K} (hv : v.WF) (ids : List Nat) (k : K) (S : Nat) :
    versionGet (v.withDropped ids) k S
      = ((keyTables v k).filter (fun t => !ids.contains t.id)).findSome? (fun t => tableGet t k S) := by
  rw [versionGet_eq_keyTables (withDropped_WF hv ids), withDropped_keyTables hv]

/-- moving tables none of which may hold `k` does not change a read of `k` -/
theorem withMoved_versionGet_of_untouched {v : Version K} (hv : v.WF) (ids : List Nat) (dest : Nat)
    (hdest : dest < v.levels.length) (k : K) (S : Nat)
    (hk : ∀ t ∈ v.tables, t.containsKey k = true → ids.contains t.id = false) :
    versionGet (v.withMoved ids dest) k S = versionGet v k S := by
  apply versionGet_congr hv (withMoved_WF hv ids dest)
  rw [withMoved_keyTables hv ids dest hdest, keyTables_split v dest k]
  have h1 : ∀ (l : List (TableM K)), (∀ t ∈ l, t ∈ v.tables) →
      (l.filter (fun t => t.containsKey k)).filter (fun t => !ids.contains t.id)
        = l.filter (fun t => t.containsKey k) := by
    intro l hl
    rw [List.filter_eq_self]
    intro t ht
    have := List.mem_filter.1 ht
    have h := hk t (hl t this.1) this.2
    simpa using h
  have hA : ∀ t ∈ v.tablesAbove dest, t ∈ v.tables := by
    intro t ht; rw [v.tables_split dest]; exact List.mem_append_left _ ht
  have hF : ∀ t ∈ v.tablesFrom dest, t ∈ v.tables := by
    intro t ht; rw [v.tables_split dest]; exact List.mem_append_right _ ht
  have h2 : (v.affected ids).filter (fun t => t.containsKey k) = [] := by
    rw [List.filter_eq_nil_iff]
    intro t ht hc
    have := List.mem_filter.1 ht
    have h := hk t this.1 hc
    rw [this.2] at h
    exact absurd h (by simp)
  rw [h1 _ hA, h1 _ hF, h2, List.append_nil]

/-! ### non-vacuity and counterexamples over `K := Nat` -/
section Examples

/-- table with content: one entry per listed `(key, seqno)` -/
def mkTE (id lo hi : Nat) (es : List (Nat × Nat)) : TableM Nat :=
  ⟨id, lo, hi, es.map (fun p => ⟨p.1, p.2, .value, []⟩), 0⟩

/-- three levels; key 4 is covered by tables 0 (L0), 1 (L0, second run) and 3 (L2) -/
def exV : Version Nat :=
  { id := 0,
    levels := [ [[mkTE 0 0 5 [(4, 9)]], [mkTE 1 3 9 [(4, 7), (8, 6)]]],
                [[mkTE 2 10 12 [(11, 5)]]],
                [[mkTE 3 0 4 [(4, 1)], mkTE 4 6 20 [(6, 2), (20, 3)]]] ] }

theorem exV_WF : exV.WF where
  runs_ok := by intro r hr; exact runOkB_iff.1 (by revert r hr; decide)
  nodup := by decide
  meta_ok := by decide
  src := by intro t ht; exact (isSourceB_iff _).1 (by revert t ht; decide)

example : (keyTables exV 4).map (·.id) = [0, 1, 3] := by decide
example : (versionGet exV 4 8).map (·.seqno) = some 7 := by decide          -- (4,9) is not visible at S = 8

/-- `with_merge` of tables 1 and 3 into level 1: the output is read after table 0 (level 0), before level 2 -/
example : (keyTables (exV.withMerge [1, 3] [mkTE 7 3 9 [(4, 7), (8, 6)]] 1) 4).map (·.id) = [0, 7] := by decide
example : (exV.withMerge [1, 3] [mkTE 7 3 9 [(4, 7), (8, 6)]] 1).WF :=
  withMerge_WF exV_WF _ _ _ (runOkB_iff.1 (by decide)).sorted (by decide) (by decide) (by decide)
    (by intro t ht; exact (isSourceB_iff _).1 (by revert t ht; decide))

/-- `with_moved` of table 1 to level 2: it is now read in front of table 3 of level 2 -/
example : (keyTables (exV.withMoved [1] 2) 4).map (·.id) = [0, 1, 3] := by decide
/-- ... and moving table 3 up to level 0 puts it in FRONT of tables 0 and 1 (read order changes: this is what
    `Admissible` must exclude; the theorem just reports it) -/
example : (keyTables (exV.withMoved [3] 0) 4).map (·.id) = [3, 0, 1] := by decide

/-- `dest < v.levels.length` is needed in `withMerge_tables_perm` / `withMerge_keyTables`: otherwise the output
    tables are silently lost -/
example : (exV.withMerge [1, 3] [mkTE 7 3 9 [(4, 7)]] 3).tables.map (·.id) = [0, 2, 4] := by decide
/-- same for `with_moved` -/
example : (exV.withMoved [1] 3).tables.map (·.id) = [0, 2, 3, 4] := by decide
/-- `0 < v.levels.length` is needed in `withNewL0Run_tables_perm` / `withNewL0Run_keyTables` -/
example : (({ id := 0, levels := [] } : Version Nat).withNewL0Run [mkTE 7 3 9 [(4, 7)]]).tables = [] := by decide

/-- `runs_ok` is needed in `versionGet_eq_keyTables`: an unsorted run hides the table holding the key -/
example :
    let v : Version Nat := { id := 0, levels := [[[mkTE 0 10 12 [(11, 1)], mkTE 1 0 2 [(1, 1)]]]] }
    versionGet v 1 5 = none ∧ ((keyTables v 1).findSome? (fun t => tableGet t 1 5)).isSome = true := by decide

/-- `meta_ok` is needed in `versionGet_eq_tables` (not in `versionGet_eq_keyTables`): a table whose recorded range
    does not cover its content is skipped by the read path -/
example :
    let v : Version Nat := { id := 0, levels := [[[mkTE 0 10 12 [(1, 1)]]]] }
    versionGet v 1 5 = none ∧ (v.tables.findSome? (fun t => tableGet t 1 5)).isSome = true := by decide

/-- fresh ids are needed in `withMerge_WF`: re-using a surviving id breaks `nodup` -/
example : ((exV.withMerge [1] [mkTE 0 3 9 [(4, 7)]] 1).tables.map (·.id)) = [0, 0, 2, 3, 4] := by decide

end Examples

#print axioms versionGet_eq_keyTables
#print axioms versionGet_eq_tables
#print axioms removeIds_tables
#print axioms removeIds_runs_ok
#print axioms optimize_keyOrder
#print axioms keyTables_eq_flatMap_levels
#print axioms keyTables_eq_flatMap_range
#print axioms rebuild_keyTables
#print axioms rebuild_tables_perm
#print axioms rebuild_WF
#print axioms withDropped_keyTables
#print axioms withDropped_levelKeyTables
#print axioms withDropped_tables_perm
#print axioms withDropped_WF
#print axioms withMerge_keyTables
#print axioms withMerge_levelKeyTables
#print axioms withMerge_tables_perm
#print axioms withMerge_WF
#print axioms withMoved_keyTables
#print axioms withMoved_levelKeyTables
#print axioms withMoved_tables_perm
#print axioms withMoved_WF
#print axioms withNewL0Run_keyTables
#print axioms withNewL0Run_tables_perm
#print axioms withNewL0Run_WF
#print axioms withDropped_versionGet
#print axioms withMoved_versionGet_of_untouched
#print axioms exV_WF

end Order

end Lsm
