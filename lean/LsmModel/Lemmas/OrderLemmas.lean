import LsmModel.Basic
/-
  LsmModel.Lemmas.OrderLemmas — the internal-key order `ikLt`, sources, `newest`, `memGet`, `memInsert`.
-/
namespace Lsm
set_option linter.unusedSectionVars false
variable {K : Type}

section
variable [LT K] [DecidableLT K] [DecidableEq K]

theorem ikLt_iff (a b : Entry K) :
    ikLt a b = true ↔ (a.key < b.key ∨ (a.key = b.key ∧ b.seqno < a.seqno)) := by
  simp [ikLt]

theorem ikEq_iff (a b : Entry K) : ikEq a b = true ↔ (a.key = b.key ∧ a.seqno = b.seqno) := by
  simp [ikEq]

variable [LE K] [Std.IsLinearOrder K] [Std.LawfulOrderLT K]

theorem ikLt_irrefl (a : Entry K) : ikLt a a = false := by
  have := ikLt_iff a a
  grind

theorem ikLt_trans {a b c : Entry K} (h1 : ikLt a b = true) (h2 : ikLt b c = true) : ikLt a c = true := by
  rw [ikLt_iff] at *
  grind

theorem ikLt_asymm {a b : Entry K} (h : ikLt a b = true) : ikLt b a = false := by
  have h2 := ikLt_iff b a
  rw [ikLt_iff] at h
  grind

theorem ikLt_total (a b : Entry K) : ikLt a b = true ∨ ikEq a b = true ∨ ikLt b a = true := by
  rw [ikLt_iff, ikLt_iff, ikEq_iff]
  grind

theorem ikLt_key_le {a b : Entry K} (h : ikLt a b = true) : a.key ≤ b.key := by
  rw [ikLt_iff] at h
  grind

theorem not_ikLt_iff (a b : Entry K) : ikLt a b = false ↔ (ikEq a b = true ∨ ikLt b a = true) := by
  have h1 := ikLt_iff a b
  have h2 := ikLt_iff b a
  have h3 := ikEq_iff a b
  grind

end

/-! ### sources -/
section
variable [LT K] [DecidableLT K] [DecidableEq K]
variable [LE K] [Std.IsLinearOrder K] [Std.LawfulOrderLT K]

theorem isSource_nil : IsSource ([] : List (Entry K)) := List.Pairwise.nil

theorem isSource_cons {a : Entry K} {l : List (Entry K)} :
    IsSource (a :: l) ↔ (∀ x ∈ l, ikLt a x = true) ∧ IsSource l := by
  simp [IsSource, List.pairwise_cons]

theorem IsSource.tail {a : Entry K} {l : List (Entry K)} (h : IsSource (a :: l)) : IsSource l :=
  (isSource_cons.mp h).2

theorem IsSource.head_lt {a : Entry K} {l : List (Entry K)} (h : IsSource (a :: l)) :
    ∀ x ∈ l, ikLt a x = true := (isSource_cons.mp h).1

theorem IsSource.cons {a : Entry K} {l : List (Entry K)} (h1 : ∀ x ∈ l, ikLt a x = true) (h2 : IsSource l) :
    IsSource (a :: l) := isSource_cons.mpr ⟨h1, h2⟩

theorem IsSource.sublist {l l' : List (Entry K)} (hs : List.Sublist l' l) (h : IsSource l) : IsSource l' :=
  List.Pairwise.sublist hs h

/-- adjacent check suffices: cons onto a nonempty source -/
theorem IsSource.cons_cons {a b : Entry K} {l : List (Entry K)} (h1 : ikLt a b = true) (h2 : IsSource (b :: l)) :
    IsSource (a :: b :: l) := by
  refine IsSource.cons ?_ h2
  intro x hx
  rcases List.mem_cons.mp hx with rfl | hx
  · exact h1
  · exact ikLt_trans h1 (h2.head_lt x hx)

theorem isSourceB_iff (l : List (Entry K)) : isSourceB l = true ↔ IsSource l := by
  induction l with
  | nil => simp [isSourceB, isSource_nil]
  | cons a t ih =>
    cases t with
    | nil => simp [isSourceB, IsSource]
    | cons b t =>
      simp only [isSourceB, Bool.and_eq_true, ih]
      constructor
      · rintro ⟨h1, h2⟩; exact IsSource.cons_cons h1 h2
      · intro h; exact ⟨h.head_lt b List.mem_cons_self, h.tail⟩

theorem IsSource.keys_le {l : List (Entry K)} (h : IsSource l) : (l.map (·.key)).Pairwise (· ≤ ·) := by
  rw [List.pairwise_map]
  exact List.Pairwise.imp (fun h => ikLt_key_le h) h

theorem source_key_block {l1 l2 l3 : List (Entry K)} {a b : Entry K}
    (h : IsSource (l1 ++ a :: l2 ++ b :: l3)) (hk : a.key = b.key) :
    (∀ x ∈ l2, x.key = a.key) ∧ b.seqno < a.seqno := by
  have h' : IsSource (a :: l2 ++ b :: l3) := by
    rw [List.append_assoc] at h
    exact (List.pairwise_append.mp h).2.1
  have hab : ikLt a b = true := h'.head_lt b (by simp)
  constructor
  · intro x hx
    have h1 : ikLt a x = true := h'.head_lt x (by simp [hx])
    have h2 : ikLt x b = true := by
      have := (List.pairwise_append.mp h'.tail).2.2
      exact this x hx b List.mem_cons_self
    rw [ikLt_iff] at h1 h2
    grind
  · rw [ikLt_iff] at hab
    grind

/-! ### `newest` -/

theorem newest_nil (k : K) (S : Nat) : newest ([] : List (Entry K)) k S = none := rfl

theorem newest_cons (a : Entry K) (l : List (Entry K)) (k : K) (S : Nat) :
    newest (a :: l) k S = if a.key = k ∧ a.seqno < S then some a else newest l k S := by
  simp only [newest, List.find?_cons, visible]
  by_cases h1 : a.key = k <;> by_cases h2 : a.seqno < S <;> simp [h1, h2]

theorem newest_eq_none {l : List (Entry K)} {k : K} {S : Nat} :
    newest l k S = none ↔ ∀ x ∈ l, x.key = k → ¬ x.seqno < S := by
  simp [newest, List.find?_eq_none, visible]

theorem newest_some_basic {l : List (Entry K)} {k : K} {S : Nat} {e : Entry K} (h : newest l k S = some e) :
    e ∈ l ∧ e.key = k ∧ e.seqno < S := by
  have h1 := List.mem_of_find?_eq_some h
  have h2 := List.find?_some h
  simp [visible] at h2
  exact ⟨h1, h2.1, h2.2⟩

theorem newest_spec {l : List (Entry K)} (hs : IsSource l) {k : K} {S : Nat} {e : Entry K}
    (h : newest l k S = some e) :
    e ∈ l ∧ e.key = k ∧ e.seqno < S ∧ ∀ x ∈ l, x.key = k → x.seqno < S → x.seqno ≤ e.seqno := by
  obtain ⟨h1, h2, h3⟩ := newest_some_basic h
  refine ⟨h1, h2, h3, ?_⟩
  induction l with
  | nil => simp
  | cons a t ih =>
    rw [newest_cons] at h
    intro x hx hxk hxS
    split at h
    · rename_i hc
      cases h
      rcases List.mem_cons.mp hx with rfl | hx
      · exact Nat.le_refl _
      · have := hs.head_lt x hx
        rw [ikLt_iff] at this
        grind
    · rename_i hc
      rcases List.mem_cons.mp hx with rfl | hx
      · exact absurd ⟨hxk, hxS⟩ hc
      · exact ih hs.tail h (newest_some_basic h).1 x hx hxk hxS

/-- converse characterisation: the first visible entry of the key in a source is its newest -/
theorem newest_eq_some_iff {l : List (Entry K)} (hs : IsSource l) {k : K} {S : Nat} {e : Entry K} :
    newest l k S = some e ↔
      (e ∈ l ∧ e.key = k ∧ e.seqno < S ∧ ∀ x ∈ l, x.key = k → x.seqno < S → x.seqno ≤ e.seqno) := by
  constructor
  · exact newest_spec hs
  · rintro ⟨h1, h2, h3, h4⟩
    cases hn : newest l k S with
    | none => exact absurd h3 (newest_eq_none.mp hn e h1 h2)
    | some e' =>
      obtain ⟨g1, g2, g3, g4⟩ := newest_spec hs hn
      have le1 := h4 e' g1 g2 g3
      have le2 := g4 e h1 h2 h3
      have hseq : e'.seqno = e.seqno := by omega
      -- two members of a source with the same key and seqno are equal
      have : e' = e := by
        clear hn g4 h4 le1 le2
        induction l with
        | nil => cases h1
        | cons a t ih =>
          rcases List.mem_cons.mp h1 with rfl | h1' <;> rcases List.mem_cons.mp g1 with rfl | g1'
          · rfl
          · have := hs.head_lt e' g1'
            rw [ikLt_iff] at this; grind
          · have := hs.head_lt e h1'
            rw [ikLt_iff] at this; grind
          · exact ih hs.tail h1' g1'
      rw [this]

/-! ### `memGet` -/

theorem memGet_eq_newest {l : List (Entry K)} (hs : IsSource l) (k : K) (S : Nat) :
    memGet l k S = newest l k S := by
  unfold memGet
  by_cases hS : S = 0
  · subst hS
    simp only [if_true]
    exact (newest_eq_none.mpr (by intro x _ _; omega)).symm
  · simp only [hS, if_false]
    induction l with
    | nil => simp [newest]
    | cons a t ih =>
      rw [newest_cons, List.find?_cons]
      by_cases hlt : a.key < k
      · have : ¬ a.key = k := by grind
        simp [hlt, this]
        simpa using ih hs.tail
      · by_cases heq : a.key = k
        · have hirr : ¬ (k < k) := by grind
          by_cases hseq : a.seqno < S
          · have : ¬ (S - 1 < a.seqno) := by omega
            simp [hirr, heq, hseq, this]
          · have : S - 1 < a.seqno := by omega
            simp [hirr, heq, hseq, this]
            simpa using ih hs.tail
        · simp [hlt, heq]
          symm
          apply newest_eq_none.mpr
          intro x hx hxk
          have := hs.head_lt x hx
          rw [ikLt_iff] at this
          grind

/-! ### `memInsert` -/

theorem mem_memInsert {e x : Entry K} {l : List (Entry K)} (h : x ∈ memInsert e l) : x = e ∨ x ∈ l := by
  induction l with
  | nil => simp [memInsert] at h; exact Or.inl h
  | cons a t ih =>
    simp only [memInsert] at h
    split at h
    · simpa using h
    · split at h
      · rcases List.mem_cons.mp h with h | h
        · exact Or.inl h
        · exact Or.inr (List.mem_cons_of_mem _ h)
      · rcases List.mem_cons.mp h with h | h
        · exact Or.inr (h ▸ List.mem_cons_self)
        · rcases ih h with h | h
          · exact Or.inl h
          · exact Or.inr (List.mem_cons_of_mem _ h)

theorem mem_memInsert_self (e : Entry K) (l : List (Entry K)) : e ∈ memInsert e l := by
  induction l with
  | nil => simp [memInsert]
  | cons a t ih =>
    simp only [memInsert]
    split
    · exact List.mem_cons_self
    · split
      · exact List.mem_cons_self
      · exact List.mem_cons_of_mem _ ih

theorem memInsert_source {e : Entry K} {l : List (Entry K)} (hs : IsSource l) : IsSource (memInsert e l) := by
  induction l with
  | nil => simp [memInsert, IsSource]
  | cons a t ih =>
    simp only [memInsert]
    split
    · rename_i h; exact IsSource.cons_cons h hs
    · rename_i h
      split
      · rename_i h2
        refine IsSource.cons ?_ hs.tail
        intro x hx
        have := hs.head_lt x hx
        rw [ikEq_iff] at h2
        rw [ikLt_iff] at this ⊢
        grind
      · rename_i h2
        refine IsSource.cons ?_ (ih hs.tail)
        intro x hx
        rcases mem_memInsert hx with rfl | hx
        · rcases ikLt_total x a with h3 | h3 | h3
          · exact absurd h3 h
          · exact absurd h3 h2
          · exact h3
        · exact hs.head_lt x hx

theorem newest_memInsert_ge {e : Entry K} {l : List (Entry K)} (hs : IsSource l) {S : Nat} (hS : S ≤ e.seqno) (k : K) :
    newest (memInsert e l) k S = newest l k S := by
  have hne : ¬ (e.key = k ∧ e.seqno < S) := by omega
  induction l with
  | nil => simp [memInsert, newest_cons, hne]
  | cons a t ih =>
    simp only [memInsert]
    split
    · rw [newest_cons, if_neg hne]
    · split
      · rename_i h2
        rw [ikEq_iff] at h2
        have hna : ¬ (a.key = k ∧ a.seqno < S) := by omega
        rw [newest_cons, newest_cons, if_neg hne, if_neg hna]
      · rw [newest_cons, newest_cons, ih hs.tail]

theorem newest_memInsert_top {e : Entry K} {l : List (Entry K)} (hs : IsSource l)
    (htop : ∀ x ∈ l, x.key = e.key → x.seqno < e.seqno) {S : Nat} (hS : e.seqno < S) :
    newest (memInsert e l) e.key S = some e := by
  induction l with
  | nil => simp [memInsert, newest_cons, hS]
  | cons a t ih =>
    simp only [memInsert]
    split
    · simp [newest_cons, hS]
    · rename_i h
      split
      · simp [newest_cons, hS]
      · rename_i h2
        have h3 : ikLt a e = true := by
          rcases ikLt_total e a with h3 | h3 | h3
          · exact absurd h3 h
          · exact absurd h3 h2
          · exact h3
        have hak : ¬ a.key = e.key := by
          intro hak
          have := htop a List.mem_cons_self hak
          rw [ikLt_iff] at h3
          grind
        rw [newest_cons, if_neg (fun hc => hak hc.1)]
        exact ih hs.tail (fun x hx => htop x (List.mem_cons_of_mem _ hx))

end

end Lsm

#print axioms Lsm.ikLt_irrefl
#print axioms Lsm.ikLt_trans
#print axioms Lsm.ikLt_asymm
#print axioms Lsm.ikLt_total
#print axioms Lsm.IsSource.keys_le
#print axioms Lsm.mem_memInsert
#print axioms Lsm.newest_eq_some_iff
#print axioms Lsm.isSourceB_iff
#print axioms Lsm.source_key_block
#print axioms Lsm.newest_spec
#print axioms Lsm.newest_eq_none
#print axioms Lsm.memGet_eq_newest
#print axioms Lsm.memInsert_source
#print axioms Lsm.newest_memInsert_ge
#print axioms Lsm.newest_memInsert_top
