import LsmModel.Tree.Strategy
/-
  LsmModel.Lemmas.StrategyLemmas — facts about the FIFO and drop_range strategies.
-/
namespace Lsm
variable {K : Type}

/-! ### `idSet` -/

theorem mem_sortNat {x : Nat} {l : List Nat} : x ∈ sortNat l ↔ x ∈ l := by
  unfold sortNat
  induction l with
  | nil => simp
  | cons a t ih =>
    rw [List.foldr_cons, List.mem_append, List.mem_cons, List.mem_cons]
    have hsplit := @List.takeWhile_append_dropWhile _ (fun y => decide (y < a))
      (List.foldr (fun x acc => (acc.takeWhile (· < x)) ++ x :: (acc.dropWhile (· < x))) [] t)
    rw [← ih]
    conv => rhs; rw [← hsplit, List.mem_append]
    grind

theorem mem_dedupSorted {x : Nat} {l : List Nat} : x ∈ dedupSorted l ↔ x ∈ l := by
  fun_induction dedupSorted l <;> grind

theorem mem_idSet {x : Nat} {l : List Nat} : x ∈ idSet l ↔ x ∈ l := by
  unfold idSet; rw [mem_dedupSorted, mem_sortNat]

theorem idSet_nil : idSet [] = [] := by simp [idSet, sortNat, dedupSorted]

/-! ### FIFO -/

theorem fifoCollect_prefix (overshoot c : Nat) (ts : List FifoTable) :
    ∃ n, fifoCollect overshoot c ts = (ts.take n).map (·.id) := by
  induction ts generalizing c with
  | nil => exact ⟨0, by simp [fifoCollect]⟩
  | cons t ts ih =>
    unfold fifoCollect
    split
    · exact ⟨0, by simp⟩
    · obtain ⟨n, hn⟩ := ih (c + t.fileSize + t.blobBytes)
      exact ⟨n + 1, by simp [hn]⟩

/-- the TTL cutoff of `fifoChoose` -/
def fifoCutoff (ttl : Option Nat) (now : Nat) : Option Nat :=
  match ttl with
  | some s => if s > 0 then some (now - s * 1000000000) else none
  | none => none

/-- the `expired` test of `fifoChoose` -/
def fifoExpiredB (cutoff : Option Nat) (t : FifoTable) : Bool :=
  match cutoff with
  | some c => decide (t.createdAt ≤ c)
  | none => false

/-- the size-based part of `fifoChoose` -/
def fifoExtra (limit : Nat) (cutoff : Option Nat) (dbSize : Nat) (l0 : List FifoTable) : List Nat :=
  let dead := l0.filter (fifoExpiredB cutoff)
  let alive := l0.filter (fun t => !fifoExpiredB cutoff t)
  let ttlBytes := (dead.map (fun t => t.fileSize + t.blobBytes)).foldl (· + ·) 0
  let sizeAfter := dbSize - ttlBytes
  if sizeAfter > limit then fifoCollect (sizeAfter - limit) 0 (sortByCreated alive) else []

/-- the id list computed by `fifoChoose` -/
def fifoIds (limit : Nat) (ttl : Option Nat) (now : Nat) (dbSize : Nat) (l0 : List FifoTable) : List Nat :=
  idSet ((l0.filter (fifoExpiredB (fifoCutoff ttl now))).map (·.id) ++
    fifoExtra limit (fifoCutoff ttl now) dbSize l0)

theorem fifoChoose_eq (limit : Nat) (ttl : Option Nat) (now dbSize : Nat) (l0 : List FifoTable) :
    fifoChoose limit ttl now dbSize l0 =
      if l0.isEmpty then .doNothing
      else if (fifoIds limit ttl now dbSize l0).isEmpty then .doNothing
      else .drop (fifoIds limit ttl now dbSize l0) := rfl

theorem fifoChoose_drop {limit : Nat} {ttl : Option Nat} {now dbSize : Nat} {l0 : List FifoTable}
    {ids : List Nat} (hc : fifoChoose limit ttl now dbSize l0 = .drop ids) :
    ids = fifoIds limit ttl now dbSize l0 := by
  rw [fifoChoose_eq] at hc
  split at hc
  · cases hc
  · split at hc
    · cases hc
    · injection hc with hc; exact hc.symm

theorem fifoExtra_prefix (limit : Nat) (cutoff : Option Nat) (dbSize : Nat) (l0 : List FifoTable) :
    ∃ n, fifoExtra limit cutoff dbSize l0 =
      ((sortByCreated (l0.filter (fun t => !fifoExpiredB cutoff t))).take n).map (·.id) := by
  unfold fifoExtra
  simp only
  split
  · exact fifoCollect_prefix _ _ _
  · exact ⟨0, by simp⟩

theorem fifo_within_limit_nothing (limit : Nat) (ttl : Option Nat) (now dbSize : Nat)
    (l0 : List FifoTable) (hle : dbSize ≤ limit) (httl : ttl = none ∨ ttl = some 0) :
    fifoChoose limit ttl now dbSize l0 = .doNothing := by
  have hcut : fifoCutoff ttl now = none := by
    rcases httl with rfl | rfl <;> simp [fifoCutoff]
  have hex : fifoExpiredB none = fun _ => false := rfl
  have hids : fifoIds limit ttl now dbSize l0 = [] := by
    unfold fifoIds fifoExtra
    rw [hcut, hex]
    simp only [List.filter_eq_nil_iff.mpr (fun (a : FifoTable) _ => Bool.false_ne_true), List.map_nil,
      List.foldl_nil, Nat.sub_zero, List.nil_append]
    rw [if_neg (by omega)]
    exact idSet_nil
  rw [fifoChoose_eq, hids]
  simp

theorem mem_insertByCreated {t y : FifoTable} {l : List FifoTable} :
    y ∈ insertByCreated t l ↔ y = t ∨ y ∈ l := by
  induction l with
  | nil => simp [insertByCreated]
  | cons x xs ih =>
    unfold insertByCreated
    split <;> grind

theorem insertByCreated_perm (t : FifoTable) (l : List FifoTable) :
    (insertByCreated t l).Perm (t :: l) := by
  induction l with
  | nil => simp [insertByCreated]
  | cons x xs ih =>
    unfold insertByCreated
    split
    · exact List.Perm.refl _
    · exact ((List.Perm.cons x ih).trans (List.Perm.swap t x xs))

theorem insertByCreated_sorted (t : FifoTable) (l : List FifoTable)
    (hs : l.Pairwise (fun a b => a.createdAt ≤ b.createdAt)) :
    (insertByCreated t l).Pairwise (fun a b => a.createdAt ≤ b.createdAt) := by
  induction l with
  | nil => simp [insertByCreated]
  | cons x xs ih =>
    rw [List.pairwise_cons] at hs
    unfold insertByCreated
    split
    · next hlt =>
      rw [List.pairwise_cons, List.pairwise_cons]
      refine ⟨?_, hs⟩
      intro b hb
      rcases List.mem_cons.mp hb with rfl | hb
      · omega
      · have := hs.1 b hb; omega
    · next hge =>
      rw [List.pairwise_cons]
      refine ⟨?_, ih hs.2⟩
      intro b hb
      rcases mem_insertByCreated.mp hb with rfl | hb
      · omega
      · exact hs.1 b hb

theorem foldl_insertByCreated_sorted (l acc : List FifoTable)
    (hs : acc.Pairwise (fun a b => a.createdAt ≤ b.createdAt)) :
    (l.foldl (fun acc t => insertByCreated t acc) acc).Pairwise (fun a b => a.createdAt ≤ b.createdAt) := by
  induction l generalizing acc with
  | nil => simpa using hs
  | cons x xs ih => exact ih _ (insertByCreated_sorted x acc hs)

theorem foldl_insertByCreated_perm (l acc : List FifoTable) :
    (l.foldl (fun acc t => insertByCreated t acc) acc).Perm (l ++ acc) := by
  induction l generalizing acc with
  | nil => simp
  | cons x xs ih =>
    refine (ih _).trans ?_
    refine (List.Perm.append_left xs (insertByCreated_perm x acc)).trans ?_
    simp

theorem sortByCreated_sorted (l : List FifoTable) :
    (sortByCreated l).Pairwise (fun a b => a.createdAt ≤ b.createdAt) :=
  foldl_insertByCreated_sorted l [] List.Pairwise.nil

theorem sortByCreated_perm (l : List FifoTable) : (sortByCreated l).Perm l := by
  simpa [sortByCreated] using foldl_insertByCreated_perm l []

theorem mem_sortByCreated {x : FifoTable} {l : List FifoTable} : x ∈ sortByCreated l ↔ x ∈ l :=
  (sortByCreated_perm l).mem_iff

/-- distinct ids: a table of `l` is determined by its id -/
theorem eq_of_id_eq {l : List FifoTable} (hnd : (l.map (·.id)).Nodup) {a b : FifoTable}
    (ha : a ∈ l) (hb : b ∈ l) (hid : a.id = b.id) : a = b := by
  induction l with
  | nil => cases ha
  | cons x xs ih =>
    rw [List.map_cons, List.nodup_cons] at hnd
    rcases List.mem_cons.mp ha with rfl | ha' <;> rcases List.mem_cons.mp hb with rfl | hb'
    · rfl
    · exact (hnd.1 (List.mem_map.mpr ⟨b, hb', hid.symm⟩)).elim
    · exact (hnd.1 (List.mem_map.mpr ⟨a, ha', hid⟩)).elim
    · exact ih hnd.2 ha' hb'

/-- the core of the FIFO order argument: among the tables of `l` (distinct ids), one whose id is in the id list of a
    prefix of `sortByCreated l` is at most as young as one whose id is not -/
theorem prefix_oldest (l base : List FifoTable) (hnd : (base.map (·.id)).Nodup)
    (hsub : ∀ x ∈ l, x ∈ base) (n : Nat) (d r : FifoTable)
    (hd : d ∈ base) (hdi : d.id ∈ ((sortByCreated l).take n).map (·.id))
    (hr : r ∈ l) (hri : r.id ∉ ((sortByCreated l).take n).map (·.id)) :
    d.createdAt ≤ r.createdAt := by
  obtain ⟨d', hd', hid⟩ := List.mem_map.mp hdi
  have hd'l : d' ∈ l := mem_sortByCreated.mp (List.mem_of_mem_take hd')
  have : d' = d := eq_of_id_eq hnd (hsub _ hd'l) hd hid
  subst this
  have hrs : r ∈ sortByCreated l := mem_sortByCreated.mpr hr
  rw [← List.take_append_drop n (sortByCreated l), List.mem_append] at hrs
  have hrd : r ∈ (sortByCreated l).drop n := by
    rcases hrs with h | h
    · exact absurd (List.mem_map.mpr ⟨r, h, rfl⟩) hri
    · exact h
  have hs := sortByCreated_sorted l
  rw [← List.take_append_drop n (sortByCreated l), List.pairwise_append] at hs
  exact hs.2.2 _ hd' _ hrd

/-- `expired d`: the TTL is set, positive, and `d` is at or before the cutoff -/
def fifoExpired (ttl : Option Nat) (now : Nat) (d : FifoTable) : Prop :=
  ∃ s, ttl = some s ∧ 0 < s ∧ d.createdAt ≤ now - s * 1000000000

theorem fifoExpiredB_spec {ttl : Option Nat} {now : Nat} {t : FifoTable}
    (h : fifoExpiredB (fifoCutoff ttl now) t = true) : fifoExpired ttl now t := by
  unfold fifoCutoff at h
  cases ttl with
  | none => simp [fifoExpiredB] at h
  | some s =>
    simp only at h
    split at h
    · next hs => exact ⟨s, rfl, hs, by simpa [fifoExpiredB] using h⟩
    · simp [fifoExpiredB] at h

theorem fifo_ttl_or_oldest (limit : Nat) (ttl : Option Nat) (now dbSize : Nat) (l0 : List FifoTable)
    (hnd : (l0.map (·.id)).Nodup) (ids : List Nat)
    (hc : fifoChoose limit ttl now dbSize l0 = .drop ids)
    (d : FifoTable) (hd : d ∈ l0) (hdi : d.id ∈ ids)
    (r : FifoTable) (hr : r ∈ l0) (hri : r.id ∉ ids) :
    d.createdAt ≤ r.createdAt ∨ fifoExpired ttl now d := by
  have hids := fifoChoose_drop hc
  subst hids
  unfold fifoIds at hdi hri
  rw [mem_idSet, List.mem_append] at hdi hri
  rcases hdi with hdi | hdi
  · right
    obtain ⟨d', hd', hid⟩ := List.mem_map.mp hdi
    rw [List.mem_filter] at hd'
    have : d' = d := eq_of_id_eq hnd hd'.1 hd hid
    subst this
    exact fifoExpiredB_spec hd'.2
  · left
    have hralive : r ∈ l0.filter (fun t => !fifoExpiredB (fifoCutoff ttl now) t) := by
      rw [List.mem_filter]
      refine ⟨hr, ?_⟩
      cases he : fifoExpiredB (fifoCutoff ttl now) r with
      | false => rfl
      | true =>
        exact absurd (Or.inl (List.mem_map.mpr ⟨r, List.mem_filter.mpr ⟨hr, he⟩, rfl⟩)) hri
    obtain ⟨n, hn⟩ := fifoExtra_prefix limit (fifoCutoff ttl now) dbSize l0
    rw [hn] at hdi hri
    exact prefix_oldest _ l0 hnd (fun x hx => (List.mem_filter.mp hx).1) n d r hd hdi hralive
      (fun h => hri (Or.inr h))

theorem fifo_drops_oldest (limit now dbSize : Nat) (l0 : List FifoTable)
    (hnd : (l0.map (·.id)).Nodup) (ids : List Nat)
    (hc : fifoChoose limit none now dbSize l0 = .drop ids)
    (d : FifoTable) (hd : d ∈ l0) (hdi : d.id ∈ ids)
    (r : FifoTable) (hr : r ∈ l0) (hri : r.id ∉ ids) :
    d.createdAt ≤ r.createdAt := by
  rcases fifo_ttl_or_oldest limit none now dbSize l0 hnd ids hc d hd hdi r hr hri with h | ⟨s, hs, _⟩
  · exact h
  · cases hs

/-- the id list returned by FIFO is `idSet` of the ids of the expired tables plus a prefix of the alive ones
    sorted by creation time (with `ttl = none`: of a prefix of `sortByCreated l0`) -/
theorem fifo_none_ids_prefix (limit now dbSize : Nat) (l0 : List FifoTable) (ids : List Nat)
    (hc : fifoChoose limit none now dbSize l0 = .drop ids) :
    ∃ n, ids = idSet (((sortByCreated l0).take n).map (·.id)) := by
  have hids := fifoChoose_drop hc
  subst hids
  obtain ⟨n, hn⟩ := fifoExtra_prefix limit (fifoCutoff none now) dbSize l0
  refine ⟨n, ?_⟩
  unfold fifoIds
  rw [hn]
  have hex : fifoExpiredB (fifoCutoff none now) = fun _ => false := rfl
  rw [hex]
  simp only [List.filter_eq_nil_iff.mpr (fun (a : FifoTable) _ => Bool.false_ne_true), List.map_nil,
    List.nil_append, Bool.not_false]
  rw [List.filter_eq_self.mpr (fun _ _ => rfl)]

/-- the distinct-ids hypothesis of `fifo_drops_oldest` is necessary: with two tables sharing id 1 the choice `drop [1]`
    covers the table created at 5, while the retained table 2 was created at 3 -/
example :
    let l0 : List FifoTable := [⟨1, 0, 10, 0⟩, ⟨1, 5, 10, 0⟩, ⟨2, 3, 10, 0⟩]
    fifoChoose 25 none 0 30 l0 = .drop [1] ∧ ¬ (5 ≤ 3) := by decide

/-- a run of FIFO with a TTL: table 3 (created at 9·10⁹) is expired at `now = 10·10⁹`, `ttl = 1 s` although it is not
    older than the retained table 2 — the `fifoExpired` disjunct of `fifo_ttl_or_oldest` is needed -/
example :
    let l0 : List FifoTable := [⟨3, 9000000000, 10, 0⟩, ⟨2, 9500000000, 10, 0⟩]
    fifoChoose 100 (some 1) 10000000000 20 l0 = .drop [3] := by decide

/-! ### drop_range -/

section
variable [LT K] [DecidableLT K]

theorem dropRange_ids_contained (lo hi : Bound K) (v : Version K) (hidden : List Nat) (ids : List Nat)
    (hc : dropRangeChoose lo hi v hidden = .drop ids) (i : Nat) (hi' : i ∈ ids) :
    ∃ t ∈ v.tables, t.id = i ∧ boundsContain lo hi t = true := by
  unfold dropRangeChoose at hc
  simp only at hc
  split at hc
  · cases hc
  · simp only [Choice.drop.injEq] at hc
    subst hc
    rw [mem_idSet, List.mem_map] at hi'
    obtain ⟨t, ht, hid⟩ := hi'
    rw [List.mem_flatten] at ht
    obtain ⟨sl, hsl, hts⟩ := ht
    rw [List.mem_map] at hsl
    obtain ⟨run, hrun, hsl⟩ := hsl
    subst hsl
    refine ⟨t, ?_, hid, ?_⟩
    · unfold Version.tables
      unfold Version.runs at hrun
      rw [List.mem_flatten]
      refine ⟨run, hrun, ?_⟩
      split at hts
      · cases hts
      · exact List.mem_of_mem_drop (List.mem_of_mem_take (List.mem_filter.mp hts).1)
    · split at hts
      · cases hts
      · exact (List.mem_filter.mp hts).2

variable [LE K] [Std.IsLinearOrder K] [Std.LawfulOrderLT K]

/-- strong form: `t.lo ≤ t.hi` is implied by the existence of `k` -/
theorem boundsContain_sound' (lo hi : Bound K) (t : TableM K) (hb : boundsContain lo hi t = true)
    (k : K) (h1 : t.lo ≤ k) (h2 : k ≤ t.hi) : inBounds lo hi k = true := by
  unfold boundsContain at hb
  unfold inBounds Bound.okLo Bound.okHi
  cases lo <;> cases hi <;> simp at hb ⊢ <;> grind

theorem boundsContain_sound (lo hi : Bound K) (t : TableM K) (hb : boundsContain lo hi t = true)
    (_hle : t.lo ≤ t.hi) : ∀ k, t.lo ≤ k → k ≤ t.hi → inBounds lo hi k = true :=
  fun k h1 h2 => boundsContain_sound' lo hi t hb k h1 h2

theorem boundsInverted_empty (lo hi : Bound K) (hb : boundsInverted lo hi = true) :
    ∀ k, inBounds lo hi k = false := by
  intro k
  unfold boundsInverted at hb
  unfold inBounds Bound.okLo Bound.okHi
  cases lo <;> cases hi <;> simp at hb ⊢ <;> grind

end

#print axioms mem_idSet
#print axioms fifo_within_limit_nothing
#print axioms fifoCollect_prefix
#print axioms sortByCreated_sorted
#print axioms sortByCreated_perm
#print axioms fifo_drops_oldest
#print axioms fifo_ttl_or_oldest
#print axioms fifo_none_ids_prefix
#print axioms boundsContain_sound
#print axioms boundsContain_sound'
#print axioms dropRange_ids_contained
#print axioms boundsInverted_empty

end Lsm
