import LsmModel.Stream.Compaction
/-
  LsmModel.Lemmas.CStreamLemmas — structure, read and filter lemmas about the GC stream `cstream`.
-/
namespace Lsm
set_option linter.unusedSectionVars false

variable {K : Type} [LT K] [DecidableLT K] [DecidableEq K]

/-! ## Definitions -/

/-- user keys weakly ascending -/
def KeysSorted (l : List (Entry K)) : Prop := l.Pairwise (fun a b => ¬ b.key < a.key)

/-- the versions of one user key, in list order -/
def keyOf (k : K) (l : List (Entry K)) : List (Entry K) := l.filter (fun e => decide (e.key = k))

def SingleKey (k : K) (l : List (Entry K)) : Prop := ∀ e ∈ l, e.key = k

def isValueLike (e : Entry K) : Bool := e.vt == .value || e.vt == .indir

/-- single-delete discipline on the version list of ONE key (newest first): no strong tombstone, and a value
    is directly followed (older) by a weak tombstone or nothing (it was never overwritten) -/
def WeakSafe : List (Entry K) → Prop
  | [] => True
  | [e] => e.vt ≠ .tomb
  | a :: b :: t => a.vt ≠ .tomb ∧ (isValueLike a = true → b.vt = .weak) ∧ WeakSafe (b :: t)

/-! ## One-step unfolding lemmas for `cstream` -/

theorem cstream_nil (wm : Nat) (ev : Bool) (f : Entry K → Verdict) :
    cstream wm ev f ([] : List (Entry K)) = ([], []) := by
  rw [cstream]

theorem cstream_cons_none (wm : Nat) (ev : Bool) (f : Entry K → Verdict) (e : Entry K) (es pre : List (Entry K))
    (h : filterHead f e = (none, pre)) :
    cstream wm ev f (e :: es) = ((cstream wm ev f es).1, pre ++ (cstream wm ev f es).2) := by
  rw [cstream, h]

theorem cstream_single (wm : Nat) (ev : Bool) (f : Entry K → Verdict) (e head : Entry K) (pre : List (Entry K))
    (h : filterHead f e = (some head, pre)) :
    cstream wm ev f [e] = if head.isTomb && ev then ([], pre) else ([head], pre) := by
  rw [cstream, h]

theorem cstream_cons_cons (wm : Nat) (ev : Bool) (f : Entry K → Verdict) (e head p : Entry K)
    (tl pre : List (Entry K)) (h : filterHead f e = (some head, pre)) :
    cstream wm ev f (e :: p :: tl) =
      if head.key < p.key then
        if head.isTomb && ev then ((cstream wm ev f (p :: tl)).1, pre ++ (cstream wm ev f (p :: tl)).2)
        else (head :: (cstream wm ev f (p :: tl)).1, pre ++ (cstream wm ev f (p :: tl)).2)
      else if p.seqno < wm then
        if head.vt = .tomb ∧ ev = true then
          ((cstream wm ev f (drainKey (!ev) head.key (p :: tl)).2).1,
            pre ++ (drainKey (!ev) head.key (p :: tl)).1 ++ (cstream wm ev f (drainKey (!ev) head.key (p :: tl)).2).2)
        else if p.vt = .value ∧ head.vt = .weak then
          ((cstream wm ev f tl).1, pre ++ p :: (cstream wm ev f tl).2)
        else
          (head :: (cstream wm ev f (drainKey (!ev) head.key (p :: tl)).2).1,
            pre ++ (drainKey (!ev) head.key (p :: tl)).1 ++ (cstream wm ev f (drainKey (!ev) head.key (p :: tl)).2).2)
      else (head :: (cstream wm ev f (p :: tl)).1, pre ++ (cstream wm ev f (p :: tl)).2) := by
  rw [cstream, h]

/-! ## Basic facts: `filterHead`, `keyOf`, `KeysSorted`, `drainKey` -/

theorem filterHead_noFilter (e : Entry K) : filterHead noFilter e = (some e, []) := by
  simp [filterHead, noFilter]

theorem filterHead_some {f : Entry K → Verdict} {e head : Entry K} {pre : List (Entry K)}
    (h : filterHead f e = (some head, pre)) :
    head.key = e.key ∧ head.seqno = e.seqno ∧ (pre = [] ∨ pre = [e]) ∧ (e.isTomb = true → head = e ∧ pre = []) := by
  unfold filterHead at h
  split at h
  · simp_all
  · split at h <;> simp_all <;> grind

theorem filterHead_none {f : Entry K → Verdict} {e : Entry K} {pre : List (Entry K)}
    (h : filterHead f e = (none, pre)) : pre = [e] ∧ e.isTomb = false := by
  unfold filterHead at h
  split at h
  · simp_all
  · split at h <;> simp_all

theorem keyOf_nil (k : K) : keyOf k ([] : List (Entry K)) = [] := rfl

theorem keyOf_cons (k : K) (e : Entry K) (l : List (Entry K)) :
    keyOf k (e :: l) = if e.key = k then e :: keyOf k l else keyOf k l := by
  simp [keyOf, List.filter_cons]

theorem keyOf_cons_pos {k : K} {e : Entry K} (h : e.key = k) (l : List (Entry K)) :
    keyOf k (e :: l) = e :: keyOf k l := by simp [keyOf_cons, h]

theorem keyOf_cons_neg {k : K} {e : Entry K} (h : ¬ e.key = k) (l : List (Entry K)) :
    keyOf k (e :: l) = keyOf k l := by simp [keyOf_cons, h]

theorem keyOf_append (k : K) (l₁ l₂ : List (Entry K)) : keyOf k (l₁ ++ l₂) = keyOf k l₁ ++ keyOf k l₂ := by
  simp [keyOf]

theorem keyOf_eq_nil {k : K} {l : List (Entry K)} (h : ∀ x ∈ l, x.key ≠ k) : keyOf k l = [] := by
  simp [keyOf]; exact h

theorem keyOf_eq_self {k : K} {l : List (Entry K)} (h : SingleKey k l) : keyOf k l = l := by
  simp [keyOf]; exact h

theorem singleKey_keyOf (k : K) (l : List (Entry K)) : SingleKey k (keyOf k l) := by
  intro e he; simp [keyOf] at he; exact he.2

theorem KeysSorted.cons_iff {a : Entry K} {l : List (Entry K)} :
    KeysSorted (a :: l) ↔ (∀ b ∈ l, ¬ b.key < a.key) ∧ KeysSorted l := by
  simp [KeysSorted]

theorem KeysSorted.tail {a : Entry K} {l : List (Entry K)} (h : KeysSorted (a :: l)) : KeysSorted l :=
  (KeysSorted.cons_iff.mp h).2

theorem drainKey_nil (s : Bool) (k : K) : drainKey s k ([] : List (Entry K)) = ([], []) := rfl

theorem drainKey_cons (s : Bool) (k : K) (e : Entry K) (es : List (Entry K)) :
    drainKey s k (e :: es) =
      if e.key = k ∧ ¬ (s = true ∧ e.vt = .weak) then (e :: (drainKey s k es).1, (drainKey s k es).2)
      else ([], e :: es) := rfl

theorem drainKey_append (s : Bool) (k : K) (l : List (Entry K)) :
    (drainKey s k l).1 ++ (drainKey s k l).2 = l := by
  induction l with
  | nil => rfl
  | cons e es ih => rw [drainKey_cons]; split <;> simp [ih]

theorem drainKey_fst_key (s : Bool) (k : K) (l : List (Entry K)) : ∀ x ∈ (drainKey s k l).1, x.key = k := by
  induction l with
  | nil => simp [drainKey_nil]
  | cons e es ih => rw [drainKey_cons]; split <;> simp_all

theorem drainKey_snd_suffix (s : Bool) (k : K) (l : List (Entry K)) : (drainKey s k l).2 <:+ l :=
  ⟨(drainKey s k l).1, drainKey_append s k l⟩

theorem drainKey_snd_sublist (s : Bool) (k : K) (l : List (Entry K)) : (drainKey s k l).2.Sublist l :=
  (drainKey_snd_suffix s k l).sublist

theorem drainKey_singleKey_false {k : K} {l : List (Entry K)} (h : SingleKey k l) :
    drainKey false k l = (l, []) := by
  induction l with
  | nil => rfl
  | cons e es ih =>
    have he : e.key = k := h e (by simp)
    have : SingleKey k es := fun x hx => h x (by simp [hx])
    rw [drainKey_cons, ih this]; simp [he]

/-! ## A1 — the output is a sublist of the (filtered) input -/

/-- what the filter turns an entry into when it survives (identity on dropped entries, irrelevant there) -/
def filtered (f : Entry K → Verdict) (e : Entry K) : Entry K := ((filterHead f e).1).getD e

theorem filtered_noFilter (e : Entry K) : filtered noFilter e = e := by
  simp [filtered, filterHead_noFilter]

theorem filtered_key (f : Entry K → Verdict) (e : Entry K) : (filtered f e).key = e.key := by
  unfold filtered
  cases h : filterHead f e with
  | mk o pre => cases o with
    | none => rfl
    | some hd => exact (filterHead_some h).1

theorem filtered_seqno (f : Entry K → Verdict) (e : Entry K) : (filtered f e).seqno = e.seqno := by
  unfold filtered
  cases h : filterHead f e with
  | mk o pre => cases o with
    | none => rfl
    | some hd => exact (filterHead_some h).2.1

/-- (A1, with a filter) -/
theorem cstream_sub_filter (wm : Nat) (ev : Bool) (f : Entry K → Verdict) (l : List (Entry K)) :
    (cstream wm ev f l).1.Sublist (l.map (fun e => ((filterHead f e).1).getD e)) := by
  induction l using cstream.induct (wm := wm) (evict := ev) (f := f) with
  | case1 => simp [cstream_nil]
  | case2 e es pre hf ih =>
    rw [cstream_cons_none _ _ _ _ _ _ hf]
    exact List.Sublist.cons _ ih
  | case3 e head pre hf hev =>
    rw [cstream_single _ _ _ _ _ _ hf, if_pos hev]; simp
  | case4 e head pre hf hev =>
    rw [cstream_single _ _ _ _ _ _ hf, if_neg hev]; simp [hf]
  | case5 e head pre hf p tl hlt hev ih =>
    rw [cstream_cons_cons _ _ _ _ _ _ _ _ hf, if_pos hlt, if_pos hev]
    exact List.Sublist.cons _ ih
  | case6 e head pre hf p tl hlt hev ih =>
    rw [cstream_cons_cons _ _ _ _ _ _ _ _ hf, if_pos hlt, if_neg hev]
    simp only [List.map_cons, hf, Option.getD_some]
    exact List.Sublist.cons_cons _ ih
  | case7 e head pre hf p tl hlt hwm htomb d ih =>
    rw [cstream_cons_cons _ _ _ _ _ _ _ _ hf, if_neg hlt, if_pos hwm, if_pos htomb]
    exact List.Sublist.cons _ (ih.trans ((drainKey_snd_sublist _ _ _).map _))
  | case8 e head pre hf p tl hlt hwm htomb hpair ih =>
    rw [cstream_cons_cons _ _ _ _ _ _ _ _ hf, if_neg hlt, if_pos hwm, if_neg htomb, if_pos hpair]
    exact List.Sublist.cons _ (List.Sublist.cons _ ih)
  | case9 e head pre hf p tl hlt hwm htomb hpair d ih =>
    rw [cstream_cons_cons _ _ _ _ _ _ _ _ hf, if_neg hlt, if_pos hwm, if_neg htomb, if_neg hpair]
    rw [List.map_cons]
    simp only [hf, Option.getD_some]
    exact List.Sublist.cons_cons _ (ih.trans ((drainKey_snd_sublist _ _ _).map _))
  | case10 e head pre hf p tl hlt hwm ih =>
    rw [cstream_cons_cons _ _ _ _ _ _ _ _ hf, if_neg hlt, if_neg hwm]
    rw [List.map_cons]
    simp only [hf, Option.getD_some]
    exact List.Sublist.cons_cons _ ih

/-- (A1) without a filter the output is a sublist of the input -/
theorem cstream_sub (wm : Nat) (ev : Bool) (l : List (Entry K)) :
    (cstream wm ev noFilter l).1.Sublist l := by
  have h := cstream_sub_filter wm ev noFilter l
  simpa [filterHead_noFilter] using h

/-! ## A2 — nothing is invented, nothing but tombstones disappears silently -/

/-- (A2, strong form) output ++ dropped ++ silently-removed is a permutation of the input; the silently removed
    entries are tombstones, and without eviction they are all weak tombstones (heads of a dropped
    `(weak, value)` pair — only the value of such a pair is reported to the dropped-callback). -/
theorem cstream_perm_noFilter_strong (wm : Nat) (ev : Bool) (l : List (Entry K)) :
    ∃ ev' : List (Entry K), (∀ e ∈ ev', e.isTomb = true) ∧ (ev = false → ∀ e ∈ ev', e.vt = .weak) ∧
      ((cstream wm ev noFilter l).1 ++ (cstream wm ev noFilter l).2 ++ ev').Perm l := by
  induction l using cstream.induct (wm := wm) (evict := ev) (f := (noFilter : Entry K → Verdict)) with
  | case1 => exact ⟨[], by simp, by simp, by simp [cstream_nil]⟩
  | case2 e es pre hf ih => simp [filterHead_noFilter] at hf
  | case3 e head pre hf hev =>
    rw [cstream_single _ _ _ _ _ _ hf, if_pos hev]
    simp [filterHead_noFilter] at hf
    obtain ⟨rfl, rfl⟩ := hf
    simp at hev
    exact ⟨[e], by simp [hev.1], by simp [hev.2], by simp⟩
  | case4 e head pre hf hev =>
    rw [cstream_single _ _ _ _ _ _ hf, if_neg hev]
    simp [filterHead_noFilter] at hf
    obtain ⟨rfl, rfl⟩ := hf
    exact ⟨[], by simp, by simp, by simp⟩
  | case5 e head pre hf p tl hlt hev ih =>
    rw [cstream_cons_cons _ _ _ _ _ _ _ _ hf, if_pos hlt, if_pos hev]
    simp [filterHead_noFilter] at hf
    obtain ⟨rfl, rfl⟩ := hf
    simp at hev
    obtain ⟨ev', h1, h2, h3⟩ := ih
    refine ⟨e :: ev', by simpa [hev.1] using h1, by simp [hev.2], ?_⟩
    rw [List.perm_iff_count] at h3 ⊢
    intro a; have := h3 a
    simp [List.count_append, List.count_cons] at this ⊢; omega
  | case6 e head pre hf p tl hlt hev ih =>
    rw [cstream_cons_cons _ _ _ _ _ _ _ _ hf, if_pos hlt, if_neg hev]
    simp [filterHead_noFilter] at hf
    obtain ⟨rfl, rfl⟩ := hf
    obtain ⟨ev', h1, h2, h3⟩ := ih
    refine ⟨ev', h1, h2, ?_⟩
    rw [List.perm_iff_count] at h3 ⊢
    intro a; have := h3 a
    simp [List.count_append, List.count_cons] at this ⊢; omega
  | case7 e head pre hf p tl hlt hwm htomb d ih =>
    rw [cstream_cons_cons _ _ _ _ _ _ _ _ hf, if_neg hlt, if_pos hwm, if_pos htomb]
    simp [filterHead_noFilter] at hf
    obtain ⟨rfl, rfl⟩ := hf
    obtain ⟨ev', h1, h2, h3⟩ := ih
    simp only [d] at h3
    refine ⟨e :: ev', by simpa [Entry.isTomb, htomb.1] using h1, by simp [htomb.2], ?_⟩
    rw [List.perm_iff_count] at h3 ⊢
    intro a; have := h3 a
    have hd := congrArg (List.count a) (drainKey_append (!ev) e.key (p :: tl))
    simp [List.count_append, List.count_cons] at this hd ⊢; omega
  | case8 e head pre hf p tl hlt hwm htomb hpair ih =>
    rw [cstream_cons_cons _ _ _ _ _ _ _ _ hf, if_neg hlt, if_pos hwm, if_neg htomb, if_pos hpair]
    simp [filterHead_noFilter] at hf
    obtain ⟨rfl, rfl⟩ := hf
    obtain ⟨ev', h1, h2, h3⟩ := ih
    refine ⟨e :: ev', by simpa [Entry.isTomb, hpair.2] using h1, by simpa [hpair.2] using h2, ?_⟩
    rw [List.perm_iff_count] at h3 ⊢
    intro a; have := h3 a
    simp [List.count_append, List.count_cons] at this ⊢; omega
  | case9 e head pre hf p tl hlt hwm htomb hpair d ih =>
    rw [cstream_cons_cons _ _ _ _ _ _ _ _ hf, if_neg hlt, if_pos hwm, if_neg htomb, if_neg hpair]
    simp [filterHead_noFilter] at hf
    obtain ⟨rfl, rfl⟩ := hf
    obtain ⟨ev', h1, h2, h3⟩ := ih
    simp only [d] at h3
    refine ⟨ev', h1, h2, ?_⟩
    rw [List.perm_iff_count] at h3 ⊢
    intro a; have := h3 a
    have hd := congrArg (List.count a) (drainKey_append (!ev) e.key (p :: tl))
    simp [List.count_append, List.count_cons] at this hd ⊢; omega
  | case10 e head pre hf p tl hlt hwm ih =>
    rw [cstream_cons_cons _ _ _ _ _ _ _ _ hf, if_neg hlt, if_neg hwm]
    simp [filterHead_noFilter] at hf
    obtain ⟨rfl, rfl⟩ := hf
    obtain ⟨ev', h1, h2, h3⟩ := ih
    refine ⟨ev', h1, h2, ?_⟩
    rw [List.perm_iff_count] at h3 ⊢
    intro a; have := h3 a
    simp [List.count_append, List.count_cons] at this ⊢; omega

/-- (A2) as requested: the silently removed entries `ev'` are tombstones, and there are none when tombstones
    are not evicted and the input has no weak tombstone. -/
theorem cstream_perm_noFilter (wm : Nat) (ev : Bool) (l : List (Entry K)) :
    ∃ ev' : List (Entry K), (∀ e ∈ ev', e.isTomb = true) ∧
      ((cstream wm ev noFilter l).1 ++ (cstream wm ev noFilter l).2 ++ ev').Perm l ∧
      (ev = false → (∀ e ∈ l, e.vt ≠ .weak) → ev' = []) := by
  obtain ⟨ev', h1, h2, h3⟩ := cstream_perm_noFilter_strong wm ev l
  refine ⟨ev', h1, h3, fun hev hw => ?_⟩
  cases ev' with
  | nil => rfl
  | cons a t =>
    have ha : a ∈ l := h3.subset (by simp)
    exact absurd (h2 hev a (by simp)) (hw a ha)

/-! ## A4 — the output is a source again -/

theorem ikLt_filtered (f : Entry K → Verdict) (a b : Entry K) :
    ikLt (filtered f a) (filtered f b) = ikLt a b := by
  simp [ikLt, filtered_key, filtered_seqno]

/-- (A4, with a filter) the filter never changes key or seqno, so the output is strictly `ikLt`-ascending:
    user keys weakly ascending and, per key, sequence numbers strictly descending. -/
theorem cstream_sorted_filter (wm : Nat) (ev : Bool) (f : Entry K → Verdict) (l : List (Entry K))
    (h : IsSource l) : IsSource (cstream wm ev f l).1 := by
  have hm : IsSource (l.map (filtered f)) := by
    unfold IsSource
    rw [List.pairwise_map]
    simp only [ikLt_filtered]; exact h
  exact List.Pairwise.sublist (cstream_sub_filter wm ev f l) hm

/-- (A4) -/
theorem cstream_sorted (wm : Nat) (ev : Bool) (l : List (Entry K)) (h : IsSource l) :
    IsSource (cstream wm ev noFilter l).1 :=
  cstream_sorted_filter wm ev noFilter l h

/-! ## A3 — the stream treats user keys independently -/

section LinearOrder
variable [LE K] [Std.IsLinearOrder K] [Std.LawfulOrderLT K]

omit [LE K] [Std.IsLinearOrder K] [Std.LawfulOrderLT K] in
theorem keyOf_drainKey_fst_ne {k k' : K} (s : Bool) (l : List (Entry K)) (hne : k' ≠ k) :
    keyOf k' (drainKey s k l).1 = [] :=
  keyOf_eq_nil (fun x hx => by have := drainKey_fst_key s k l x hx; grind)

omit [LE K] [Std.IsLinearOrder K] [Std.LawfulOrderLT K] in
theorem keyOf_drainKey_snd_ne {k k' : K} (s : Bool) (l : List (Entry K)) (hne : k' ≠ k) :
    keyOf k' (drainKey s k l).2 = keyOf k' l := by
  have h := congrArg (keyOf k') (drainKey_append s k l)
  rw [keyOf_append, keyOf_drainKey_fst_ne s l hne] at h
  simpa using h

/-- draining commutes with the projection on the drained key, when no smaller key follows -/
theorem drainKey_keyOf (s : Bool) (k : K) (l : List (Entry K)) (hs : KeysSorted l)
    (hge : ∀ x ∈ l, ¬ x.key < k) :
    drainKey s k (keyOf k l) = ((drainKey s k l).1, keyOf k (drainKey s k l).2) := by
  induction l with
  | nil => rfl
  | cons e es ih =>
    have hs' := KeysSorted.cons_iff.mp hs
    have ih' := ih hs'.2 (fun x hx => hge x (by simp [hx]))
    rw [keyOf_cons, drainKey_cons]
    by_cases hk : e.key = k
    · simp only [hk, if_true, true_and]
      rw [drainKey_cons, ih']
      by_cases hw : (s = true ∧ e.vt = .weak)
      · simp [hw, hk, keyOf_cons]
      · simp [hw, hk]
    · have : keyOf k es = [] := keyOf_eq_nil (fun x hx => by
        have h1 := hs'.1 x hx
        have h2 := hge e (by simp)
        grind)
      simp [hk, this, drainKey_nil, keyOf_cons]

omit [LE K] [Std.IsLinearOrder K] [Std.LawfulOrderLT K] in
theorem keyOf_pre {f : Entry K → Verdict} {e : Entry K} {o : Option (Entry K)} {pre : List (Entry K)}
    (h : filterHead f e = (o, pre)) (k : K) : keyOf k pre = if e.key = k then pre else [] := by
  have : pre = [] ∨ pre = [e] := by
    cases o with
    | none => exact Or.inr (filterHead_none h).1
    | some hd => exact (filterHead_some h).2.2.1
  rcases this with rfl | rfl <;> simp [keyOf_cons, keyOf_nil]

theorem cstream_key_indep (wm : Nat) (ev : Bool) (f : Entry K → Verdict) (k : K) (l : List (Entry K))
    (hs : KeysSorted l) :
    keyOf k (cstream wm ev f l).1 = (cstream wm ev f (keyOf k l)).1 ∧
    keyOf k (cstream wm ev f l).2 = (cstream wm ev f (keyOf k l)).2 := by
  induction l using cstream.induct (wm := wm) (evict := ev) (f := f) with
  | case1 => simp [keyOf_nil, cstream_nil]
  | case2 e es pre hf ih =>
    have ih := ih hs.tail
    have hp := keyOf_pre hf k
    rw [cstream_cons_none _ _ _ _ _ _ hf]
    by_cases hk : e.key = k
    · rw [keyOf_cons_pos hk, cstream_cons_none _ _ _ _ _ _ hf]; simp [keyOf_append, ih, hp, hk]
    · rw [keyOf_cons_neg hk]; simp [keyOf_append, ih, hp, hk]
  | case3 e head pre hf hev =>
    have hp := keyOf_pre hf k
    rw [cstream_single _ _ _ _ _ _ hf]
    by_cases hk : e.key = k
    · rw [keyOf_cons_pos hk, keyOf_nil, cstream_single _ _ _ _ _ _ hf]; simp [hev, hp, hk, keyOf_nil]
    · rw [keyOf_cons_neg hk, keyOf_nil, cstream_nil]; simp [hev, hp, hk, keyOf_nil]
  | case4 e head pre hf hev =>
    have hp := keyOf_pre hf k
    have hh := (filterHead_some hf).1
    rw [cstream_single _ _ _ _ _ _ hf]
    by_cases hk : e.key = k
    · rw [keyOf_cons_pos hk, keyOf_nil, cstream_single _ _ _ _ _ _ hf]
      simp [hev, hp, hk, keyOf_nil, keyOf_cons, hh]
    · rw [keyOf_cons_neg hk, keyOf_nil, cstream_nil]; simp [hev, hp, hk, keyOf_nil, keyOf_cons, hh]
  | case5 e head pre hf p tl hlt hev ih =>
    have ih := ih hs.tail
    have hp := keyOf_pre hf k
    have hh := (filterHead_some hf).1
    have hs' := KeysSorted.cons_iff.mp hs.tail
    rw [cstream_cons_cons _ _ _ _ _ _ _ _ hf, if_pos hlt, if_pos hev]
    by_cases hk : e.key = k
    · have hnil : keyOf k (p :: tl) = [] := keyOf_eq_nil (fun x hx => by
        rcases List.mem_cons.mp hx with rfl | hx
        · grind
        · have := hs'.1 x hx; grind)
      rw [hnil, cstream_nil] at ih
      rw [keyOf_cons_pos hk, hnil, cstream_single _ _ _ _ _ _ hf, if_pos hev]
      simp [keyOf_append, ih, hp, hk]
    · rw [keyOf_cons_neg hk]; simp [keyOf_append, ih, hp, hk]
  | case6 e head pre hf p tl hlt hev ih =>
    have ih := ih hs.tail
    have hp := keyOf_pre hf k
    have hh := (filterHead_some hf).1
    have hs' := KeysSorted.cons_iff.mp hs.tail
    rw [cstream_cons_cons _ _ _ _ _ _ _ _ hf, if_pos hlt, if_neg hev]
    by_cases hk : e.key = k
    · have hnil : keyOf k (p :: tl) = [] := keyOf_eq_nil (fun x hx => by
        rcases List.mem_cons.mp hx with rfl | hx
        · grind
        · have := hs'.1 x hx; grind)
      rw [hnil, cstream_nil] at ih
      rw [keyOf_cons_pos hk, hnil, cstream_single _ _ _ _ _ _ hf, if_neg hev]
      simp [keyOf_append, keyOf_cons, ih, hp, hk, hh]
    · rw [keyOf_cons_neg hk]; simp [keyOf_append, keyOf_cons, ih, hp, hk, hh]
  | case7 e head pre hf p tl hlt hwm htomb d ih =>
    have hp := keyOf_pre hf k
    have hh := (filterHead_some hf).1
    have hs1 := KeysSorted.cons_iff.mp hs
    have hs' := KeysSorted.cons_iff.mp hs.tail
    have hpk : p.key = head.key := by have := hs1.1 p (by simp); grind
    have ih := ih (List.Pairwise.sublist (drainKey_snd_sublist _ _ _) hs.tail)
    simp only [d] at ih
    rw [cstream_cons_cons _ _ _ _ _ _ _ _ hf, if_neg hlt, if_pos hwm, if_pos htomb]
    by_cases hk : e.key = k
    · have hd := drainKey_keyOf (!ev) k (p :: tl) hs.tail (fun x hx => by
        rcases List.mem_cons.mp hx with rfl | hx
        · grind
        · have := hs'.1 x hx; grind)
      have hhk : head.key = k := by grind
      rw [keyOf_cons_pos hk, keyOf_cons_pos (by grind : p.key = k), cstream_cons_cons _ _ _ _ _ _ _ _ hf,
        if_neg hlt, if_pos hwm, if_pos htomb, ← keyOf_cons_pos (by grind : p.key = k), hhk, hd]
      subst hhk
      simp [keyOf_append, ih, hp, hk, keyOf_eq_self (drainKey_fst_key _ _ _)]
    · have hne : k ≠ head.key := by grind
      rw [keyOf_cons_neg hk]
      simp [keyOf_append, ih, hp, hk, keyOf_drainKey_snd_ne _ _ hne, keyOf_drainKey_fst_ne _ _ hne]
  | case8 e head pre hf p tl hlt hwm htomb hpair ih =>
    have hp := keyOf_pre hf k
    have hh := (filterHead_some hf).1
    have hs1 := KeysSorted.cons_iff.mp hs
    have hpk : p.key = head.key := by have := hs1.1 p (by simp); grind
    have ih := ih hs.tail.tail
    rw [cstream_cons_cons _ _ _ _ _ _ _ _ hf, if_neg hlt, if_pos hwm, if_neg htomb, if_pos hpair]
    by_cases hk : e.key = k
    · rw [keyOf_cons_pos hk, keyOf_cons_pos (by grind : p.key = k), cstream_cons_cons _ _ _ _ _ _ _ _ hf,
        if_neg hlt, if_pos hwm, if_neg htomb, if_pos hpair]
      simp [keyOf_append, ih, hp, hk, keyOf_cons_pos (by grind : p.key = k)]
    · rw [keyOf_cons_neg hk, keyOf_cons_neg (by grind : ¬ p.key = k)]
      simp [keyOf_append, ih, hp, hk, keyOf_cons_neg (by grind : ¬ p.key = k)]
  | case9 e head pre hf p tl hlt hwm htomb hpair d ih =>
    have hp := keyOf_pre hf k
    have hh := (filterHead_some hf).1
    have hs1 := KeysSorted.cons_iff.mp hs
    have hs' := KeysSorted.cons_iff.mp hs.tail
    have hpk : p.key = head.key := by have := hs1.1 p (by simp); grind
    have ih := ih (List.Pairwise.sublist (drainKey_snd_sublist _ _ _) hs.tail)
    simp only [d] at ih
    rw [cstream_cons_cons _ _ _ _ _ _ _ _ hf, if_neg hlt, if_pos hwm, if_neg htomb, if_neg hpair]
    by_cases hk : e.key = k
    · have hd := drainKey_keyOf (!ev) k (p :: tl) hs.tail (fun x hx => by
        rcases List.mem_cons.mp hx with rfl | hx
        · grind
        · have := hs'.1 x hx; grind)
      have hhk : head.key = k := by grind
      rw [keyOf_cons_pos hk, keyOf_cons_pos (by grind : p.key = k), cstream_cons_cons _ _ _ _ _ _ _ _ hf,
        if_neg hlt, if_pos hwm, if_neg htomb, if_neg hpair, ← keyOf_cons_pos (by grind : p.key = k), hhk, hd]
      subst hhk
      simp [keyOf_append, ih, hp, hk, keyOf_eq_self (drainKey_fst_key _ _ _), keyOf_cons_pos rfl]
    · have hne : k ≠ head.key := by grind
      rw [keyOf_cons_neg hk]
      simp [keyOf_append, ih, hp, hk, keyOf_drainKey_snd_ne _ _ hne, keyOf_drainKey_fst_ne _ _ hne,
        keyOf_cons_neg (by grind : ¬ head.key = k)]
  | case10 e head pre hf p tl hlt hwm ih =>
    have hp := keyOf_pre hf k
    have hh := (filterHead_some hf).1
    have hs1 := KeysSorted.cons_iff.mp hs
    have hpk : p.key = head.key := by have := hs1.1 p (by simp); grind
    have ih := ih hs.tail
    rw [cstream_cons_cons _ _ _ _ _ _ _ _ hf, if_neg hlt, if_neg hwm]
    by_cases hk : e.key = k
    · have hhk : head.key = k := by grind
      rw [keyOf_cons_pos hk, keyOf_cons_pos (by grind : p.key = k), cstream_cons_cons _ _ _ _ _ _ _ _ hf,
        if_neg hlt, if_neg hwm, ← keyOf_cons_pos (by grind : p.key = k)]
      simp [keyOf_append, ih, hp, hk, keyOf_cons_pos hhk]
    · rw [keyOf_cons_neg hk]
      simp [keyOf_append, ih, hp, hk, keyOf_cons_neg (by grind : ¬ head.key = k)]

/-! ## B1, B2 — reads of one key without weak tombstones -/

theorem lt_irrefl_key (a : K) : ¬ a < a := by grind

omit [LE K] [Std.IsLinearOrder K] [Std.LawfulOrderLT K] in
theorem live_some (e : Entry K) : live (some e) = if e.isTomb then none else some e := rfl
omit [LE K] [Std.IsLinearOrder K] [Std.LawfulOrderLT K] in
theorem live_none : live (none : Option (Entry K)) = none := rfl

/-- (B1) Without weak tombstones, a reader above all sequence numbers sees the same thing in the output of
    the stream as in its input — for every watermark and with or without tombstone eviction. -/
theorem cstream_head_noweak (wm : Nat) (ev : Bool) (k : K) (l : List (Entry K))
    (hk : SingleKey k l) (hw : ∀ e ∈ l, e.vt ≠ .weak) :
    live ((cstream wm ev noFilter l).1.head?) = live l.head? := by
  match l with
  | [] => simp [cstream_nil]
  | [e] =>
    rw [cstream_single _ _ _ _ _ _ (filterHead_noFilter e)]
    by_cases h : (e.isTomb && ev) = true <;> simp [h, live_some, live_none]
    simp at h; simp [h.1]
  | e :: p :: tl =>
    have hek : e.key = k := hk e (by simp)
    have hpk : p.key = k := hk p (by simp)
    have hlt : ¬ e.key < p.key := by rw [hek, hpk]; exact lt_irrefl_key k
    have hew : e.vt ≠ .weak := hw e (by simp)
    rw [cstream_cons_cons _ _ _ _ _ _ _ _ (filterHead_noFilter e), if_neg hlt]
    split
    · split
      · rename_i h
        have hsk : SingleKey e.key (p :: tl) := fun x hx => by rw [hek]; exact hk x (by simp [hx])
        simp [h.2, drainKey_singleKey_false hsk, cstream_nil, live_some, live_none, Entry.isTomb, h.1]
      · simp [hew]
    · simp

/-- (B2) Without eviction and without weak tombstones the newest version itself survives, tombstone or not. -/
theorem cstream_nonempty_noevict (wm : Nat) (k : K) (l : List (Entry K))
    (hk : SingleKey k l) (hw : ∀ e ∈ l, e.vt ≠ .weak) (hne : l ≠ []) :
    (cstream wm false noFilter l).1.head? = l.head? := by
  match l with
  | [] => exact absurd rfl hne
  | [e] =>
    rw [cstream_single _ _ _ _ _ _ (filterHead_noFilter e)]; simp
  | e :: p :: tl =>
    have hek : e.key = k := hk e (by simp)
    have hpk : p.key = k := hk p (by simp)
    have hlt : ¬ e.key < p.key := by rw [hek, hpk]; exact lt_irrefl_key k
    have hew : e.vt ≠ .weak := hw e (by simp)
    rw [cstream_cons_cons _ _ _ _ _ _ _ _ (filterHead_noFilter e), if_neg hlt]
    split
    · simp [hew]
    · simp

/-! ## B3 — the weak-delete (single-delete) discipline -/

/-- the list is empty or starts with a weak tombstone -/
def WeakOrEmpty (l : List (Entry K)) : Prop := ∀ y, l.head? = some y → y.vt = .weak

omit [LE K] [Std.IsLinearOrder K] [Std.LawfulOrderLT K] in
theorem weakOrEmpty_nil : WeakOrEmpty ([] : List (Entry K)) := by simp [WeakOrEmpty]

omit [LE K] [Std.IsLinearOrder K] [Std.LawfulOrderLT K] in
theorem weakOrEmpty_cons (a : Entry K) (l : List (Entry K)) : WeakOrEmpty (a :: l) ↔ a.vt = .weak := by
  simp [WeakOrEmpty]

omit [LE K] [Std.IsLinearOrder K] [Std.LawfulOrderLT K] in
theorem weakSafe_cons (a : Entry K) (l : List (Entry K)) :
    WeakSafe (a :: l) ↔ a.vt ≠ .tomb ∧ (isValueLike a = true → WeakOrEmpty l) ∧ WeakSafe l := by
  cases l with
  | nil => simp [WeakSafe, weakOrEmpty_nil]
  | cons b t => simp [WeakSafe, weakOrEmpty_cons]

omit [LE K] [Std.IsLinearOrder K] [Std.LawfulOrderLT K] in
theorem weakSafe_nil : WeakSafe ([] : List (Entry K)) := trivial

omit [LE K] [Std.IsLinearOrder K] [Std.LawfulOrderLT K] in
theorem weakSafe_append_right (pre l : List (Entry K)) (h : WeakSafe (pre ++ l)) : WeakSafe l := by
  induction pre with
  | nil => exact h
  | cons a t ih => exact ih ((weakSafe_cons a _).mp h).2.2

omit [LE K] [Std.IsLinearOrder K] [Std.LawfulOrderLT K] in
/-- replacing a suffix by a weak-safe one that is "at least as weak-headed" keeps the whole list weak-safe -/
theorem weakSafe_replace_suffix (pre x y : List (Entry K)) (h : WeakSafe (pre ++ x)) (hy : WeakSafe y)
    (hxy : WeakOrEmpty x → WeakOrEmpty y) : WeakSafe (pre ++ y) := by
  induction pre with
  | nil => exact hy
  | cons a t ih =>
    have h' := (weakSafe_cons a _).mp h
    refine (weakSafe_cons a _).mpr ⟨h'.1, ?_, ih h'.2.2⟩
    intro hv
    have := h'.2.1 hv
    cases t with
    | nil => exact hxy this
    | cons b t' => simpa [weakOrEmpty_cons] using this

omit [LE K] [Std.IsLinearOrder K] [Std.LawfulOrderLT K] in
theorem weakSafe_no_tomb (l : List (Entry K)) (h : WeakSafe l) : ∀ e ∈ l, e.vt ≠ .tomb := by
  induction l with
  | nil => simp
  | cons a t ih =>
    have h' := (weakSafe_cons a _).mp h
    intro e he
    rcases List.mem_cons.mp he with rfl | he
    · exact h'.1
    · exact ih h'.2.2 e he

omit [LE K] [Std.IsLinearOrder K] [Std.LawfulOrderLT K] in
theorem drainKey_weakOrEmpty (k : K) (l post : List (Entry K)) (h : WeakOrEmpty (l ++ post)) :
    drainKey true k l = ([], l) := by
  cases l with
  | nil => rfl
  | cons a t =>
    have : a.vt = .weak := by simpa [WeakOrEmpty] using h
    simp [drainKey_cons, this]

omit [LE K] [Std.IsLinearOrder K] [Std.LawfulOrderLT K] in
theorem not_tomb_not_weak_valueLike (e : Entry K) (h1 : e.vt ≠ .tomb) (h2 : e.vt ≠ .weak) :
    isValueLike e = true := by
  unfold isValueLike; cases h : e.vt <;> simp_all

omit [LE K] [Std.IsLinearOrder K] [Std.LawfulOrderLT K] in
theorem live_head_weakOrEmpty (l : List (Entry K)) (h : WeakOrEmpty l) : live l.head? = none := by
  cases l with
  | nil => rfl
  | cons a t =>
    have : a.vt = .weak := by simpa [WeakOrEmpty] using h
    simp [live_some, Entry.isTomb, this]

theorem cstream_weakSafe_core_noevict (wm : Nat) (k : K) (mid post : List (Entry K))
    (hk : SingleKey k mid) (hws : WeakSafe (mid ++ post)) :
    WeakSafe ((cstream wm false noFilter mid).1 ++ post) ∧
    (WeakOrEmpty (mid ++ post) → WeakOrEmpty ((cstream wm false noFilter mid).1 ++ post)) ∧
    live (((cstream wm false noFilter mid).1 ++ post).head?) = live ((mid ++ post).head?) := by
  induction mid using cstream.induct (wm := wm) (evict := false) (f := (noFilter : Entry K → Verdict)) with
  | case1 => simpa [cstream_nil] using hws
  | case2 e es pre hf ih => simp [filterHead_noFilter] at hf
  | case3 e head pre hf hev => simp at hev
  | case4 e head pre hf hev =>
    rw [cstream_single _ _ _ _ _ _ hf, if_neg hev]
    simp [filterHead_noFilter] at hf
    obtain ⟨rfl, rfl⟩ := hf
    exact ⟨hws, id, rfl⟩
  | case5 e head pre hf p tl hlt hev ih => simp at hev
  | case6 e head pre hf p tl hlt hev ih =>
    simp [filterHead_noFilter] at hf
    obtain ⟨rfl, rfl⟩ := hf
    have := hk e (by simp); have := hk p (by simp); have := lt_irrefl_key k; grind
  | case7 e head pre hf p tl hlt hwm htomb d ih => simp at htomb
  | case8 e head pre hf p tl hlt hwm htomb hpair ih =>
    rw [cstream_cons_cons _ _ _ _ _ _ _ _ hf, if_neg hlt, if_pos hwm, if_neg htomb, if_pos hpair]
    simp [filterHead_noFilter] at hf
    obtain ⟨rfl, rfl⟩ := hf
    simp only [List.cons_append, weakSafe_cons] at hws
    have hv : isValueLike p = true := by simp [isValueLike, hpair.1]
    have ih := ih (fun x hx => hk x (by simp [hx])) hws.2.2.2.2
    have hwe := ih.2.1 (hws.2.2.2.1 hv)
    refine ⟨ih.1, fun _ => hwe, ?_⟩
    rw [live_head_weakOrEmpty _ hwe]; simp [live_some, Entry.isTomb, hpair.2]
  | case9 e head pre hf p tl hlt hwm htomb hpair d ih =>
    rw [cstream_cons_cons _ _ _ _ _ _ _ _ hf, if_neg hlt, if_pos hwm, if_neg htomb, if_neg hpair]
    simp [filterHead_noFilter] at hf
    obtain ⟨rfl, rfl⟩ := hf
    simp only [d] at ih
    have hsk : SingleKey k (p :: tl) := fun x hx => hk x (by simp [hx])
    have hws' := (weakSafe_cons _ _).mp hws
    have hws2 := (weakSafe_cons _ _).mp hws'.2.2
    by_cases hpw : p.vt = .weak
    · -- nothing is drained
      have hd : drainKey (!false) e.key (p :: tl) = ([], p :: tl) := by simp [drainKey_cons, hpw]
      rw [hd] at ih ⊢
      have ih := ih hsk hws'.2.2
      refine ⟨?_, ?_, rfl⟩
      · exact (weakSafe_cons _ _).mpr ⟨hws'.1, fun hv => ih.2.1 (hws'.2.1 hv), ih.1⟩
      · simp [weakOrEmpty_cons]
    · -- `p` is value-like: it alone is drained, then a weak tombstone or the end of `mid` follows
      have hv : isValueLike p = true := not_tomb_not_weak_valueLike p hws2.1 hpw
      have hwe := hws2.2.1 hv
      have hd : drainKey (!false) e.key (p :: tl) = ([p], tl) := by
        have := drainKey_weakOrEmpty k tl post hwe
        have h1 := hk e (by simp); have h2 := hk p (by simp)
        simp [drainKey_cons, hpw, this, h1, h2]
      rw [hd] at ih ⊢
      have ih := ih (fun x hx => hk x (by simp [hx])) hws2.2.2
      refine ⟨?_, ?_, rfl⟩
      · refine (weakSafe_cons _ _).mpr ⟨hws'.1, fun hv' => ih.2.1 hwe, ih.1⟩
      · simp [weakOrEmpty_cons]
  | case10 e head pre hf p tl hlt hwm ih =>
    rw [cstream_cons_cons _ _ _ _ _ _ _ _ hf, if_neg hlt, if_neg hwm]
    simp [filterHead_noFilter] at hf
    obtain ⟨rfl, rfl⟩ := hf
    have hws' := (weakSafe_cons _ _).mp hws
    have ih := ih (fun x hx => hk x (by simp [hx])) hws'.2.2
    refine ⟨?_, ?_, rfl⟩
    · exact (weakSafe_cons _ _).mpr ⟨hws'.1, fun hv => ih.2.1 (hws'.2.1 hv), ih.1⟩
    · simp [weakOrEmpty_cons]

theorem cstream_weakSafe_core_evict (wm : Nat) (k : K) (mid : List (Entry K))
    (hk : SingleKey k mid) (hws : WeakSafe mid) :
    WeakSafe (cstream wm true noFilter mid).1 ∧
    (WeakOrEmpty mid → WeakOrEmpty (cstream wm true noFilter mid).1) ∧
    live ((cstream wm true noFilter mid).1.head?) = live (mid.head?) := by
  induction mid using cstream.induct (wm := wm) (evict := true) (f := (noFilter : Entry K → Verdict)) with
  | case1 => simpa [cstream_nil] using hws
  | case2 e es pre hf ih => simp [filterHead_noFilter] at hf
  | case3 e head pre hf hev =>
    rw [cstream_single _ _ _ _ _ _ hf, if_pos hev]
    simp [filterHead_noFilter] at hf
    obtain ⟨rfl, rfl⟩ := hf
    simp at hev
    simp [weakSafe_nil, weakOrEmpty_nil, live_some, live_none, hev]
  | case4 e head pre hf hev =>
    rw [cstream_single _ _ _ _ _ _ hf, if_neg hev]
    simp [filterHead_noFilter] at hf
    obtain ⟨rfl, rfl⟩ := hf
    exact ⟨hws, id, rfl⟩
  | case5 e head pre hf p tl hlt hev ih =>
    simp [filterHead_noFilter] at hf
    obtain ⟨rfl, rfl⟩ := hf
    have := hk e (by simp); have := hk p (by simp); have := lt_irrefl_key k; grind
  | case6 e head pre hf p tl hlt hev ih =>
    simp [filterHead_noFilter] at hf
    obtain ⟨rfl, rfl⟩ := hf
    have := hk e (by simp); have := hk p (by simp); have := lt_irrefl_key k; grind
  | case7 e head pre hf p tl hlt hwm htomb d ih =>
    simp [filterHead_noFilter] at hf
    obtain ⟨rfl, rfl⟩ := hf
    exact absurd htomb.1 ((weakSafe_cons _ _).mp hws).1
  | case8 e head pre hf p tl hlt hwm htomb hpair ih =>
    rw [cstream_cons_cons _ _ _ _ _ _ _ _ hf, if_neg hlt, if_pos hwm, if_neg htomb, if_pos hpair]
    simp [filterHead_noFilter] at hf
    obtain ⟨rfl, rfl⟩ := hf
    simp only [weakSafe_cons] at hws
    have hv : isValueLike p = true := by simp [isValueLike, hpair.1]
    have ih := ih (fun x hx => hk x (by simp [hx])) hws.2.2.2.2
    have hwe := ih.2.1 (hws.2.2.2.1 hv)
    refine ⟨ih.1, fun _ => hwe, ?_⟩
    rw [live_head_weakOrEmpty _ hwe]; simp [live_some, Entry.isTomb, hpair.2]
  | case9 e head pre hf p tl hlt hwm htomb hpair d ih =>
    rw [cstream_cons_cons _ _ _ _ _ _ _ _ hf, if_neg hlt, if_pos hwm, if_neg htomb, if_neg hpair]
    simp [filterHead_noFilter] at hf
    obtain ⟨rfl, rfl⟩ := hf
    have hsk : SingleKey e.key (p :: tl) := fun x hx => by rw [hk e (by simp)]; exact hk x (by simp [hx])
    have hd : drainKey (!true) e.key (p :: tl) = (p :: tl, []) := drainKey_singleKey_false hsk
    rw [hd, cstream_nil]
    have hws' := (weakSafe_cons _ _).mp hws
    refine ⟨?_, ?_, rfl⟩
    · exact (weakSafe_cons _ _).mpr ⟨hws'.1, fun _ => weakOrEmpty_nil, weakSafe_nil⟩
    · simp [weakOrEmpty_cons]
  | case10 e head pre hf p tl hlt hwm ih =>
    rw [cstream_cons_cons _ _ _ _ _ _ _ _ hf, if_neg hlt, if_neg hwm]
    simp [filterHead_noFilter] at hf
    obtain ⟨rfl, rfl⟩ := hf
    have hws' := (weakSafe_cons _ _).mp hws
    have ih := ih (fun x hx => hk x (by simp [hx])) hws'.2.2
    refine ⟨?_, ?_, rfl⟩
    · exact (weakSafe_cons _ _).mpr ⟨hws'.1, fun hv => ih.2.1 (hws'.2.1 hv), ih.1⟩
    · simp [weakOrEmpty_cons]

omit [LE K] [Std.IsLinearOrder K] [Std.LawfulOrderLT K] in
theorem live_head_append_congr (pre x y : List (Entry K)) (h : live x.head? = live y.head?) :
    live (pre ++ x).head? = live (pre ++ y).head? := by
  cases pre with
  | nil => simpa using h
  | cons a t => rfl

/-- (B3-i) **Weak-delete discipline, no eviction.**  `pre ++ mid ++ post` is the complete version list of one key
    (newest first) spread over the tree; `mid` is the part that takes part in a flush/compaction.

    Under `WeakSafe` (no strong tombstone; every `value`/`indir` entry is directly followed by a weak tombstone
    or by nothing), `cstream wm false noFilter` removes from `mid` exactly:
      1. every adjacent pair `(w, v)` inside `mid` with `w` a weak tombstone, `v.vt = .value` and `v.seqno < wm`
         — both entries vanish (only `v` is reported to the dropped-callback); by the discipline the next older
         entry is a weak tombstone or nothing, so nothing is uncovered;
      2. every `.indir` entry `i` with `i.seqno < wm` directly preceded inside `mid` by a weak tombstone `w`
         — `i` is drained (and reported), `w` is kept; draining stops in front of the next weak tombstone,
         which by the discipline follows `i` immediately (or `i` is the last entry).
    Every other entry is kept, in order: every weak tombstone that is not the head of a pair of kind 1, every
    `value`/`indir` entry not removed by 1–2 (in particular every entry with `seqno ≥ wm`, and the first entry
    of `mid` unless it is the `w` of a pair of kind 1).  No weak tombstone is ever drained (the F5 repair:
    `drainKey` stops in front of it).  Consequently the result is again `WeakSafe` and a reader above all
    sequence numbers sees the same thing.  Only `mid` needs to be single-key. -/
theorem cstream_weakSafe_noevict (wm : Nat) (k : K) (pre mid post : List (Entry K))
    (hmid : SingleKey k mid) (hws : WeakSafe (pre ++ mid ++ post)) :
    WeakSafe (pre ++ (cstream wm false noFilter mid).1 ++ post) ∧
    live ((pre ++ (cstream wm false noFilter mid).1 ++ post).head?) = live ((pre ++ mid ++ post).head?) := by
  rw [List.append_assoc] at hws ⊢
  rw [List.append_assoc]
  have core := cstream_weakSafe_core_noevict wm k mid post hmid (weakSafe_append_right _ _ hws)
  exact ⟨weakSafe_replace_suffix _ _ _ hws core.1 core.2.1, live_head_append_congr _ _ _ core.2.2⟩

/-- (B3-ii) **Weak-delete discipline, eviction (last level, `post = []`).**  In addition to 1. of
    `cstream_weakSafe_noevict`, with `evict = true` the stream
      3. drops a weak tombstone that is the last entry of `mid` (nothing older exists since `post = []`);
      4. after an emitted head whose successor has `seqno < wm`, drains ALL older entries of the key (weak
         tombstones included) — they are all invisible below the watermark and nothing older exists.
    The result is `WeakSafe` and reads above all sequence numbers are unchanged. -/
theorem cstream_weakSafe_evict (wm : Nat) (k : K) (pre mid : List (Entry K))
    (hmid : SingleKey k mid) (hws : WeakSafe (pre ++ mid)) :
    WeakSafe (pre ++ (cstream wm true noFilter mid).1) ∧
    live ((pre ++ (cstream wm true noFilter mid).1).head?) = live ((pre ++ mid).head?) := by
  have core := cstream_weakSafe_core_evict wm k mid hmid (weakSafe_append_right _ _ hws)
  exact ⟨weakSafe_replace_suffix _ _ _ hws core.1 core.2.1, live_head_append_congr _ _ _ core.2.2⟩

/-! ## C — the stream filter (one key) -/

/-- a surviving non-tombstone head is always emitted (any watermark, with or without eviction) -/
theorem cstream_head_of_nontomb (wm : Nat) (ev : Bool) (f : Entry K → Verdict) (k : K) (e head : Entry K)
    (rest pre : List (Entry K)) (hk : SingleKey k (e :: rest))
    (hf : filterHead f e = (some head, pre)) (hnt : head.isTomb = false) :
    (cstream wm ev f (e :: rest)).1.head? = some head := by
  have hvt : head.vt ≠ .tomb ∧ head.vt ≠ .weak := by
    simp [Entry.isTomb] at hnt; exact hnt
  cases rest with
  | nil => rw [cstream_single _ _ _ _ _ _ hf]; simp [hnt]
  | cons p tl =>
    have hlt : ¬ head.key < p.key := by
      rw [(filterHead_some hf).1, hk e (by simp), hk p (by simp)]; exact lt_irrefl_key k
    rw [cstream_cons_cons _ _ _ _ _ _ _ _ hf, if_neg hlt]
    split
    · simp [hvt.1, hvt.2]
    · simp

omit [LE K] [Std.IsLinearOrder K] [Std.LawfulOrderLT K] in
theorem filterHead_keep {f : Entry K → Verdict} {e : Entry K} (hnt : e.isTomb = false) (h : f e = .keep) :
    filterHead f e = (some e, []) := by simp [filterHead, hnt, h]

omit [LE K] [Std.IsLinearOrder K] [Std.LawfulOrderLT K] in
theorem filterHead_replace {f : Entry K → Verdict} {e : Entry K} {vt : VT} {v : Val}
    (hnt : e.isTomb = false) (h : f e = .replace vt v) :
    filterHead f e = (some { e with vt := vt, val := v }, [e]) := by simp [filterHead, hnt, h]

omit [LE K] [Std.IsLinearOrder K] [Std.LawfulOrderLT K] in
theorem filterHead_drop {f : Entry K → Verdict} {e : Entry K} (hnt : e.isTomb = false) (h : f e = .drop) :
    filterHead f e = (none, [e]) := by simp [filterHead, hnt, h]

/-- (C1) a kept non-tombstone head is the head of the output.  Stronger than requested: holds for every `ev`
    and needs no assumption on weak tombstones in the rest of the list. -/
theorem cstream_filter_keep (wm : Nat) (ev : Bool) (f : Entry K → Verdict) (k : K) (e : Entry K)
    (rest : List (Entry K)) (hk : SingleKey k (e :: rest)) (hnt : e.isTomb = false) (hfe : f e = .keep) :
    (cstream wm ev f (e :: rest)).1.head? = some e :=
  cstream_head_of_nontomb wm ev f k e e rest [] hk (filterHead_keep hnt hfe) hnt

/-- (C1) literally as requested -/
theorem cstream_filter_keep_noevict (wm : Nat) (f : Entry K → Verdict) (k : K) (e : Entry K)
    (rest : List (Entry K)) (hk : SingleKey k (e :: rest)) (hnt : e.isTomb = false) (hfe : f e = .keep)
    (_hw : ∀ x ∈ e :: rest, x.vt ≠ .weak) :
    (cstream wm false f (e :: rest)).1.head? = some e :=
  cstream_filter_keep wm false f k e rest hk hnt hfe

/-- (C2) a head replaced by a value is the head of the output, with the same key and seqno (every `ev`). -/
theorem cstream_filter_replace_value (wm : Nat) (ev : Bool) (f : Entry K → Verdict) (k : K) (e : Entry K)
    (rest : List (Entry K)) (v : Val) (hk : SingleKey k (e :: rest)) (hnt : e.isTomb = false)
    (hfe : f e = .replace .value v) :
    (cstream wm ev f (e :: rest)).1.head? = some { e with vt := .value, val := v } :=
  cstream_head_of_nontomb wm ev f k e _ rest [e] hk (filterHead_replace hnt hfe) (by simp [Entry.isTomb])

/-- (C3) a head replaced by a strong tombstone deletes the key for a reader above all seqnos (every `ev`). -/
theorem cstream_filter_replace_tomb (wm : Nat) (ev : Bool) (f : Entry K → Verdict) (k : K) (e : Entry K)
    (rest : List (Entry K)) (v : Val) (hk : SingleKey k (e :: rest)) (hnt : e.isTomb = false)
    (hfe : f e = .replace .tomb v) :
    live ((cstream wm ev f (e :: rest)).1.head?) = none := by
  have hf := filterHead_replace hnt hfe
  cases rest with
  | nil =>
    rw [cstream_single _ _ _ _ _ _ hf]
    cases ev <;> simp [live_some, live_none, Entry.isTomb]
  | cons p tl =>
    have hlt : ¬ e.key < p.key := by
      rw [hk e (by simp), hk p (by simp)]; exact lt_irrefl_key k
    rw [cstream_cons_cons _ _ _ _ _ _ _ _ hf, if_neg hlt]
    split
    · split
      · rename_i h
        have hsk : SingleKey e.key (p :: tl) := fun x hx => by
          rw [hk e (by simp)]; exact hk x (by simp [hx])
        simp [h.2, drainKey_singleKey_false hsk, cstream_nil, live_none]
      · simp [live_some, Entry.isTomb]
    · simp [live_some, Entry.isTomb]

omit [LE K] [Std.IsLinearOrder K] [Std.LawfulOrderLT K] in
/-- (C4) a dropped only version: nothing is written, the entry is reported. -/
theorem cstream_filter_drop_single (wm : Nat) (ev : Bool) (f : Entry K → Verdict) (e : Entry K)
    (hnt : e.isTomb = false) (hfe : f e = .drop) :
    cstream wm ev f [e] = ([], [e]) := by
  rw [cstream_cons_none _ _ _ _ _ _ (filterHead_drop hnt hfe), cstream_nil]; rfl

omit [LE K] [Std.IsLinearOrder K] [Std.LawfulOrderLT K] in
theorem filterHead_congr {f g : Entry K → Verdict} {e : Entry K} (h : e.isTomb = false → f e = g e) :
    filterHead f e = filterHead g e := by
  unfold filterHead
  by_cases ht : e.isTomb = true
  · simp [ht]
  · simp at ht; simp [ht, h ht]

omit [LE K] [Std.IsLinearOrder K] [Std.LawfulOrderLT K] in
omit [LE K] [Std.IsLinearOrder K] [Std.LawfulOrderLT K] in
/-- (C5) **The filter never sees a tombstone**: two filters that agree on the non-tombstone entries of the
    input are indistinguishable (output and dropped-callback calls). -/
theorem filter_never_sees_tombstone (wm : Nat) (ev : Bool) (f g : Entry K → Verdict) (l : List (Entry K))
    (hfg : ∀ e ∈ l, e.isTomb = false → f e = g e) :
    cstream wm ev f l = cstream wm ev g l := by
  induction l using cstream.induct (wm := wm) (evict := ev) (f := f) with
  | case1 => simp [cstream_nil]
  | case2 e es pre hf ih =>
    have hg : filterHead g e = (none, pre) := by rw [← filterHead_congr (hfg e (by simp))]; exact hf
    rw [cstream_cons_none _ _ _ _ _ _ hf, cstream_cons_none _ _ _ _ _ _ hg, ih (fun x hx => hfg x (by simp [hx]))]
  | case3 e head pre hf hev =>
    have hg : filterHead g e = (some head, pre) := by rw [← filterHead_congr (hfg e (by simp))]; exact hf
    rw [cstream_single _ _ _ _ _ _ hf, cstream_single _ _ _ _ _ _ hg]
  | case4 e head pre hf hev =>
    have hg : filterHead g e = (some head, pre) := by rw [← filterHead_congr (hfg e (by simp))]; exact hf
    rw [cstream_single _ _ _ _ _ _ hf, cstream_single _ _ _ _ _ _ hg]
  | case5 e head pre hf p tl hlt hev ih =>
    have hg : filterHead g e = (some head, pre) := by rw [← filterHead_congr (hfg e (by simp))]; exact hf
    rw [cstream_cons_cons _ _ _ _ _ _ _ _ hf, cstream_cons_cons _ _ _ _ _ _ _ _ hg, if_pos hlt, if_pos hlt,
      ih (fun x hx => hfg x (List.mem_cons_of_mem _ hx))]
  | case6 e head pre hf p tl hlt hev ih =>
    have hg : filterHead g e = (some head, pre) := by rw [← filterHead_congr (hfg e (by simp))]; exact hf
    rw [cstream_cons_cons _ _ _ _ _ _ _ _ hf, cstream_cons_cons _ _ _ _ _ _ _ _ hg, if_pos hlt, if_pos hlt,
      ih (fun x hx => hfg x (List.mem_cons_of_mem _ hx))]
  | case7 e head pre hf p tl hlt hwm htomb d ih =>
    have hg : filterHead g e = (some head, pre) := by rw [← filterHead_congr (hfg e (by simp))]; exact hf
    have ih := ih (fun x hx => hfg x (List.mem_cons_of_mem _ ((drainKey_snd_sublist _ _ _).subset hx)))
    simp only [d] at ih
    rw [cstream_cons_cons _ _ _ _ _ _ _ _ hf, cstream_cons_cons _ _ _ _ _ _ _ _ hg, if_neg hlt, if_neg hlt,
      if_pos hwm, if_pos hwm, if_pos htomb, if_pos htomb, ih]
  | case8 e head pre hf p tl hlt hwm htomb hpair ih =>
    have hg : filterHead g e = (some head, pre) := by rw [← filterHead_congr (hfg e (by simp))]; exact hf
    have ih := ih (fun x hx => hfg x (by simp [hx]))
    rw [cstream_cons_cons _ _ _ _ _ _ _ _ hf, cstream_cons_cons _ _ _ _ _ _ _ _ hg, if_neg hlt, if_neg hlt,
      if_pos hwm, if_pos hwm, if_neg htomb, if_neg htomb, if_pos hpair, if_pos hpair, ih]
  | case9 e head pre hf p tl hlt hwm htomb hpair d ih =>
    have hg : filterHead g e = (some head, pre) := by rw [← filterHead_congr (hfg e (by simp))]; exact hf
    have ih := ih (fun x hx => hfg x (List.mem_cons_of_mem _ ((drainKey_snd_sublist _ _ _).subset hx)))
    simp only [d] at ih
    rw [cstream_cons_cons _ _ _ _ _ _ _ _ hf, cstream_cons_cons _ _ _ _ _ _ _ _ hg, if_neg hlt, if_neg hlt,
      if_pos hwm, if_pos hwm, if_neg htomb, if_neg htomb, if_neg hpair, if_neg hpair, ih]
  | case10 e head pre hf p tl hlt hwm ih =>
    have hg : filterHead g e = (some head, pre) := by rw [← filterHead_congr (hfg e (by simp))]; exact hf
    rw [cstream_cons_cons _ _ _ _ _ _ _ _ hf, cstream_cons_cons _ _ _ _ _ _ _ _ hg, if_neg hlt, if_neg hlt,
      if_neg hwm, if_neg hwm, ih (fun x hx => hfg x (List.mem_cons_of_mem _ hx))]

/-! ## B4 — B1 lifted to multi-key sources through A3 -/

theorem ikLt_keys {a b : Entry K} (h : ikLt a b = true) : ¬ b.key < a.key := by
  simp [ikLt] at h
  rcases h with h | h
  · grind
  · rw [h.1]; exact lt_irrefl_key _

theorem IsSource.keysSorted {l : List (Entry K)} (h : IsSource l) : KeysSorted l :=
  List.Pairwise.imp ikLt_keys h

/-- (B4) on a whole source without weak tombstones, every key reads the same above all sequence numbers
    before and after the stream (both `ev`, every watermark). -/
theorem cstream_read_noweak (wm : Nat) (ev : Bool) (l : List (Entry K)) (hs : IsSource l)
    (hw : ∀ e ∈ l, e.vt ≠ .weak) (k : K) :
    live ((keyOf k (cstream wm ev noFilter l).1).head?) = live ((keyOf k l).head?) := by
  rw [(cstream_key_indep wm ev noFilter k l hs.keysSorted).1]
  exact cstream_head_noweak wm ev k (keyOf k l) (singleKey_keyOf k l)
    (fun e he => hw e (by simp [keyOf] at he; exact he.1))

end LinearOrder

/-! ## Necessity of the hypotheses (concrete witnesses, `K := Nat`)

  `cstream` is defined by well-founded recursion, so the witnesses are evaluated with `simp` and the
  equation lemmas rather than by `decide`. -/

section Witnesses

/-- (B3-ii) literally with an explicit `post = []` -/
theorem cstream_weakSafe_evict' [LE K] [Std.IsLinearOrder K] [Std.LawfulOrderLT K]
    (wm : Nat) (k : K) (pre mid post : List (Entry K)) (hpost : post = [])
    (hmid : SingleKey k mid) (hws : WeakSafe (pre ++ mid ++ post)) :
    WeakSafe (pre ++ (cstream wm true noFilter mid).1 ++ post) ∧
    live ((pre ++ (cstream wm true noFilter mid).1 ++ post).head?) = live ((pre ++ mid ++ post).head?) := by
  subst hpost
  simp only [List.append_nil] at hws ⊢
  exact cstream_weakSafe_evict wm k pre mid hmid hws

/-- A3 needs `KeysSorted`: with key `1` split around key `2`, the two halves are processed separately. -/
example :
    let l : List (Entry Nat) := [⟨1, 9, .tomb, []⟩, ⟨2, 8, .value, [2]⟩, ⟨1, 3, .value, [3]⟩]
    keyOf 1 (cstream 10 false noFilter l).1 ≠ (cstream 10 false noFilter (keyOf 1 l)).1 := by
  simp [cstream, filterHead, drainKey, Entry.isTomb, keyOf, noFilter]

/-- B1/B2 need "no weak tombstone" (or the discipline of B3): a weak tombstone deletes only ONE older value,
    so dropping the pair `(weak@9, value@5)` uncovers `value@3`. (The input violates `WeakSafe`.) -/
example :
    let l : List (Entry Nat) := [⟨1, 9, .weak, []⟩, ⟨1, 5, .value, [5]⟩, ⟨1, 3, .value, [3]⟩]
    live ((cstream 10 false noFilter l).1.head?) ≠ live l.head? := by
  simp [cstream, filterHead, Entry.isTomb, live, noFilter]

example : ¬ WeakSafe ([⟨1, 9, .weak, []⟩, ⟨1, 5, .value, [5]⟩, ⟨1, 3, .value, [3]⟩] : List (Entry Nat)) := by
  simp [WeakSafe, isValueLike]

/-- B2 needs `ev = false`: with eviction a lone tombstone disappears. -/
example : (cstream 10 true noFilter [(⟨1, 9, .tomb, []⟩ : Entry Nat)]).1.head? ≠
    ([(⟨1, 9, .tomb, []⟩ : Entry Nat)]).head? := by
  simp [cstream, filterHead, Entry.isTomb]

/-- B3-ii needs `post = []`: evicting the weak tombstone @5 uncovers an older value in `post`. -/
example :
    let mid : List (Entry Nat) := [⟨1, 5, .weak, []⟩]
    let post : List (Entry Nat) := [⟨1, 1, .value, [1]⟩]
    WeakSafe ([] ++ mid ++ post) ∧
    live (([] ++ (cstream 10 true noFilter mid).1 ++ post).head?) ≠ live (([] ++ mid ++ post).head?) := by
  simp [cstream, filterHead, Entry.isTomb, live, WeakSafe, isValueLike]

/-- A2: with `ev = false` the weak head of a dropped `(weak, value)` pair is in neither output nor dropped. -/
example :
    cstream 10 false noFilter ([⟨1, 9, .weak, []⟩, ⟨1, 5, .value, [5]⟩] : List (Entry Nat))
      = ([], [⟨1, 5, .value, [5]⟩]) := by
  simp [cstream, filterHead, Entry.isTomb]

end Witnesses

end Lsm

#print axioms Lsm.cstream_sub
#print axioms Lsm.cstream_sub_filter
#print axioms Lsm.cstream_perm_noFilter
#print axioms Lsm.cstream_key_indep
#print axioms Lsm.cstream_sorted
#print axioms Lsm.cstream_sorted_filter
#print axioms Lsm.cstream_head_noweak
#print axioms Lsm.cstream_nonempty_noevict
#print axioms Lsm.cstream_weakSafe_noevict
#print axioms Lsm.cstream_weakSafe_evict
#print axioms Lsm.cstream_read_noweak
#print axioms Lsm.cstream_filter_keep
#print axioms Lsm.cstream_filter_replace_value
#print axioms Lsm.cstream_filter_replace_tomb
#print axioms Lsm.cstream_filter_drop_single
#print axioms Lsm.filter_never_sees_tombstone
