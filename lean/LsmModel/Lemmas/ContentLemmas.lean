import LsmModel.Tree.Ops
import LsmModel.Lemmas.VersionLemmas
import LsmModel.Lemmas.CStreamLemmas
/-
  LsmModel.Lemmas.ContentLemmas — helper layer for C01 (point reads refine an ordered map):
    part 1: `cutTables` (the multi-writer's output tables) and the entries of a run as a source;
    part 2: what `admissible` buys — per key, the read order of the tables is
            non-inputs above `dest`, then the inputs, then non-inputs from `dest` on.
  The per-key history `keyHist`, the invariant `Good` and the step lemmas are in `ContentLemmas2`.
-/

/-! # Part 1: cut tables -/

namespace Lsm
set_option linter.unusedSectionVars false
set_option linter.unusedVariables false
variable {K : Type} [LT K] [DecidableLT K] [DecidableEq K] [LE K] [Std.IsLinearOrder K] [Std.LawfulOrderLT K]

theorem cut_nil {l : List (Entry K)} {g : Nat} {ts : List (TableM K)}
    (h : cutTables [] l g = some ts) : l = [] ∧ ts = [] := by
  cases l with
  | nil => simp [cutTables] at h; exact ⟨rfl, h⟩
  | cons a t => simp [cutTables] at h

theorem cut_cons {id n : Nat} {rest : List (Nat × Nat)} {l : List (Entry K)} {g : Nat} {ts : List (TableM K)}
    (h : cutTables ((id, n) :: rest) l g = some ts) :
    ∃ f la ts', n ≠ 0 ∧ (l.take n).head? = some f ∧ (l.take n).getLast? = some la ∧
      cutTables rest (l.drop n) g = some ts' ∧
      ts = { id := id, lo := f.key, hi := la.key, entries := l.take n, gseq := g } :: ts' := by
  simp only [cutTables] at h
  split at h
  · cases h
  · split at h
    · split at h
      · split at h
        · cases h
          rename_i hn _ _ f la hf hla hlen _ ts' hts'
          exact ⟨f, la, ts', hn, hf, hla, hts', rfl⟩
        · cases h
      · cases h
    · cases h

/-- the cut tables' contents concatenate to the stream -/
theorem cutTables_entries {cuts : List (Nat × Nat)} {l : List (Entry K)} {g : Nat} {ts : List (TableM K)}
    (h : cutTables cuts l g = some ts) : ts.flatMap (·.entries) = l := by
  induction cuts generalizing l ts with
  | nil =>
    obtain ⟨rfl, rfl⟩ := cut_nil h
    rfl
  | cons c rest ih =>
    obtain ⟨id, n⟩ := c
    obtain ⟨f, la, ts', hn, hf, hla, hts', rfl⟩ := cut_cons h
    rw [List.flatMap_cons, ih hts']
    exact List.take_append_drop n l

theorem cutTables_ids {cuts : List (Nat × Nat)} {l : List (Entry K)} {g : Nat} {ts : List (TableM K)}
    (h : cutTables cuts l g = some ts) : ts.map (·.id) = cuts.map (·.1) := by
  induction cuts generalizing l ts with
  | nil =>
    obtain ⟨rfl, rfl⟩ := cut_nil h
    rfl
  | cons c rest ih =>
    obtain ⟨id, n⟩ := c
    obtain ⟨f, la, ts', hn, hf, hla, hts', rfl⟩ := cut_cons h
    rw [List.map_cons, List.map_cons, ih hts']

/-- recorded range = first / last key, tables non-empty -/
theorem cutTables_meta {cuts : List (Nat × Nat)} {l : List (Entry K)} {g : Nat} {ts : List (TableM K)}
    (h : cutTables cuts l g = some ts) :
    ∀ tb ∈ ts, ∃ f la, tb.entries.head? = some f ∧ tb.entries.getLast? = some la ∧ tb.lo = f.key ∧ tb.hi = la.key := by
  induction cuts generalizing l ts with
  | nil =>
    obtain ⟨rfl, rfl⟩ := cut_nil h
    intro tb htb
    cases htb
  | cons c rest ih =>
    obtain ⟨id, n⟩ := c
    obtain ⟨f, la, ts', hn, hf, hla, hts', rfl⟩ := cut_cons h
    intro tb htb
    rcases List.mem_cons.mp htb with rfl | htb
    · exact ⟨f, la, hf, hla, rfl, rfl⟩
    · exact ih hts' tb htb

theorem cut_head {cuts : List (Nat × Nat)} {l : List (Entry K)} {g : Nat} {tb : TableM K} {ts : List (TableM K)}
    (h : cutTables cuts l g = some (tb :: ts)) : ∃ f rest, l = f :: rest ∧ tb.lo = f.key := by
  cases cuts with
  | nil =>
    have := (cut_nil h).2
    cases this
  | cons c rest =>
    obtain ⟨id, n⟩ := c
    obtain ⟨f, la, ts', hn, hf, hla, hts', heq⟩ := cut_cons h
    injection heq with h1 h2
    subst h1
    rw [List.head?_take, if_neg hn] at hf
    cases l with
    | nil => cases hf
    | cons a t =>
      simp only [List.head?_cons, Option.some.injEq] at hf
      subst hf
      exact ⟨a, t, rfl, rfl⟩

theorem cut_source_first {l : List (Entry K)} {f : Entry K} (hs : IsSource l) (hf : l.head? = some f) :
    ∀ e ∈ l, ¬ e.key < f.key := by
  cases l with
  | nil => cases hf
  | cons a t =>
    simp only [List.head?_cons, Option.some.injEq] at hf
    subst hf
    intro e he
    rcases List.mem_cons.mp he with rfl | he
    · grind
    · have := hs.head_lt e he
      rw [ikLt_iff] at this
      grind

theorem cut_source_last {l : List (Entry K)} {la : Entry K} (hs : IsSource l) (hl : l.getLast? = some la) :
    ∀ e ∈ l, ¬ la.key < e.key := by
  obtain ⟨l', rfl⟩ := List.getLast?_eq_some_iff.mp hl
  have h3 := (List.pairwise_append.mp hs).2.2
  intro e he
  rcases List.mem_append.mp he with he | he
  · have := h3 e he la List.mem_cons_self
    rw [ikLt_iff] at this
    grind
  · simp only [List.mem_cons, List.not_mem_nil, or_false] at he
    subst he
    grind

theorem cut_cbk_tail {tb : TableM K} {ts : List (TableM K)} (h : cutsBetweenKeys (tb :: ts) = true) :
    cutsBetweenKeys ts = true := by
  cases ts with
  | nil => rfl
  | cons b r =>
    simp only [cutsBetweenKeys, Bool.and_eq_true] at h
    exact h.2

theorem cut_inv {cuts : List (Nat × Nat)} {l : List (Entry K)} {g : Nat} {ts : List (TableM K)}
    (hs : IsSource l) (h : cutTables cuts l g = some ts) (hc : cutsBetweenKeys ts = true) :
    RunSorted ts ∧ (∀ tb ∈ ts, IsSource tb.entries) ∧
      (∀ tb ∈ ts, ∀ e ∈ tb.entries, tb.containsKey e.key = true) ∧
      (∀ tb ∈ ts, ∃ e ∈ l, tb.lo = e.key) := by
  induction cuts generalizing l ts with
  | nil =>
    obtain ⟨rfl, rfl⟩ := cut_nil h
    exact ⟨RunSorted.nil, by simp, by simp, by simp⟩
  | cons c rest ih =>
    obtain ⟨id, n⟩ := c
    obtain ⟨f, la, ts', hn, hf, hla, hts', rfl⟩ := cut_cons h
    have hs' : IsSource (l.take n ++ l.drop n) := by rw [List.take_append_drop]; exact hs
    obtain ⟨h1, h2, h3⟩ := List.pairwise_append.mp hs'
    obtain ⟨r1, r2, r3, r4⟩ := ih h2 hts' (cut_cbk_tail hc)
    have hfm : f ∈ l.take n := List.mem_of_head? hf
    have hlam : la ∈ l.take n := List.mem_of_getLast? hla
    have hfirst := cut_source_first h1 hf
    have hlast := cut_source_last h1 hla
    refine ⟨?_, ?_, ?_, ?_⟩
    · rw [runSorted_cons]
      refine ⟨hlast f hfm, ?_, r1⟩
      intro y hy
      show la.key < y.lo
      obtain ⟨e, he, hlo⟩ := r4 y hy
      cases ts' with
      | nil => cases hy
      | cons tb2 ts'' =>
        obtain ⟨z, rest', hz, hzlo⟩ := cut_head hts'
        simp only [cutsBetweenKeys, Bool.and_eq_true, decide_eq_true_eq] at hc
        have hne : la.key ≠ tb2.lo := hc.1
        have hlz : ikLt la z = true := h3 la hlam z (by rw [hz]; exact List.mem_cons_self)
        rw [hz] at he h2
        rw [ikLt_iff] at hlz
        rcases List.mem_cons.mp he with rfl | he
        · grind
        · have := (isSource_cons.mp h2).1 e he
          rw [ikLt_iff] at this
          grind
    · intro tb htb
      rcases List.mem_cons.mp htb with rfl | htb
      · exact h1
      · exact r2 tb htb
    · intro tb htb
      rcases List.mem_cons.mp htb with rfl | htb
      · intro e he
        simp [TableM.containsKey, hfirst e he, hlast e he]
      · exact r3 tb htb
    · intro tb htb
      rcases List.mem_cons.mp htb with rfl | htb
      · exact ⟨f, List.mem_of_mem_take hfm, rfl⟩
      · obtain ⟨e, he, hlo⟩ := r4 tb htb
        exact ⟨e, List.mem_of_mem_drop he, hlo⟩

/-- a sorted stream cut between distinct user keys gives a sorted run of sorted tables whose ranges cover their keys -/
theorem cutTables_run {cuts : List (Nat × Nat)} {l : List (Entry K)} {g : Nat} {ts : List (TableM K)}
    (hs : IsSource l) (h : cutTables cuts l g = some ts) (hc : cutsBetweenKeys ts = true) :
    RunSorted ts ∧ (∀ tb ∈ ts, IsSource tb.entries) ∧ (∀ tb ∈ ts, ∀ e ∈ tb.entries, tb.containsKey e.key = true) := by
  obtain ⟨a, b, c, _⟩ := cut_inv hs h hc
  exact ⟨a, b, c⟩

/-- the entries of a sorted run of sorted tables (ranges covering their keys) form a source -/
theorem run_entries_source {r : Run K} (hr : RunSorted r) (hsrc : ∀ t ∈ r, IsSource t.entries)
    (hmeta : ∀ t ∈ r, ∀ e ∈ t.entries, t.containsKey e.key = true) : IsSource (r.flatMap (·.entries)) := by
  induction r with
  | nil => exact isSource_nil
  | cons t r ih =>
    obtain ⟨h1, h2, h3⟩ := runSorted_cons.mp hr
    rw [List.flatMap_cons]
    refine List.pairwise_append.mpr ⟨hsrc t List.mem_cons_self, ?_, ?_⟩
    · exact ih h3 (fun t' ht' => hsrc t' (List.mem_cons_of_mem _ ht'))
        (fun t' ht' => hmeta t' (List.mem_cons_of_mem _ ht'))
    · intro x hx y hy
      obtain ⟨t', ht', hy'⟩ := List.mem_flatMap.mp hy
      have c1 := hmeta t List.mem_cons_self x hx
      have c2 := hmeta t' (List.mem_cons_of_mem _ ht') y hy'
      have c3 := h2 t' ht'
      simp only [TableM.containsKey, Bool.and_eq_true, Bool.not_eq_eq_eq_not, Bool.not_true,
        decide_eq_false_iff_not] at c1 c2
      rw [ikLt_iff]
      grind
end Lsm

/-! # Part 2: admissible choices -/

namespace Lsm
set_option linter.unusedSectionVars false
set_option linter.unusedVariables false
variable {K : Type} [LT K] [DecidableLT K] [DecidableEq K]

/-! ## The position-tagged table list used by `admissible` -/

/-- the runs of one level tagged with (level, run index + offset) -/
def tagRuns (li roff : Nat) (lvl : List (Run K)) : List (Nat × Nat × TableM K) :=
  (lvl.mapIdx (fun ri r => r.map (fun tb => (li, ri + roff, tb)))).flatten

/-- levels tagged with (level index + offset, run index) -/
def tagLevels (off : Nat) (L : List (List (Run K))) : List (Nat × Nat × TableM K) :=
  (L.mapIdx (fun li lvl => tagRuns (li + off) 0 lvl)).flatten

/-- the `tagged` list inside `admissible` -/
def tagged (v : Version K) : List (Nat × Nat × TableM K) := tagLevels 0 v.levels

theorem tagRuns_nil (li roff : Nat) : tagRuns li roff ([] : List (Run K)) = [] := rfl

theorem tagRuns_cons (li roff : Nat) (r : Run K) (lvl : List (Run K)) :
    tagRuns li roff (r :: lvl) = r.map (fun tb => (li, roff, tb)) ++ tagRuns li (roff + 1) lvl := by
  simp only [tagRuns, List.mapIdx_cons, List.flatten_cons, Nat.zero_add]
  have e : ∀ i, i + 1 + roff = i + (roff + 1) := by omega
  simp only [e]

theorem tagLevels_nil (off : Nat) : tagLevels off ([] : List (List (Run K))) = [] := rfl

theorem tagLevels_cons (off : Nat) (lvl : List (Run K)) (L : List (List (Run K))) :
    tagLevels off (lvl :: L) = tagRuns off 0 lvl ++ tagLevels (off + 1) L := by
  simp only [tagLevels, List.mapIdx_cons, List.flatten_cons, Nat.zero_add]
  have e : ∀ i, i + 1 + off = i + (off + 1) := by omega
  simp only [e]

theorem tagLevels_append (off : Nat) (L1 L2 : List (List (Run K))) :
    tagLevels off (L1 ++ L2) = tagLevels off L1 ++ tagLevels (off + L1.length) L2 := by
  induction L1 generalizing off with
  | nil => simp [tagLevels_nil]
  | cons a L1 ih =>
    rw [List.cons_append, tagLevels_cons, tagLevels_cons, ih, List.append_assoc]
    congr 3
    simp only [List.length_cons]; omega

theorem tagRuns_map (li roff : Nat) (lvl : List (Run K)) :
    (tagRuns li roff lvl).map (·.2.2) = lvl.flatten := by
  induction lvl generalizing roff with
  | nil => rfl
  | cons r lvl ih =>
    rw [tagRuns_cons, List.map_append, ih, List.flatten_cons, List.map_map]
    congr 1
    simp [Function.comp_def]

theorem tagLevels_map (off : Nat) (L : List (List (Run K))) :
    (tagLevels off L).map (·.2.2) = L.flatten.flatten := by
  induction L generalizing off with
  | nil => rfl
  | cons lvl L ih =>
    rw [tagLevels_cons, List.map_append, ih, tagRuns_map, List.flatten_cons, List.flatten_append]

theorem tagRuns_mem {li roff : Nat} {lvl : List (Run K)} {x : Nat × Nat × TableM K}
    (h : x ∈ tagRuns li roff lvl) : x.1 = li ∧ roff ≤ x.2.1 := by
  induction lvl generalizing roff with
  | nil => simp [tagRuns_nil] at h
  | cons r lvl ih =>
    rw [tagRuns_cons, List.mem_append] at h
    rcases h with h | h
    · rw [List.mem_map] at h
      obtain ⟨tb, _, rfl⟩ := h
      exact ⟨rfl, Nat.le_refl _⟩
    · have := ih h
      exact ⟨this.1, by omega⟩

theorem tagLevels_mem {off : Nat} {L : List (List (Run K))} {x : Nat × Nat × TableM K}
    (h : x ∈ tagLevels off L) : off ≤ x.1 ∧ x.1 < off + L.length := by
  induction L generalizing off with
  | nil => simp [tagLevels_nil] at h
  | cons lvl L ih =>
    rw [tagLevels_cons, List.mem_append] at h
    rcases h with h | h
    · have := (tagRuns_mem h).1
      simp only [List.length_cons]; omega
    · have := ih h
      simp only [List.length_cons]; omega

/-- lexicographic `≤` on (level, run index) -/
def posLe (a b : Nat × Nat × TableM K) : Prop := a.1 < b.1 ∨ (a.1 = b.1 ∧ a.2.1 ≤ b.2.1)

theorem tagRuns_pairwise (li roff : Nat) (lvl : List (Run K)) :
    (tagRuns li roff lvl).Pairwise posLe := by
  induction lvl generalizing roff with
  | nil => exact List.Pairwise.nil
  | cons r lvl ih =>
    rw [tagRuns_cons, List.pairwise_append]
    refine ⟨?_, ih _, ?_⟩
    · rw [List.pairwise_map]
      exact List.pairwise_of_forall (fun _ _ => Or.inr ⟨rfl, Nat.le_refl _⟩)
    · intro a ha b hb
      rw [List.mem_map] at ha
      obtain ⟨tb, _, rfl⟩ := ha
      have := tagRuns_mem hb
      exact Or.inr ⟨this.1.symm, by simp only; omega⟩

theorem tagLevels_pairwise (off : Nat) (L : List (List (Run K))) :
    (tagLevels off L).Pairwise posLe := by
  induction L generalizing off with
  | nil => exact List.Pairwise.nil
  | cons lvl L ih =>
    rw [tagLevels_cons, List.pairwise_append]
    refine ⟨tagRuns_pairwise _ _ _, ih _, ?_⟩
    intro a ha b hb
    have h1 := (tagRuns_mem ha).1
    have h2 := (tagLevels_mem hb).1
    exact Or.inl (by omega)

theorem admissible_eq (v : Version K) (ids : List Nat) (dest : Nat) (evict : Bool) :
    admissible v ids dest evict =
      ((tagged v).filter (fun x => ids.contains x.2.2.id)).all (fun ti =>
        ((tagged v).filter (fun x => !ids.contains x.2.2.id)).all (fun x =>
          let shares := ti.2.2.entries.any (fun a => x.2.2.entries.any (fun b => decide (a.key = b.key)))
          if !shares then true
          else
            let xBefore := decide (x.1 < ti.1) || (decide (x.1 = ti.1) && decide (x.2.1 < ti.2.1))
            let tBefore := decide (ti.1 < x.1) || (decide (ti.1 = x.1) && decide (ti.2.1 < x.2.1))
            (xBefore && decide (x.1 < dest)) || (!evict && tBefore && decide (dest ≤ x.1)))) := by
  simp only [admissible, tagged, tagLevels, tagRuns, Nat.add_zero]

theorem tagged_map (v : Version K) : (tagged v).map (·.2.2) = v.tables := tagLevels_map 0 v.levels

theorem tagged_pairwise (v : Version K) : (tagged v).Pairwise posLe := tagLevels_pairwise 0 v.levels

/-- the tagged tables above `dest` / from `dest` on -/
def taggedAbove (v : Version K) (dest : Nat) : List (Nat × Nat × TableM K) := tagLevels 0 (v.levels.take dest)
def taggedFrom (v : Version K) (dest : Nat) : List (Nat × Nat × TableM K) :=
  tagLevels (v.levels.take dest).length (v.levels.drop dest)

theorem tagged_split (v : Version K) (dest : Nat) : tagged v = taggedAbove v dest ++ taggedFrom v dest := by
  have := tagLevels_append 0 (v.levels.take dest) (v.levels.drop dest)
  rw [List.take_append_drop, Nat.zero_add] at this
  exact this

theorem taggedAbove_map (v : Version K) (dest : Nat) : (taggedAbove v dest).map (·.2.2) = v.tablesAbove dest :=
  tagLevels_map _ _

theorem taggedFrom_map (v : Version K) (dest : Nat) : (taggedFrom v dest).map (·.2.2) = v.tablesFrom dest :=
  tagLevels_map _ _

theorem taggedAbove_lvl {v : Version K} {dest : Nat} {x : Nat × Nat × TableM K} (h : x ∈ taggedAbove v dest) :
    x.1 < dest := by
  have := tagLevels_mem h
  simp only [List.length_take] at this
  omega

theorem taggedFrom_lvl {v : Version K} {dest : Nat} {x : Nat × Nat × TableM K} (h : x ∈ taggedFrom v dest) :
    dest ≤ x.1 := by
  have := tagLevels_mem h
  simp only [List.length_take, List.length_drop] at this
  omega

/-- what `admissible` says about an input `t` and a non-input `x` sharing the key `k` -/
theorem admissible_spec {v : Version K} {ids : List Nat} {dest : Nat} {evict : Bool}
    (h : admissible v ids dest evict = true) {t x : Nat × Nat × TableM K}
    (ht : t ∈ tagged v) (hx : x ∈ tagged v)
    (hti : ids.contains t.2.2.id = true) (hxi : ids.contains x.2.2.id = false) {k : K}
    (hk1 : ∃ e ∈ t.2.2.entries, e.key = k) (hk2 : ∃ e ∈ x.2.2.entries, e.key = k) :
    ((x.1 < t.1 ∨ (x.1 = t.1 ∧ x.2.1 < t.2.1)) ∧ x.1 < dest)
      ∨ (evict = false ∧ (t.1 < x.1 ∨ (t.1 = x.1 ∧ t.2.1 < x.2.1)) ∧ dest ≤ x.1) := by
  rw [admissible_eq, List.all_eq_true] at h
  have h1 := h t (List.mem_filter.2 ⟨ht, hti⟩)
  rw [List.all_eq_true] at h1
  have h2 := h1 x (List.mem_filter.2 ⟨hx, by rw [hxi]; rfl⟩)
  obtain ⟨e1, he1, hk1⟩ := hk1
  obtain ⟨e2, he2, hk2⟩ := hk2
  have hs : (t.2.2.entries.any (fun a => x.2.2.entries.any (fun b => decide (a.key = b.key)))) = true := by
    rw [List.any_eq_true]
    refine ⟨e1, he1, ?_⟩
    rw [List.any_eq_true]
    exact ⟨e2, he2, by simp [hk1, hk2]⟩
  simp only [hs, Bool.not_true, Bool.false_eq_true, if_false] at h2
  simp only [Bool.or_eq_true, Bool.and_eq_true, decide_eq_true_eq, Bool.not_eq_true'] at h2
  rcases h2 with h2 | h2
  · exact Or.inl h2
  · exact Or.inr ⟨h2.1.1, h2.1.2, h2.2⟩

/-! ## Stable partition -/

theorem flatMap_split_of_pairwise {α β : Type} (g : α → List β) (p : α → Bool) (l : List α)
    (h : l.Pairwise (fun a b => g a ≠ [] → g b ≠ [] → p b = true → p a = true)) :
    l.flatMap g = (l.filter p).flatMap g ++ (l.filter (fun x => !p x)).flatMap g := by
  induction l with
  | nil => rfl
  | cons x xs ih =>
    rw [List.pairwise_cons] at h
    have ih' := ih h.2
    by_cases hp : p x = true
    · rw [List.filter_cons_of_pos hp, List.filter_cons_of_neg (by simp [hp]), List.flatMap_cons, List.flatMap_cons,
        ih', List.append_assoc]
    · rw [List.filter_cons_of_neg hp, List.filter_cons_of_pos (by simpa using hp), List.flatMap_cons,
        List.flatMap_cons, ih']
      by_cases hg : g x = []
      · rw [hg, List.nil_append, List.nil_append]
      · have : (xs.filter p).flatMap g = [] := by
          rw [List.flatMap_eq_nil_iff]
          intro y hy
          rw [List.mem_filter] at hy
          apply Classical.byContradiction
          intro hgy
          exact hp (h.1 y hy.1 hg hgy hy.2)
        rw [this, List.nil_append, List.nil_append]

theorem keyOf_ne_nil {k : K} {l : List (Entry K)} (h : keyOf k l ≠ []) : ∃ e ∈ l, e.key = k := by
  apply Classical.byContradiction
  intro hc
  apply h
  apply keyOf_eq_nil
  intro x hx hxk
  exact hc ⟨x, hx, hxk⟩

theorem tagged_filter_flatMap (k : K) (q : TableM K → Bool) (l : List (Nat × Nat × TableM K)) :
    (l.filter (fun x => q x.2.2)).flatMap (fun x => keyOf k x.2.2.entries)
      = ((l.map (·.2.2)).filter q).flatMap (fun t => keyOf k t.entries) := by
  rw [List.filter_map, List.flatMap_map]
  rfl

/-- admissibility ⇒ per key, the read order is: non-inputs above `dest`, then the inputs, then non-inputs from `dest` on -/
theorem admissible_split (v : Version K) (ids : List Nat) (dest : Nat) (evict : Bool)
    (h : admissible v ids dest evict = true) (k : K) :
    v.tables.flatMap (fun t => keyOf k t.entries)
      = ((v.tablesAbove dest).filter (fun t => !ids.contains t.id)).flatMap (fun t => keyOf k t.entries)
        ++ (v.tables.filter (fun t => ids.contains t.id)).flatMap (fun t => keyOf k t.entries)
        ++ ((v.tablesFrom dest).filter (fun t => !ids.contains t.id)).flatMap (fun t => keyOf k t.entries) := by
  let g' : Nat × Nat × TableM K → List (Entry K) := fun x => keyOf k x.2.2.entries
  let p1 : Nat × Nat × TableM K → Bool := fun x => !ids.contains x.2.2.id && decide (x.1 < dest)
  let p2 : Nat × Nat × TableM K → Bool := fun x => ids.contains x.2.2.id
  have hpw := (tagged_pairwise v)
  -- first split
  have s1 : (tagged v).flatMap g' = ((tagged v).filter p1).flatMap g'
      ++ ((tagged v).filter (fun x => !p1 x)).flatMap g' := by
    apply flatMap_split_of_pairwise
    refine List.Pairwise.imp_of_mem ?_ hpw
    intro a b ha hb hab hga hgb hpb
    simp only [p1, Bool.and_eq_true, Bool.not_eq_true', decide_eq_true_eq] at hpb ⊢
    have hka := keyOf_ne_nil hga
    have hkb := keyOf_ne_nil hgb
    unfold posLe at hab
    cases hai : ids.contains a.2.2.id with
    | false => exact ⟨rfl, by omega⟩
    | true =>
      have := admissible_spec h ha hb hai hpb.1 hka hkb
      omega
  -- second split
  have s2 : ((tagged v).filter (fun x => !p1 x)).flatMap g'
      = (((tagged v).filter (fun x => !p1 x)).filter p2).flatMap g'
        ++ (((tagged v).filter (fun x => !p1 x)).filter (fun x => !p2 x)).flatMap g' := by
    apply flatMap_split_of_pairwise
    refine List.Pairwise.imp_of_mem ?_ (hpw.filter _)
    intro a b ha hb hab hga hgb hpb
    rw [List.mem_filter] at ha hb
    simp only [p2] at hpb ⊢
    have hka := keyOf_ne_nil hga
    have hkb := keyOf_ne_nil hgb
    unfold posLe at hab
    cases hai : ids.contains a.2.2.id with
    | true => rfl
    | false =>
      have hna := ha.2
      simp only [p1, hai, Bool.not_false, Bool.true_and, Bool.not_eq_true', decide_eq_false_iff_not] at hna
      have := admissible_spec h hb.1 ha.1 hpb hai hkb hka
      omega
  -- translate the three filters
  have eA : ((tagged v).filter p1).flatMap g'
      = ((v.tablesAbove dest).filter (fun t => !ids.contains t.id)).flatMap (fun t => keyOf k t.entries) := by
    rw [← taggedAbove_map, ← tagged_filter_flatMap, tagged_split v dest, List.filter_append]
    have e1 : (taggedFrom v dest).filter p1 = [] := by
      rw [List.filter_eq_nil_iff]
      intro x hx
      have := taggedFrom_lvl hx
      simp only [p1, Bool.and_eq_true, decide_eq_true_eq]
      omega
    have e2 : (taggedAbove v dest).filter p1 = (taggedAbove v dest).filter (fun x => !ids.contains x.2.2.id) := by
      apply List.filter_congr
      intro x hx
      have := taggedAbove_lvl hx
      simp [p1, this]
    rw [e1, e2, List.append_nil]
  have eB : (((tagged v).filter (fun x => !p1 x)).filter p2).flatMap g'
      = (v.tables.filter (fun t => ids.contains t.id)).flatMap (fun t => keyOf k t.entries) := by
    rw [← tagged_map, ← tagged_filter_flatMap, List.filter_filter]
    congr 1
    apply List.filter_congr
    intro x hx
    simp only [p1, p2]
    cases ids.contains x.2.2.id <;> simp
  have eC : (((tagged v).filter (fun x => !p1 x)).filter (fun x => !p2 x)).flatMap g'
      = ((v.tablesFrom dest).filter (fun t => !ids.contains t.id)).flatMap (fun t => keyOf k t.entries) := by
    rw [← taggedFrom_map, ← tagged_filter_flatMap, List.filter_filter, tagged_split v dest, List.filter_append]
    have e1 : (taggedAbove v dest).filter (fun x => !p2 x && !p1 x) = [] := by
      rw [List.filter_eq_nil_iff]
      intro x hx
      have := taggedAbove_lvl hx
      simp only [p1, p2]
      cases ids.contains x.2.2.id <;> simp [this]
    have e2 : (taggedFrom v dest).filter (fun x => !p2 x && !p1 x)
        = (taggedFrom v dest).filter (fun x => !ids.contains x.2.2.id) := by
      apply List.filter_congr
      intro x hx
      have := taggedFrom_lvl hx
      have hn : ¬ x.1 < dest := by omega
      simp only [p1, p2]
      cases ids.contains x.2.2.id <;> simp [hn]
    rw [e1, e2, List.nil_append]
  have e0 : v.tables.flatMap (fun t => keyOf k t.entries) = (tagged v).flatMap g' := by
    rw [← tagged_map, List.flatMap_map]
  rw [e0, s1, s2, eA, eB, eC, List.append_assoc]

/-- with tombstone eviction (last level) no non-input table at level ≥ dest shares a key with an input -/
theorem admissible_evict_tail (v : Version K) (ids : List Nat) (dest : Nat)
    (h : admissible v ids dest true = true) (k : K)
    (hne : (v.tables.filter (fun t => ids.contains t.id)).flatMap (fun t => keyOf k t.entries) ≠ []) :
    ((v.tablesFrom dest).filter (fun t => !ids.contains t.id)).flatMap (fun t => keyOf k t.entries) = [] := by
  rw [← tagged_map, ← tagged_filter_flatMap] at hne
  rw [← taggedFrom_map, ← tagged_filter_flatMap]
  rw [List.flatMap_eq_nil_iff]
  intro x hx
  apply Classical.byContradiction
  intro hgx
  rw [ne_eq, List.flatMap_eq_nil_iff] at hne
  apply hne
  intro t ht
  apply Classical.byContradiction
  intro hgt
  rw [List.mem_filter] at hx ht
  have hxm : x ∈ tagged v := by rw [tagged_split v dest]; exact List.mem_append_right _ hx.1
  have hxl := taggedFrom_lvl hx.1
  have hxi : ids.contains x.2.2.id = false := by simpa using hx.2
  have := admissible_spec h ht.1 hxm ht.2 hxi (keyOf_ne_nil hgt) (keyOf_ne_nil hgx)
  simp at this
  omega

end Lsm
