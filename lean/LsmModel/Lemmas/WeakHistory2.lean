import LsmModel.Lemmas.WeakHistory
import LsmModel.Tree.WeakCheck
/-
  LsmModel.Lemmas.WeakHistory2 — C13 at HISTORY level, part 2: the per-key argument, the alphabet with weak deletes,
  the write-history discipline and the induction over a guarded run.

  * `writesOf ops k`  — everything the history wrote for `k`, newest first (`lastWrite ops k` is its head);
  * `KeyDisc l`       — the per-key discipline on such a list: EITHER no weak tombstone at all (the C01 regime: any mix
                        of inserts and strong deletes) OR `WeakSafe l` (single-delete discipline: no strong delete, and
                        directly below every insert there is a weak delete or nothing);
  * `Discipline ops`  — `∀ k, KeyDisc (writesOf ops k)`; executable: `disciplineB` (`disciplineB_iff`);
  * `ErOk er th`      — `er` is an erasure of the storage representation compatible with `separate th`:
                        the identity for a standard tree (`erOk_id`), `eraseIndir` for a separated one (Props/C08w);
  * `KeyInv er l H`   — what links the version list `l` the reader meets to the write history `H` of the key:
                        `l.map er` is a sublist of `H`, `WeakSafe H → WeakSafe l`, same live head up to `er`;
  * `GoodW er th t H` — `Str th t ∧ ∀ k, KeyInv er (curHist t k) (H k)`;
  * `okStepW` / `ReachW` — C01's alphabet plus weak deletes (standard tree); `okStepS` / `ReachS` — the same for any
                        separation threshold (flush guards on the separated stream); Bool versions `okStepWB`, `okStepSB`.
-/
namespace Lsm
set_option linter.unusedSectionVars false
set_option linter.unusedVariables false
variable {K : Type} [LT K] [DecidableLT K] [DecidableEq K] [LE K] [Std.IsLinearOrder K] [Std.LawfulOrderLT K]

/-! ## one key -/

def NoWeak (l : List (Entry K)) : Prop := ∀ e ∈ l, e.vt ≠ .weak

/-- per-key discipline of a write history (newest first) -/
def KeyDisc (l : List (Entry K)) : Prop := NoWeak l ∨ WeakSafe l

/-- what an "erasure" `er` of stored entries (identity for a standard tree, `eraseIndir` for a key-value separated
    one) must satisfy w.r.t. the separation threshold `th` of the tree -/
structure ErOk (er : Entry K → Entry K) (th : Option Nat) : Prop where
  sep : ∀ e, er (separate th e) = er e
  weak : ∀ e, (er e).vt = .weak ↔ e.vt = .weak
  tomb : ∀ e, (er e).isTomb = e.isTomb
  fix : ∀ e, e.vt ≠ .indir → er e = e

theorem erOk_id : ErOk (fun (e : Entry K) => e) none :=
  ⟨fun _ => rfl, fun _ => Iff.rfl, fun _ => rfl, fun _ _ => rfl⟩

theorem ErOk.none {er : Entry K → Entry K} {th : Option Nat} (h : ErOk er th) : ErOk er none :=
  ⟨fun _ => rfl, h.weak, h.tomb, h.fix⟩

theorem ErOk.sep_tomb {er : Entry K → Entry K} {th : Option Nat} (h : ErOk er th) (e : Entry K) :
    (separate th e).isTomb = e.isTomb := by
  rw [← h.tomb (separate th e), h.sep, h.tomb]

/-- the link between the version list `l` the reader meets and the write history `H` of the key -/
def KeyInv (er : Entry K → Entry K) (l H : List (Entry K)) : Prop :=
  (l.map er).Sublist H ∧ (WeakSafe H → WeakSafe l) ∧ (live l.head?).map er = live H.head?

theorem NoWeak.sublist {l l' : List (Entry K)} (hs : l'.Sublist l) (h : NoWeak l) : NoWeak l' :=
  fun e he => h e (hs.subset he)

theorem KeyDisc.append_right (x y : List (Entry K)) (h : KeyDisc (x ++ y)) : KeyDisc y := by
  rcases h with h | h
  · exact Or.inl (h.sublist (List.sublist_append_right x y))
  · exact Or.inr (weakSafe_append_right x y h)

theorem keyInv_nil (er : Entry K → Entry K) : KeyInv er ([] : List (Entry K)) [] :=
  ⟨List.Sublist.refl _, fun h => h, rfl⟩

theorem KeyInv.noWeak {er : Entry K → Entry K} {th : Option Nat} (her : ErOk er th) {l H : List (Entry K)}
    (hi : KeyInv er l H) (h : NoWeak H) : NoWeak l := by
  intro e he hw
  exact h (er e) (hi.1.subset (List.mem_map.2 ⟨e, he, rfl⟩)) ((her.weak e).2 hw)

/-- the value-type CLASS of an entry: `WeakSafe` does not tell a value from an indirection -/
def vcls (e : Entry K) : VT := if e.vt = .indir then .value else e.vt

theorem vcls_facts {a b : Entry K} (h : vcls a = vcls b) :
    (a.vt = .tomb ↔ b.vt = .tomb) ∧ (a.vt = .weak ↔ b.vt = .weak) ∧ isValueLike a = isValueLike b := by
  unfold vcls at h
  unfold isValueLike
  cases ha : a.vt <;> cases hb : b.vt <;> simp_all

theorem vcls_separate (th : Option Nat) (e : Entry K) : vcls (separate th e) = vcls e := by
  unfold separate
  cases th with
  | none => rfl
  | some n =>
    simp only
    split
    · next h => simp [vcls, h.1]
    · rfl

theorem weakOrEmpty_congr {l l' : List (Entry K)} (h : l.map vcls = l'.map vcls) (hw : WeakOrEmpty l) :
    WeakOrEmpty l' := by
  cases l with
  | nil =>
    cases l' with
    | nil => exact hw
    | cons b t' => simp at h
  | cons a t =>
    cases l' with
    | nil => simp at h
    | cons b t' =>
      simp only [List.map_cons, List.cons.injEq] at h
      rw [weakOrEmpty_cons] at hw ⊢
      exact (vcls_facts h.1).2.1.1 hw

theorem weakSafe_congr {l l' : List (Entry K)} (h : l.map vcls = l'.map vcls) (hw : WeakSafe l) : WeakSafe l' := by
  induction l generalizing l' with
  | nil =>
    cases l' with
    | nil => exact hw
    | cons b t' => simp at h
  | cons a t ih =>
    cases l' with
    | nil => simp at h
    | cons b t' =>
      simp only [List.map_cons, List.cons.injEq] at h
      have hw' := (weakSafe_cons a t).mp hw
      have hf := vcls_facts h.1
      refine (weakSafe_cons b t').mpr ⟨fun hb => hw'.1 (hf.1.2 hb), fun hv => ?_, ih h.2 hw'.2.2⟩
      exact weakOrEmpty_congr h.2 (hw'.2.1 (by rw [hf.2.2]; exact hv))

theorem live_head_sep {er : Entry K → Entry K} {th : Option Nat} (her : ErOk er th) (A X B : List (Entry K)) :
    (live (A ++ X.map (separate th) ++ B).head?).map er = (live (A ++ X ++ B).head?).map er := by
  cases A with
  | cons a A => rfl
  | nil =>
    cases X with
    | nil => rfl
    | cons x X =>
      simp only [List.nil_append, List.map_cons, List.cons_append, List.head?_cons, live_some, her.sep_tomb]
      split
      · rfl
      · simp [her.sep]

/-- the GC of a contiguous part keeps `WeakSafe` and the live head -/
theorem keyStep_weakSafe {th : Option Nat} {k : K} {l l' : List (Entry K)} (h : KeyStep th k l l')
    (hws : WeakSafe l) :
    WeakSafe l' ∧ ∀ er : Entry K → Entry K, ErOk er th → (live l'.head?).map er = (live l.head?).map er := by
  obtain ⟨wm, ev, A, mid, B, hk, hB, rfl, rfl⟩ := h
  have core : WeakSafe (A ++ (cstream wm ev noFilter mid).1 ++ B) ∧
      live (A ++ (cstream wm ev noFilter mid).1 ++ B).head? = live (A ++ mid ++ B).head? := by
    cases ev with
    | false => exact cstream_weakSafe_noevict wm k A mid B hk hws
    | true =>
      by_cases hne : mid = []
      · subst hne
        rw [cstream_nil]
        exact ⟨hws, rfl⟩
      · have hb := hB rfl hne
        subst hb
        simp only [List.append_nil] at hws ⊢
        exact cstream_weakSafe_evict wm k A mid hk hws
  refine ⟨weakSafe_congr ?_ core.1, fun er her => ?_⟩
  · have hc : vcls ∘ separate th = (vcls : Entry K → VT) := by funext e; exact vcls_separate th e
    simp only [List.map_append, List.map_map, hc]
  · rw [live_head_sep her, core.2]

/-- without weak tombstones the GC of a contiguous part keeps the live head (C01's Step C) -/
theorem keyStep_noWeak {th : Option Nat} {k : K} {l l' : List (Entry K)} (h : KeyStep th k l l') (hnw : NoWeak l)
    (er : Entry K → Entry K) (her : ErOk er th) : (live l'.head?).map er = (live l.head?).map er := by
  obtain ⟨wm, ev, A, mid, B, hk, hB, rfl, rfl⟩ := h
  rw [live_head_sep her, live_head_replace wm ev k A mid B hk (fun e he => hnw e (by simp [he])) hB]

theorem KeyStep.sublist_er {th : Option Nat} {k : K} {l l' : List (Entry K)} (h : KeyStep th k l l')
    {er : Entry K → Entry K} (her : ErOk er th) : (l'.map er).Sublist (l.map er) := by
  obtain ⟨wm, ev, A, mid, B, _, _, rfl, rfl⟩ := h
  have hc : er ∘ separate th = er := by funext e; exact her.sep e
  simp only [List.map_append, List.map_map, hc]
  exact ((List.Sublist.refl _).append ((cstream_sub wm ev _).map _)).append (List.Sublist.refl _)

theorem keyInv_step {er : Entry K → Entry K} {th : Option Nat} (her : ErOk er th) {k : K} {l l' H : List (Entry K)}
    (hi : KeyInv er l H) (hd : KeyDisc H) (hs : KeyStep th k l l') : KeyInv er l' H := by
  refine ⟨(hs.sublist_er her).trans hi.1, fun hH => (keyStep_weakSafe hs (hi.2.1 hH)).1, ?_⟩
  rcases hd with hd | hd
  · rw [keyStep_noWeak hs (hi.noWeak her hd) er her]; exact hi.2.2
  · rw [(keyStep_weakSafe hs (hi.2.1 hd)).2 er her]; exact hi.2.2

theorem weakOrEmpty_of_live {l : List (Entry K)} (hws : WeakSafe l) (h : live l.head? = none) : WeakOrEmpty l := by
  cases l with
  | nil => exact weakOrEmpty_nil
  | cons a t =>
    rw [weakOrEmpty_cons]
    have hnt := ((weakSafe_cons a t).mp hws).1
    simp only [List.head?_cons, live_some, Entry.isTomb] at h
    cases hv : a.vt <;> simp_all

/-- a write on top of both lists -/
theorem keyInv_push {er : Entry K → Entry K} {l H : List (Entry K)} (e : Entry K) (he : er e = e)
    (hi : KeyInv er l H) : KeyInv er (e :: l) (e :: H) := by
  refine ⟨?_, fun h => ?_, ?_⟩
  · rw [List.map_cons, he]; exact hi.1.cons_cons e
  · have h' := (weakSafe_cons e H).mp h
    have hl := hi.2.1 h'.2.2
    refine (weakSafe_cons e l).mpr ⟨h'.1, fun hv => ?_, hl⟩
    apply weakOrEmpty_of_live hl
    have := hi.2.2
    rw [live_head_weakOrEmpty H (h'.2.1 hv)] at this
    simpa using this
  · simp only [List.head?_cons, live_some]
    split
    · rfl
    · simp [he]

theorem keyInv_pushOpt {er : Entry K → Entry K} {l H : List (Entry K)} (o : Option (Entry K))
    (he : ∀ e, o = some e → er e = e) (hi : KeyInv er l H) :
    KeyInv er (o.toList ++ l) (o.toList ++ H) := by
  cases o with
  | none => exact hi
  | some e => exact keyInv_push e (he e rfl) hi

/-- consequence for the state: the reader's version list obeys the discipline whenever the write history does -/
theorem KeyInv.keyDisc {er : Entry K → Entry K} {th : Option Nat} (her : ErOk er th) {l H : List (Entry K)}
    (hi : KeyInv er l H) (hd : KeyDisc H) : KeyDisc l := by
  rcases hd with hd | hd
  · exact Or.inl (hi.noWeak her hd)
  · exact Or.inr (hi.2.1 hd)

/-! ## the write history of a key -/

/-- everything a history wrote for `k`, newest first -/
def writesOf : List (Op K) → K → List (Entry K)
  | [], _ => []
  | op :: ops, k => writesOf ops k ++ (op.lastWriteOf k).toList

theorem lastWrite_eq_head (ops : List (Op K)) (k : K) : lastWrite ops k = (writesOf ops k).head? := by
  induction ops with
  | nil => rfl
  | cons op ops ih =>
    rw [lastWrite, writesOf, List.head?_append, ← ih]
    cases lastWrite ops k with
    | some e => rfl
    | none => cases op.lastWriteOf k <;> rfl

theorem writesOf_append (A B : List (Op K)) (k : K) : writesOf (A ++ B) k = writesOf B k ++ writesOf A k := by
  induction A with
  | nil => simp [writesOf]
  | cons a A ih => rw [List.cons_append, writesOf, ih, writesOf, List.append_assoc]

theorem writesOf_snoc (A : List (Op K)) (op : Op K) (k : K) :
    writesOf (A ++ [op]) k = (op.lastWriteOf k).toList ++ writesOf A k := by
  rw [writesOf_append]
  simp [writesOf]

/-- the single-delete discipline on the WRITE HISTORY: per key, either the key never receives a weak delete, or it
    never receives a strong delete and every insert of it is the first write of the key or directly follows a weak
    delete of it (values and weak deletes alternate; consecutive weak deletes are allowed). -/
def Discipline (ops : List (Op K)) : Prop := ∀ k, KeyDisc (writesOf ops k)

theorem Discipline.prefix_ {A B : List (Op K)} (h : Discipline (A ++ B)) : Discipline A := by
  intro k
  have := h k
  rw [writesOf_append] at this
  exact this.append_right _ _

/-! ## the alphabet with weak deletes -/

/-- C01's alphabet (`okStep`), with `write` ALSO allowing weak tombstones -/
def okStepW (t : TreeState K) : Op K → Prop
  | .write es => (∀ e ∈ es, e.vt = .value ∨ e.vt = .tomb ∨ e.vt = .weak) ∧ (es.map (·.key)).Nodup
  | op => okStep t op

/-- the same alphabet for a tree with ANY separation threshold: the output-table guards of `flush` / `flushCommit`
    speak about the stream as it is written to the tables, i.e. after key-value separation -/
def okStepS (t : TreeState K) : Op K → Prop
  | .write es => (∀ e ∈ es, e.vt = .value ∨ e.vt = .tomb ∨ e.vt = .weak) ∧ (es.map (·.key)).Nodup
  | .flush wm m cuts =>
    0 < t.levelCount ∧
    ∀ sv, (t.rotate m).latest? = some sv →
      cutsOk cuts (((t.rotate m).flushStream sv wm).1.map (separate t.blobTh)) sv.version
  | .flushCommit ids wm cuts =>
    0 < t.levelCount ∧ ids ≠ [] ∧
    ∀ sv, t.latest? = some sv → ids.all (fun i => sv.sealed.contains i) = false ∨
      (ids <+: sv.sealed ∧
        cutsOk cuts ((cstream wm false noFilter (mergeAll (ids.map t.mem))).1.map (separate t.blobTh)) sv.version)
  | op => okStep t op

theorem okStepS_of_W {t : TreeState K} {op : Op K} (hb : t.blobTh = none) (h : okStepW t op) : okStepS t op := by
  cases op with
  | flush wm m cuts =>
    refine ⟨h.1, fun sv hsv => ?_⟩
    rw [hb, map_separate_none]; exact h.2 sv hsv
  | flushCommit ids wm cuts =>
    refine ⟨h.1, h.2.1, fun sv hsv => ?_⟩
    rw [hb, map_separate_none]; exact h.2.2 sv hsv
  | _ => exact h

inductive ReachW : TreeState K → List (Op K) → TreeState K → Prop
  | refl (t : TreeState K) : ReachW t [] t
  | step {t t' t'' : TreeState K} {op : Op K} {ops : List (Op K)} :
      okStepW t op → t.applyOp op = some t' → ReachW t' ops t'' → ReachW t (op :: ops) t''

inductive ReachS : TreeState K → List (Op K) → TreeState K → Prop
  | refl (t : TreeState K) : ReachS t [] t
  | step {t t' t'' : TreeState K} {op : Op K} {ops : List (Op K)} :
      okStepS t op → t.applyOp op = some t' → ReachS t' ops t'' → ReachS t (op :: ops) t''

/-- every C01 run is a run of the larger alphabet -/
theorem ReachW.of_reach {t t' : TreeState K} {ops : List (Op K)} (h : Reach t ops t') : ReachW t ops t' := by
  induction h with
  | refl t => exact .refl t
  | @step t0 t1 t2 op ops hok ha _ ih =>
    refine .step ?_ ha ih
    cases op with
    | write es => exact ⟨fun e he => by rcases hok.1 e he with h | h <;> simp [h], hok.2⟩
    | _ => exact hok

/-- the invariant: structure, and per key `KeyInv` between the reader's version list and the history `H k` -/
def GoodW (er : Entry K → Entry K) (th : Option Nat) (t : TreeState K) (H : K → List (Entry K)) : Prop :=
  Str th t ∧ ∀ k, KeyInv er (curHist t k) (H k)

theorem GoodW.congr {er : Entry K → Entry K} {th : Option Nat} {t : TreeState K} {H H' : K → List (Entry K)}
    (h : GoodW er th t H) (he : ∀ k, H k = H' k) : GoodW er th t H' := ⟨h.1, fun k => he k ▸ h.2 k⟩

theorem keyOf_eq_batchGet (es : List (Entry K)) (k : K) (hnd : (es.map (·.key)).Nodup) :
    keyOf k es = (batchGet es k).toList := by
  rw [batchGet_eq_head]
  have := keyOf_length_le_one k es hnd
  match hm : keyOf k es, this with
  | [], _ => rfl
  | [a], _ => rfl

theorem rotate_blobTh (t : TreeState K) (n : Nat) : (t.rotate n).blobTh = t.blobTh := by
  rcases rotate_cases t n with he | ⟨r, sv, hr, he⟩ <;> rw [he]

/-- one guarded step: the invariant moves from `H` to `H` extended by what the step wrote -/
theorem applyOp_goodW {er : Entry K → Entry K} {th : Option Nat} (her : ErOk er th) {t t' : TreeState K} {op : Op K}
    {H : K → List (Entry K)} (h : GoodW er th t H)
    (hok : okStepS t op) (ha : t.applyOp op = some t')
    (hd : ∀ k, KeyDisc ((op.lastWriteOf k).toList ++ H k)) :
    GoodW er th t' (fun k => (op.lastWriteOf k).toList ++ H k) := by
  have same : ∀ {t'' : TreeState K}, Str th t'' → (∀ k, curHist t'' k = curHist t k) →
      GoodW er th t'' (fun k => ([] : List (Entry K)) ++ H k) :=
    fun hs hk => ⟨hs, fun k => by rw [hk k]; exact h.2 k⟩
  have gc : ∀ {t'' : TreeState K} (th' : Option Nat), ErOk er th' → (∀ k, KeyDisc (H k)) → Str th t'' →
      (∀ k, KeyStep th' k (curHist t k) (curHist t'' k)) →
      GoodW er th t'' (fun k => ([] : List (Entry K)) ++ H k) :=
    fun th' her' hd hs hk => ⟨hs, fun k => keyInv_step her' (h.2 k) (hd k) (hk k)⟩
  have hb := h.1.blob
  cases op with
  | write es =>
    obtain ⟨hs, hk⟩ := write_str h.1 ha hok.2
    refine ⟨hs, fun k => ?_⟩
    rw [hk k, keyOf_eq_batchGet es k hok.2]
    refine keyInv_pushOpt _ (fun e he => her.fix e ?_) (h.2 k)
    have hm : e ∈ es := List.mem_of_find?_eq_some he
    rcases hok.1 e hm with h1 | h1 | h1 <;> simp [h1]
  | rotate m =>
    simp only [TreeState.applyOp] at ha
    split at ha
    · next hf =>
      cases ha
      obtain ⟨hs, hk⟩ := rotate_str h.1 m hf
      exact same hs hk
    · cases ha
  | flush wm m cuts =>
    simp only [TreeState.applyOp] at ha
    split at ha
    · next hf =>
      obtain ⟨h1, hr1⟩ := rotate_str h.1 m hf
      obtain ⟨h2, hr2⟩ := flushSealed_str h1 ha (by rw [rotate_levelCount]; exact hok.1)
        (fun sv hsv => by have := hok.2 sv hsv; rwa [hb] at this)
      exact gc th her hd h2 (fun k => by rw [← hr1 k]; exact hr2 k)
    · cases ha
  | flushCommit ids wm cuts =>
    obtain ⟨h2, hr2⟩ := flushCommit_str h.1 ha hok.1 (fun sv hsv => by have := hok.2.2 sv hsv; rwa [hb] at this)
    exact gc th her hd h2 hr2
  | merge ids dest wm f cuts =>
    obtain ⟨h2, hr2⟩ := mergeCommit_str h.1 ha hok
    exact gc none her.none hd h2 hr2
  | move ids dest wm =>
    obtain ⟨h2, hr2⟩ := moveCommit_str h.1 ha hok
    exact same h2 hr2
  | drop ids wm => exact hok.elim
  | clear m => exact hok.elim
  | ingest m fc items cuts => exact hok.elim
  | reopen =>
    obtain ⟨h2, hr2⟩ := reopen_str h.1 ha hok
    exact same h2 hr2

theorem reachS_goodW {er : Entry K → Entry K} {th : Option Nat} (her : ErOk er th) {t t' : TreeState K}
    {ops : List (Op K)} (hr : ReachS t ops t') :
    ∀ ops0 : List (Op K), GoodW er th t (writesOf ops0) → Discipline (ops0 ++ ops) →
      GoodW er th t' (writesOf (ops0 ++ ops)) := by
  induction hr with
  | refl t => intro ops0 hg _; simpa using hg
  | @step t0 t1 t2 op ops hok ha _ ih =>
    intro ops0 hg hd
    have hd1 : Discipline (ops0 ++ [op]) := by
      have : Discipline ((ops0 ++ [op]) ++ ops) := by simpa [List.append_assoc] using hd
      exact this.prefix_
    have h1 := applyOp_goodW her hg hok ha (fun k => by rw [← writesOf_snoc]; exact hd1 k)
    have h2 := ih (ops0 ++ [op]) (h1.congr (fun k => (writesOf_snoc ops0 op k).symm))
      (by simpa [List.append_assoc] using hd)
    simpa [List.append_assoc] using h2

theorem reachW_goodW {t t' : TreeState K} {ops : List (Op K)} (hr : ReachW t ops t') :
    ∀ ops0 : List (Op K), GoodW (fun e => e) none t (writesOf ops0) → Discipline (ops0 ++ ops) →
      GoodW (fun e => e) none t' (writesOf (ops0 ++ ops)) := by
  induction hr with
  | refl t => intro ops0 hg _; simpa using hg
  | @step t0 t1 t2 op ops hok ha _ ih =>
    intro ops0 hg hd
    have hd1 : Discipline (ops0 ++ [op]) := by
      have : Discipline ((ops0 ++ [op]) ++ ops) := by simpa [List.append_assoc] using hd
      exact this.prefix_
    have h1 := applyOp_goodW erOk_id hg (okStepS_of_W hg.1.blob hok) ha
      (fun k => by rw [← writesOf_snoc]; exact hd1 k)
    have h2 := ih (ops0 ++ [op]) (h1.congr (fun k => (writesOf_snoc ops0 op k).symm))
      (by simpa [List.append_assoc] using hd)
    simpa [List.append_assoc] using h2

theorem goodW_init (er : Entry K → Entry K) (n : Nat) (th : Option Nat) :
    GoodW er th (TreeState.init n th : TreeState K) (writesOf []) :=
  ⟨str_init n th, fun k => by rw [curHist_init]; exact keyInv_nil er⟩

/-! ## executable checkers -/

def noWeakB (l : List (Entry K)) : Bool := l.all (fun e => e.vt != .weak)

def weakSafeB : List (Entry K) → Bool
  | [] => true
  | [e] => e.vt != .tomb
  | a :: b :: t => a.vt != .tomb && (!isValueLike a || b.vt == .weak) && weakSafeB (b :: t)

def keyDiscB (l : List (Entry K)) : Bool := noWeakB l || weakSafeB l

theorem noWeakB_iff (l : List (Entry K)) : noWeakB l = true ↔ NoWeak l := by
  simp [noWeakB, NoWeak]

theorem weakSafeB_iff (l : List (Entry K)) : weakSafeB l = true ↔ WeakSafe l := by
  induction l with
  | nil => simp [weakSafeB, WeakSafe]
  | cons a t ih =>
    cases t with
    | nil => simp [weakSafeB, WeakSafe]
    | cons b t =>
      simp only [weakSafeB, WeakSafe, Bool.and_eq_true, ih, bne_iff_ne, ne_eq, Bool.or_eq_true,
        Bool.not_eq_true', beq_iff_eq]
      cases isValueLike a <;> simp [and_assoc]

theorem keyDiscB_iff (l : List (Entry K)) : keyDiscB l = true ↔ KeyDisc l := by
  simp [keyDiscB, KeyDisc, noWeakB_iff, weakSafeB_iff]

/-- the user keys a history writes -/
def opKeys : Op K → List K
  | .write es => es.map (·.key)
  | _ => []

def opsKeys (ops : List (Op K)) : List K := ops.flatMap opKeys

theorem mem_writesOf_key {ops : List (Op K)} {k : K} {e : Entry K} (h : e ∈ writesOf ops k) : k ∈ opsKeys ops := by
  induction ops with
  | nil => cases h
  | cons op ops ih =>
    rw [writesOf, List.mem_append] at h
    rw [opsKeys, List.flatMap_cons, List.mem_append]
    rcases h with h | h
    · exact Or.inr (ih h)
    · left
      cases op <;> simp only [Op.lastWriteOf, Option.toList, List.not_mem_nil] at h
      rename_i es
      cases hb : batchGet es k with
      | none => rw [hb] at h; cases h
      | some x =>
        have hx := List.find?_some hb
        have hm := List.mem_of_find?_eq_some hb
        simp only [decide_eq_true_eq] at hx
        exact List.mem_map.2 ⟨x, hm, hx⟩

/-- `Discipline` as a Bool: only the keys the history writes need to be looked at -/
def disciplineB (ops : List (Op K)) : Bool := (opsKeys ops).all (fun k => keyDiscB (writesOf ops k))

theorem disciplineB_iff (ops : List (Op K)) : disciplineB ops = true ↔ Discipline ops := by
  simp only [disciplineB, List.all_eq_true, keyDiscB_iff]
  constructor
  · intro h k
    by_cases hk : k ∈ opsKeys ops
    · exact h k hk
    · have : writesOf ops k = [] := by
        rw [List.eq_nil_iff_forall_not_mem]
        intro e he
        exact hk (mem_writesOf_key he)
      rw [this]
      exact Or.inl (fun e he => nomatch he)
  · intro h k _
    exact h k

/-- `okStepW` as a Bool -/
def okStepWB (t : TreeState K) : Op K → Bool
  | .write es => es.all (fun e => e.vt == .value || e.vt == .tomb || e.vt == .weak) && decide ((es.map (·.key)).Nodup)
  | op => okStepB t op

theorem okStepWB_sound {t : TreeState K} {op : Op K} (h : okStepWB t op = true) : okStepW t op := by
  cases op with
  | write es =>
    simp only [okStepWB, Bool.and_eq_true, List.all_eq_true, Bool.or_eq_true, beq_iff_eq,
      decide_eq_true_eq] at h
    exact ⟨fun e he => by rcases h.1 e he with (h1 | h1) | h1 <;> simp [h1], h.2⟩
  | rotate m => exact okStepB_sound (K := K) (t := t) (op := .rotate m) h
  | flush wm m cuts => exact okStepB_sound (K := K) (t := t) (op := .flush wm m cuts) h
  | flushCommit ids wm cuts => exact okStepB_sound (K := K) (t := t) (op := .flushCommit ids wm cuts) h
  | merge ids dest wm f cuts => exact okStepB_sound (K := K) (t := t) (op := .merge ids dest wm f cuts) h
  | move ids dest wm => exact okStepB_sound (K := K) (t := t) (op := .move ids dest wm) h
  | drop ids wm => exact okStepB_sound (K := K) (t := t) (op := .drop ids wm) h
  | clear m => exact okStepB_sound (K := K) (t := t) (op := .clear m) h
  | ingest m fc items cuts => exact okStepB_sound (K := K) (t := t) (op := .ingest m fc items cuts) h
  | reopen => exact okStepB_sound (K := K) (t := t) (op := .reopen) h

/-- `okStepS` as a Bool -/
def okStepSB (t : TreeState K) : Op K → Bool
  | .write es => es.all (fun e => e.vt == .value || e.vt == .tomb || e.vt == .weak) && decide ((es.map (·.key)).Nodup)
  | .flush wm m cuts =>
    decide (0 < t.levelCount) &&
      (match (t.rotate m).latest? with
       | some sv => cutsOkB cuts (((t.rotate m).flushStream sv wm).1.map (separate t.blobTh)) sv.version
       | none => true)
  | .flushCommit ids wm cuts =>
    decide (0 < t.levelCount) && !ids.isEmpty &&
      (match t.latest? with
       | some sv => !(ids.all (fun i => sv.sealed.contains i)) ||
          (ids.isPrefixOf sv.sealed &&
            cutsOkB cuts ((cstream wm false noFilter (mergeAll (ids.map t.mem))).1.map (separate t.blobTh)) sv.version)
       | none => true)
  | op => okStepB t op

theorem okStepSB_sound {t : TreeState K} {op : Op K} (h : okStepSB t op = true) : okStepS t op := by
  cases op with
  | write es =>
    simp only [okStepSB, Bool.and_eq_true, List.all_eq_true, Bool.or_eq_true, beq_iff_eq,
      decide_eq_true_eq] at h
    exact ⟨fun e he => by rcases h.1 e he with (h1 | h1) | h1 <;> simp [h1], h.2⟩
  | flush wm m cuts =>
    simp only [okStepSB, Bool.and_eq_true, decide_eq_true_eq] at h
    refine ⟨h.1, fun sv hsv => ?_⟩
    have := h.2
    rw [hsv] at this
    exact cutsOkB_sound this
  | flushCommit ids wm cuts =>
    simp only [okStepSB, Bool.and_eq_true, decide_eq_true_eq, Bool.not_eq_true', List.isEmpty_eq_false_iff] at h
    refine ⟨h.1.1, h.1.2, fun sv hsv => ?_⟩
    have := h.2
    rw [hsv] at this
    simp only [Bool.or_eq_true, Bool.not_eq_true', Bool.and_eq_true, List.isPrefixOf_iff_prefix] at this
    rcases this with h1 | ⟨h1, h2⟩
    · exact Or.inl h1
    · exact Or.inr ⟨h1, cutsOkB_sound h2⟩
  | rotate m => exact okStepB_sound (K := K) (t := t) (op := .rotate m) h
  | merge ids dest wm f cuts => exact okStepB_sound (K := K) (t := t) (op := .merge ids dest wm f cuts) h
  | move ids dest wm => exact okStepB_sound (K := K) (t := t) (op := .move ids dest wm) h
  | drop ids wm => exact okStepB_sound (K := K) (t := t) (op := .drop ids wm) h
  | clear m => exact okStepB_sound (K := K) (t := t) (op := .clear m) h
  | ingest m fc items cuts => exact okStepB_sound (K := K) (t := t) (op := .ingest m fc items cuts) h
  | reopen => exact okStepB_sound (K := K) (t := t) (op := .reopen) h

/-- the user keys present in the sources of the latest super version -/
def stateKeys (t : TreeState K) : List K :=
  match t.latest? with
  | some sv => ((t.sources sv).flatMap (·.2)).map (·.key)
  | none => []

/-- the STATE-level consequence of the discipline, executable on an observed state: every key's version list along the
    read order of the latest super version is `KeyDisc` (no weak tombstone, or `WeakSafe`) -/
def weakSafeStateB (t : TreeState K) : Bool := (stateKeys t).all (fun k => keyDiscB (curHist t k))

theorem curHist_mem_stateKeys {t : TreeState K} {k : K} {e : Entry K} (h : e ∈ curHist t k) : k ∈ stateKeys t := by
  unfold curHist at h
  unfold stateKeys
  cases hl : t.latest? with
  | none => rw [hl] at h; cases h
  | some sv =>
    rw [hl] at h
    simp only at h ⊢
    have hk : e.key = k := keyHist_key (t := t) (sv := sv) h
    simp only [keyHist, List.mem_flatMap, mem_keyOf] at h
    obtain ⟨s, hs, he, _⟩ := h
    obtain ⟨p, hp, rfl⟩ := List.mem_map.1 hs
    exact List.mem_map.2 ⟨e, List.mem_flatMap.2 ⟨p, hp, he⟩, hk⟩

theorem weakSafeStateB_iff (t : TreeState K) : weakSafeStateB t = true ↔ ∀ k, KeyDisc (curHist t k) := by
  simp only [weakSafeStateB, List.all_eq_true, keyDiscB_iff]
  constructor
  · intro h k
    by_cases hk : k ∈ stateKeys t
    · exact h k hk
    · have : curHist t k = [] := by
        rw [List.eq_nil_iff_forall_not_mem]
        intro e he
        exact hk (curHist_mem_stateKeys he)
      rw [this]
      exact Or.inl (fun e he => nomatch he)
  · intro h k _
    exact h k

/-! ## the model-side checkers (`LsmModel.Tree.WeakCheck`, usable by the driver) are the ones above -/

theorem weakSafeListB_eq (l : List (Entry K)) : weakSafeListB l = weakSafeB l := by
  induction l with
  | nil => rfl
  | cons a t ih =>
    cases t with
    | nil => rfl
    | cons b t => simp only [weakSafeListB, weakSafeB, isValueLike, ih]

theorem keyDiscListB_eq (l : List (Entry K)) : keyDiscListB l = keyDiscB l := by
  simp only [keyDiscListB, keyDiscB, noWeakB, weakSafeListB_eq]

theorem stateWeakSafeB_eq (t : TreeState K) : stateWeakSafeB t = weakSafeStateB t := by
  unfold stateWeakSafeB weakSafeStateB stateKeys curHist
  cases t.latest? with
  | none => rfl
  | some sv => simp only [keyDiscListB_eq, keyHist]; rfl

/-! ## `Discipline` is the weakest history-level condition: before any maintenance the reader meets the writes themselves -/

theorem writesOnly_curHist {t t' : TreeState K} {ops : List (Op K)} (hr : ReachW t ops t')
    (hw : ∀ op ∈ ops, ∃ es, op = Op.write es) :
    ∀ ops0 : List (Op K), Str none t → (∀ k, curHist t k = writesOf ops0 k) →
      Str none t' ∧ ∀ k, curHist t' k = writesOf (ops0 ++ ops) k := by
  induction hr with
  | refl t => intro ops0 hs hk; exact ⟨hs, by simpa using hk⟩
  | @step t0 t1 t2 op ops hok ha _ ih =>
    intro ops0 hs hk
    obtain ⟨es, rfl⟩ := hw op List.mem_cons_self
    obtain ⟨hs1, hk1⟩ := write_str hs ha hok.2
    have := ih (fun op hop => hw op (List.mem_cons_of_mem _ hop)) (ops0 ++ [Op.write es]) hs1 (fun k => by
      rw [hk1 k, writesOf_snoc, hk k, keyOf_eq_batchGet es k hok.2]; rfl)
    simpa [List.append_assoc] using this

end Lsm
