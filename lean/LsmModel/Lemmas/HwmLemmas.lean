import LsmModel.Lemmas.ContentLemmas2
import LsmModel.Lemmas.BlockLemmas
/-
  LsmModel.Lemmas.HwmLemmas — sequence-number high-water marks (C18).

  Part 1: `maxSeqno` (a `foldl`, generalised over its accumulator), the optional maximum `optMax` (Rust's
          `Option::max`, where `None < Some _`), the order `optLe` on marks (`none` below everything).
  Part 2: the three marks of a tree state (`persistedHwm`, `memtableHwm`, `overallHwm`) exactly as the driver's
          `hwm` query computes them, and what every version transformation / state transition does to them.
  Part 3: the table writer's recorded maximum (`Meta.maxSeqno`, `metadata.seqnos.1`) is `maxSeqno` of the stream.
-/
namespace Lsm
set_option linter.unusedSectionVars false
set_option linter.unusedVariables false

/-! ## Part 1 — `maxSeqno`, `optMax`, `optLe` -/

/-- `Option::max` on `Option<SeqNo>`: `None` is the least element, hence neutral -/
def optMax : Option Nat → Option Nat → Option Nat
  | none, b => b
  | some a, none => some a
  | some a, some b => some (max a b)

/-- `iter.max()` over optional marks (`.max().flatten()` in `get_highest_memtable_seqno`) -/
def optMaxList (l : List (Option Nat)) : Option Nat := l.foldl optMax none

/-- the order on marks: `none` (nothing stored) is below everything -/
def optLe : Option Nat → Option Nat → Prop
  | none, _ => True
  | some _, none => False
  | some a, some b => a ≤ b

instance optLe.instDecidable : (a b : Option Nat) → Decidable (optLe a b)
  | none, _ => isTrue trivial
  | some _, none => isFalse id
  | some a, some b => inferInstanceAs (Decidable (a ≤ b))

theorem optMax_none_left (a : Option Nat) : optMax none a = a := rfl

theorem optMax_none_right (a : Option Nat) : optMax a none = a := by cases a <;> rfl

theorem optMax_some_some (a b : Nat) : optMax (some a) (some b) = some (max a b) := rfl

theorem optMax_assoc (a b c : Option Nat) : optMax (optMax a b) c = optMax a (optMax b c) := by
  cases a <;> cases b <;> cases c <;> simp [optMax, Nat.max_assoc]

theorem optMax_comm (a b : Option Nat) : optMax a b = optMax b a := by
  cases a <;> cases b <;> simp [optMax, Nat.max_comm]

theorem optMax_idem (a : Option Nat) : optMax a a = a := by cases a <;> simp [optMax]

theorem optMax_eq_none {a b : Option Nat} : optMax a b = none ↔ a = none ∧ b = none := by
  cases a <;> cases b <;> simp [optMax]

theorem optMax_eq_some {a b : Option Nat} {m : Nat} :
    optMax a b = some m ↔ (a = some m ∧ optLe b a) ∨ (b = some m ∧ optLe a b) := by
  cases a <;> cases b <;> simp [optMax, optLe] <;> omega

theorem optLe_refl (a : Option Nat) : optLe a a := by cases a <;> simp [optLe]

theorem optLe_trans {a b c : Option Nat} (h1 : optLe a b) (h2 : optLe b c) : optLe a c := by
  cases a <;> cases b <;> cases c <;> simp [optLe] at * <;> omega

theorem optLe_antisymm {a b : Option Nat} (h1 : optLe a b) (h2 : optLe b a) : a = b := by
  cases a <;> cases b <;> simp [optLe] at * <;> omega

theorem optLe_none (a : Option Nat) : optLe none a := trivial

theorem optLe_some_iff {a : Nat} {b : Option Nat} : optLe (some a) b ↔ ∃ m, b = some m ∧ a ≤ m := by
  cases b <;> simp [optLe]

theorem optLe_optMax_left (a b : Option Nat) : optLe a (optMax a b) := by
  cases a <;> cases b <;> simp [optMax, optLe] <;> omega

theorem optLe_optMax_right (a b : Option Nat) : optLe b (optMax a b) := by
  cases a <;> cases b <;> simp [optMax, optLe] <;> omega

theorem optMax_le {a b c : Option Nat} (h1 : optLe a c) (h2 : optLe b c) : optLe (optMax a b) c := by
  cases a <;> cases b <;> cases c <;> simp [optMax, optLe] at * <;> omega

theorem optMax_eq_right {a b : Option Nat} (h : optLe a b) : optMax a b = b := by
  cases a <;> cases b <;> simp [optMax, optLe] at * <;> omega

theorem optMax_eq_left {a b : Option Nat} (h : optLe b a) : optMax a b = a := by
  rw [optMax_comm]; exact optMax_eq_right h

variable {K : Type}

/-- one step of the `maxSeqno` fold (`fetch_max` on an initially absent mark) -/
def c18_step (acc : Option Nat) (e : Entry K) : Option Nat :=
  match acc with
  | none => some e.seqno
  | some m => some (max m e.seqno)

theorem c18_step_eq (acc : Option Nat) (e : Entry K) : c18_step acc e = optMax acc (some e.seqno) := by
  cases acc <;> rfl

theorem c18_maxSeqno_eq_foldl (l : List (Entry K)) : maxSeqno l = l.foldl c18_step none := rfl

/-- the fold generalised over its accumulator -/
theorem c18_foldl_acc (l : List (Entry K)) (acc : Option Nat) :
    l.foldl c18_step acc = optMax acc (maxSeqno l) := by
  induction l generalizing acc with
  | nil => simp [maxSeqno, optMax_none_right]
  | cons e l ih =>
    rw [c18_maxSeqno_eq_foldl, List.foldl_cons, List.foldl_cons, ih, ih, c18_step_eq, c18_step_eq, optMax_assoc]
    rfl

theorem c18_maxSeqno_nil : maxSeqno ([] : List (Entry K)) = none := rfl

theorem c18_maxSeqno_cons (e : Entry K) (l : List (Entry K)) :
    maxSeqno (e :: l) = optMax (some e.seqno) (maxSeqno l) := by
  rw [c18_maxSeqno_eq_foldl, List.foldl_cons, c18_foldl_acc]; rfl

theorem c18_maxSeqno_singleton (e : Entry K) : maxSeqno [e] = some e.seqno := rfl

/-- `maxSeqno` of a concatenation is the optional maximum of the parts -/
theorem c18_maxSeqno_append (l₁ l₂ : List (Entry K)) :
    maxSeqno (l₁ ++ l₂) = optMax (maxSeqno l₁) (maxSeqno l₂) := by
  rw [c18_maxSeqno_eq_foldl, List.foldl_append, c18_foldl_acc]; rfl

/-- `none` exactly for the empty list -/
theorem c18_maxSeqno_eq_none {l : List (Entry K)} : maxSeqno l = none ↔ l = [] := by
  cases l with
  | nil => simp [c18_maxSeqno_nil]
  | cons e l => rw [c18_maxSeqno_cons]; cases maxSeqno l <;> simp [optMax]

/-- every stored seqno is below the mark -/
theorem c18_maxSeqno_ge {l : List (Entry K)} {e : Entry K} (he : e ∈ l) : optLe (some e.seqno) (maxSeqno l) := by
  induction l with
  | nil => cases he
  | cons x l ih =>
    rw [c18_maxSeqno_cons]
    rcases List.mem_cons.1 he with rfl | h
    · exact optLe_optMax_left _ _
    · exact optLe_trans (ih h) (optLe_optMax_right _ _)

/-- the mark is attained -/
theorem c18_maxSeqno_attained {l : List (Entry K)} {m : Nat} (h : maxSeqno l = some m) : ∃ e ∈ l, e.seqno = m := by
  induction l generalizing m with
  | nil => cases h
  | cons x l ih =>
    rw [c18_maxSeqno_cons, optMax_eq_some] at h
    rcases h with ⟨h, _⟩ | ⟨h, _⟩
    · exact ⟨x, List.mem_cons_self, Option.some.inj h⟩
    · obtain ⟨e, he, hm⟩ := ih h
      exact ⟨e, List.mem_cons_of_mem _ he, hm⟩

/-- characterisation: the mark is the largest stored seqno (attained + upper bound) -/
theorem c18_maxSeqno_eq_some_iff {l : List (Entry K)} {m : Nat} :
    maxSeqno l = some m ↔ (∃ e ∈ l, e.seqno = m) ∧ ∀ e ∈ l, e.seqno ≤ m := by
  constructor
  · intro h
    refine ⟨c18_maxSeqno_attained h, fun e he => ?_⟩
    have := c18_maxSeqno_ge he
    rw [h] at this
    exact this
  · rintro ⟨⟨e, he, rfl⟩, hub⟩
    have hge := c18_maxSeqno_ge he
    obtain ⟨m, hm, hle⟩ := optLe_some_iff.1 hge
    obtain ⟨e', he', hm'⟩ := c18_maxSeqno_attained hm
    have := hub e' he'
    rw [hm]; congr 1; omega

/-- if every seqno of `l₁` is dominated by one of `l₂`, the mark of `l₁` is at most that of `l₂` -/
theorem c18_maxSeqno_le_of_dominated {l₁ l₂ : List (Entry K)}
    (h : ∀ e ∈ l₁, ∃ e' ∈ l₂, e.seqno ≤ e'.seqno) : optLe (maxSeqno l₁) (maxSeqno l₂) := by
  cases h1 : maxSeqno l₁ with
  | none => trivial
  | some m =>
    obtain ⟨e, he, rfl⟩ := c18_maxSeqno_attained h1
    obtain ⟨e', he', hle⟩ := h e he
    exact optLe_trans (b := some e'.seqno) hle (c18_maxSeqno_ge he')

theorem c18_maxSeqno_le_of_subset {l₁ l₂ : List (Entry K)} (h : ∀ e ∈ l₁, e ∈ l₂) :
    optLe (maxSeqno l₁) (maxSeqno l₂) :=
  c18_maxSeqno_le_of_dominated (fun e he => ⟨e, h e he, Nat.le_refl _⟩)

/-- the mark depends only on the set of stored seqnos -/
theorem c18_maxSeqno_congr_seqnos {l₁ l₂ : List (Entry K)}
    (h12 : ∀ e ∈ l₁, ∃ e' ∈ l₂, e.seqno ≤ e'.seqno) (h21 : ∀ e ∈ l₂, ∃ e' ∈ l₁, e.seqno ≤ e'.seqno) :
    maxSeqno l₁ = maxSeqno l₂ :=
  optLe_antisymm (c18_maxSeqno_le_of_dominated h12) (c18_maxSeqno_le_of_dominated h21)

/-- permutation invariance -/
theorem c18_maxSeqno_perm {l₁ l₂ : List (Entry K)} (h : l₁.Perm l₂) : maxSeqno l₁ = maxSeqno l₂ :=
  optLe_antisymm (c18_maxSeqno_le_of_subset (fun e he => h.subset he))
    (c18_maxSeqno_le_of_subset (fun e he => h.symm.subset he))

/-- mapping entries without touching their seqnos keeps the mark -/
theorem c18_maxSeqno_map_of_seqno (g : Entry K → Entry K) (hg : ∀ e, (g e).seqno = e.seqno) (l : List (Entry K)) :
    maxSeqno (l.map g) = maxSeqno l := by
  induction l with
  | nil => rfl
  | cons e l ih => rw [List.map_cons, c18_maxSeqno_cons, c18_maxSeqno_cons, ih, hg]

/-- shifting every seqno by `g` (a table's global seqno) shifts the mark -/
theorem c18_maxSeqno_map_shift (g : Nat) (l : List (Entry K)) :
    maxSeqno (l.map (fun e => { e with seqno := e.seqno + g })) = (maxSeqno l).map (· + g) := by
  induction l with
  | nil => rfl
  | cons e l ih =>
    rw [List.map_cons, c18_maxSeqno_cons, c18_maxSeqno_cons, ih]
    cases maxSeqno l <;> simp [optMax]

theorem c18_optMaxList_acc (l : List (Option Nat)) (acc : Option Nat) :
    l.foldl optMax acc = optMax acc (optMaxList l) := by
  induction l generalizing acc with
  | nil => simp [optMaxList, optMax_none_right]
  | cons a l ih =>
    rw [optMaxList, List.foldl_cons, List.foldl_cons, ih, ih (optMax none a), optMax_assoc]
    rfl

theorem optMaxList_nil : optMaxList [] = none := rfl

theorem optMaxList_cons (a : Option Nat) (l : List (Option Nat)) :
    optMaxList (a :: l) = optMax a (optMaxList l) := by
  rw [optMaxList, List.foldl_cons, c18_optMaxList_acc]; rfl

theorem optMaxList_append (l₁ l₂ : List (Option Nat)) :
    optMaxList (l₁ ++ l₂) = optMax (optMaxList l₁) (optMaxList l₂) := by
  induction l₁ with
  | nil => rfl
  | cons a l ih => rw [List.cons_append, optMaxList_cons, optMaxList_cons, ih, optMax_assoc]

/-- every member is below the list maximum -/
theorem optMaxList_ge {l : List (Option Nat)} {a : Option Nat} (h : a ∈ l) : optLe a (optMaxList l) := by
  induction l with
  | nil => cases h
  | cons x l ih =>
    rw [optMaxList_cons]
    rcases List.mem_cons.1 h with rfl | h
    · exact optLe_optMax_left _ _
    · exact optLe_trans (ih h) (optLe_optMax_right _ _)

/-- the list maximum is one of the members (when there is one) -/
theorem optMaxList_mem {l : List (Option Nat)} {m : Nat} (h : optMaxList l = some m) : some m ∈ l := by
  induction l generalizing m with
  | nil => cases h
  | cons x l ih =>
    rw [optMaxList_cons, optMax_eq_some] at h
    rcases h with ⟨h, _⟩ | ⟨h, _⟩
    · rw [h]; exact List.mem_cons_self
    · exact List.mem_cons_of_mem _ (ih h)

/-- `maxSeqno` of a `flatMap` is the maximum over the parts' own maxima -/
theorem c18_maxSeqno_flatMap {α : Type} (f : α → List (Entry K)) (l : List α) :
    maxSeqno (l.flatMap f) = optMaxList (l.map (fun x => maxSeqno (f x))) := by
  induction l with
  | nil => rfl
  | cons x l ih => rw [List.flatMap_cons, c18_maxSeqno_append, List.map_cons, optMaxList_cons, ih]

theorem c18_maxSeqno_flatten (L : List (List (Entry K))) : maxSeqno L.flatten = optMaxList (L.map maxSeqno) := by
  have := c18_maxSeqno_flatMap (fun x : List (Entry K) => x) L
  simpa [List.flatMap_id'] using this

/-! ## Part 2 — the marks of a tree state -/

/-- mark of a version: the largest (effective) seqno stored in any of its tables -/
def versionHwm (v : Version K) : Option Nat := maxSeqno (v.tables.flatMap (·.entries))

/-- `get_highest_persisted_seqno` — literally the `persisted=` field of the driver's `hwm` query -/
def persistedHwm (t : TreeState K) : Option Nat :=
  match t.latest? with
  | some sv => maxSeqno (sv.version.tables.flatMap (·.entries))
  | none => none

/-- `get_highest_memtable_seqno` — literally the `memtable=` field of the driver's `hwm` query -/
def memtableHwm (t : TreeState K) : Option Nat :=
  match t.latest? with
  | some sv => maxSeqno ((sv.active :: sv.sealed).flatMap t.mem)
  | none => none

/-- `get_highest_seqno` = `memtable_seqno.max(table_seqno)` -/
def overallHwm (t : TreeState K) : Option Nat := optMax (memtableHwm t) (persistedHwm t)

theorem persistedHwm_of_latest {t : TreeState K} {sv : SuperVersion K} (h : t.latest? = some sv) :
    persistedHwm t = versionHwm sv.version := by
  simp [persistedHwm, h, versionHwm]

theorem memtableHwm_of_latest {t : TreeState K} {sv : SuperVersion K} (h : t.latest? = some sv) :
    memtableHwm t = maxSeqno ((sv.active :: sv.sealed).flatMap t.mem) := by
  simp [memtableHwm, h]

theorem versionHwm_eq_some_iff {v : Version K} {m : Nat} :
    versionHwm v = some m ↔
      (∃ tb ∈ v.tables, ∃ e ∈ tb.entries, e.seqno = m) ∧ ∀ tb ∈ v.tables, ∀ e ∈ tb.entries, e.seqno ≤ m := by
  rw [versionHwm, c18_maxSeqno_eq_some_iff]
  simp only [List.mem_flatMap]
  constructor
  · rintro ⟨⟨e, ⟨tb, htb, he⟩, hm⟩, hub⟩
    exact ⟨⟨tb, htb, e, he, hm⟩, fun tb htb e he => hub e ⟨tb, htb, he⟩⟩
  · rintro ⟨⟨tb, htb, e, he, hm⟩, hub⟩
    exact ⟨⟨e, ⟨tb, htb, he⟩, hm⟩, fun e ⟨tb, htb, he⟩ => hub tb htb e he⟩

theorem versionHwm_eq_none_iff {v : Version K} : versionHwm v = none ↔ ∀ tb ∈ v.tables, tb.entries = [] := by
  rw [versionHwm, c18_maxSeqno_eq_none, List.flatMap_eq_nil_iff]

/-- what the real code computes: the maximum over the tables of each table's own (metadata) maximum -/
theorem versionHwm_per_table (v : Version K) :
    versionHwm v = optMaxList (v.tables.map (fun tb => maxSeqno tb.entries)) :=
  c18_maxSeqno_flatMap _ _

theorem versionHwm_perm {v v' : Version K} (h : v'.tables.Perm v.tables) : versionHwm v' = versionHwm v :=
  c18_maxSeqno_perm (h.flatMap_right _)

theorem versionHwm_le_of_subset {v v' : Version K} (h : ∀ tb ∈ v.tables, tb ∈ v'.tables) :
    optLe (versionHwm v) (versionHwm v') := by
  apply c18_maxSeqno_le_of_subset
  intro e he
  obtain ⟨tb, htb, he⟩ := List.mem_flatMap.1 he
  exact List.mem_flatMap.2 ⟨tb, h tb htb, he⟩

section Tree
variable [LT K] [DecidableLT K] [DecidableEq K] [LE K] [Std.IsLinearOrder K] [Std.LawfulOrderLT K]

/-- `with_new_l0_run` on a version with at least one level: the new mark is the maximum of the new run's and the
    old mark -/
theorem versionHwm_withNewL0Run (v : Version K) (nt : Run K) (h0 : 0 < v.levels.length) :
    versionHwm (v.withNewL0Run nt) = optMax (maxSeqno (nt.flatMap (·.entries))) (versionHwm v) := by
  rw [versionHwm, c18_maxSeqno_perm ((withNewL0Run_tables_perm v nt h0).flatMap_right _), List.flatMap_append,
    c18_maxSeqno_append]
  rfl

/-- a version without levels stays without tables -/
theorem versionHwm_withNewL0Run_nolevels (v : Version K) (nt : Run K) (h0 : v.levels = []) :
    versionHwm (v.withNewL0Run nt) = none ∧ versionHwm v = none := by
  simp [versionHwm, Version.withNewL0Run, Version.tables, h0, c18_maxSeqno_nil]

/-- `with_new_l0_run` never lowers the mark (no hypothesis) -/
theorem versionHwm_withNewL0Run_le (v : Version K) (nt : Run K) :
    optLe (versionHwm v) (versionHwm (v.withNewL0Run nt)) := by
  by_cases h0 : 0 < v.levels.length
  · rw [versionHwm_withNewL0Run v nt h0]; exact optLe_optMax_right _ _
  · have : v.levels = [] := List.eq_nil_of_length_eq_zero (by omega)
    rw [(versionHwm_withNewL0Run_nolevels v nt this).2]; trivial

/-- `with_moved` into an existing level keeps the mark -/
theorem versionHwm_withMoved (v : Version K) (ids : List Nat) (dest : Nat) (hdest : dest < v.levels.length) :
    versionHwm (v.withMoved ids dest) = versionHwm v :=
  versionHwm_perm (withMoved_tables_perm v ids dest hdest)

/-- `with_dropped` can only lower the mark -/
theorem versionHwm_withDropped_le (v : Version K) (ids : List Nat) :
    optLe (versionHwm (v.withDropped ids)) (versionHwm v) := by
  apply versionHwm_le_of_subset
  intro tb htb
  exact (List.mem_filter.1 ((withDropped_tables_perm v ids).subset htb)).1

/-- the tables of `with_merge` are surviving old tables or new tables (whether or not `dest` is a level) -/
theorem c18_withMerge_tables_sub (v : Version K) (ids : List Nat) (nt : Run K) (dest : Nat) :
    ∀ tb ∈ (v.withMerge ids nt dest).tables, (tb ∈ v.tables ∧ ids.contains tb.id = false) ∨ tb ∈ nt := by
  intro tb htb
  by_cases hdest : dest < v.levels.length
  · have := (withMerge_tables_perm v ids nt dest hdest).subset htb
    rcases List.mem_append.1 this with h | h
    · left; simpa using List.mem_filter.1 h
    · exact Or.inr h
  · have := (withMerge_tables_perm_of_ge v ids nt dest (by omega)).subset htb
    left; simpa using List.mem_filter.1 this

/-- `with_merge` whose new tables hold only seqnos already stored never raises the mark -/
theorem versionHwm_withMerge_le (v : Version K) (ids : List Nat) (nt : Run K) (dest : Nat)
    (hnt : ∀ x ∈ nt.flatMap (·.entries), ∃ tb ∈ v.tables, ∃ e ∈ tb.entries, x.seqno ≤ e.seqno) :
    optLe (versionHwm (v.withMerge ids nt dest)) (versionHwm v) := by
  apply c18_maxSeqno_le_of_dominated
  intro x hx
  obtain ⟨tb, htb, hx⟩ := List.mem_flatMap.1 hx
  rcases c18_withMerge_tables_sub v ids nt dest tb htb with ⟨h, _⟩ | h
  · exact ⟨x, List.mem_flatMap.2 ⟨tb, h, hx⟩, Nat.le_refl _⟩
  · obtain ⟨tb', htb', e, he, hle⟩ := hnt x (List.mem_flatMap.2 ⟨tb, h, hx⟩)
    exact ⟨e, List.mem_flatMap.2 ⟨tb', htb', he⟩, hle⟩

/-- every compaction input entry is stored in an input table -/
theorem c18_mergeInputs_mem {v : Version K} {ids : List Nat} {e : Entry K} (h : e ∈ mergeInputs v ids) :
    ∃ tb ∈ v.tables, ids.contains tb.id = true ∧ e ∈ tb.entries := by
  rw [mergeInputs, mem_mergeAll] at h
  obtain ⟨s, hs, he⟩ := h
  obtain ⟨r, hr, rfl⟩ := List.mem_map.1 hs
  obtain ⟨tb, htb, he⟩ := List.mem_flatMap.1 he
  obtain ⟨htb, hid⟩ := List.mem_filter.1 htb
  exact ⟨tb, List.mem_flatten.2 ⟨r, hr, htb⟩, hid, he⟩

/-- … and every entry of an input table is a compaction input -/
theorem c18_mem_mergeInputs {v : Version K} {ids : List Nat} {e : Entry K} {tb : TableM K} (htb : tb ∈ v.tables)
    (hid : ids.contains tb.id = true) (he : e ∈ tb.entries) : e ∈ mergeInputs v ids := by
  rw [mergeInputs, mem_mergeAll]
  obtain ⟨r, hr, htb⟩ := List.mem_flatten.1 htb
  exact ⟨_, List.mem_map.2 ⟨r, hr, rfl⟩, List.mem_flatMap.2 ⟨tb, List.mem_filter.2 ⟨htb, hid⟩, he⟩⟩

/-- the GC stream invents no seqno: every output entry carries the seqno of an input entry (a compaction filter
    that REPLACES a value keeps key and seqno: `Verdict.replace vt v` only changes type and value) -/
theorem c18_cstream_seqno_mem (wm : Nat) (ev : Bool) (f : Entry K → Verdict) (l : List (Entry K)) :
    ∀ x ∈ (cstream wm ev f l).1, ∃ e ∈ l, x.seqno = e.seqno ∧ x.key = e.key := by
  intro x hx
  have := (cstream_sub_filter wm ev f l).subset hx
  obtain ⟨e, he, rfl⟩ := List.mem_map.1 this
  exact ⟨e, he, filtered_seqno f e, filtered_key f e⟩


/-! ### state transitions -/

theorem c18_separate_seqno (th : Option Nat) (e : Entry K) : (separate th e).seqno = e.seqno := by
  unfold separate
  split
  · split <;> rfl
  · rfl

theorem persistedHwm_install (t : TreeState K) (sv : SuperVersion K) (wm : Nat) :
    persistedHwm (t.install sv wm) = versionHwm sv.version := by
  rw [persistedHwm_of_latest (latest_install t sv wm)]

/-- the mark of freshly cut tables is the mark of the stream they were cut from -/
theorem c18_cut_hwm {cuts : List (Nat × Nat)} {l : List (Entry K)} {g : Nat} {ts : List (TableM K)}
    (h : cutTables cuts l g = some ts) : maxSeqno (ts.flatMap (·.entries)) = maxSeqno l := by
  rw [cutTables_entries h]

/-- `flush` never lowers the persisted mark -/
theorem flushSealed_persistedHwm_le {t t' : TreeState K} {wm : Nat} {cuts : List (Nat × Nat)} {sep : Bool}
    (h : t.flushSealed wm cuts sep = some t') : optLe (persistedHwm t) (persistedHwm t') := by
  unfold TreeState.flushSealed at h
  cases hl : t.latest? with
  | none => rw [hl] at h; cases h
  | some sv =>
    rw [hl] at h
    simp only at h
    split at h
    · split at h
      · cases h; exact optLe_refl _
      · cases h
    · split at h
      · cases h
      · cases h
        rw [persistedHwm_install, persistedHwm_of_latest hl]
        exact versionHwm_withNewL0Run_le _ _

/-- … and when the tree has a level 0 the new mark is exactly the maximum of the flushed stream's and the old one -/
theorem flushSealed_persistedHwm {t t' : TreeState K} {wm : Nat} {cuts : List (Nat × Nat)} {sep : Bool}
    {sv : SuperVersion K} (hl : t.latest? = some sv) (hs : sv.sealed ≠ []) (h0 : 0 < sv.version.levels.length)
    (h : t.flushSealed wm cuts sep = some t') :
    persistedHwm t' = optMax (maxSeqno (t.flushStream sv wm).1) (persistedHwm t) := by
  unfold TreeState.flushSealed at h
  rw [hl] at h
  simp only at h
  rw [if_neg (by simpa using hs)] at h
  split at h
  · cases h
  · next tables hcut =>
    cases h
    rw [persistedHwm_install, persistedHwm_of_latest hl]
    show versionHwm (sv.version.withNewL0Run tables) = _
    rw [versionHwm_withNewL0Run _ _ h0, c18_cut_hwm hcut, c18_maxSeqno_map_of_seqno _ (c18_separate_seqno _)]

/-- the commit of a concurrent flush never lowers the persisted mark -/
theorem flushCommit_persistedHwm_le {t t' : TreeState K} {ids : List Nat} {wm : Nat} {cuts : List (Nat × Nat)}
    (h : t.flushCommit ids wm cuts = some t') : optLe (persistedHwm t) (persistedHwm t') := by
  unfold TreeState.flushCommit at h
  cases hl : t.latest? with
  | none => rw [hl] at h; cases h
  | some sv =>
    rw [hl] at h
    simp only at h
    split at h
    · cases h
    · split at h
      · cases h; exact optLe_refl _
      · split at h
        · cases h
        · cases h
          rw [persistedHwm_install, persistedHwm_of_latest hl]
          exact versionHwm_withNewL0Run_le _ _

/-- bulk ingestion never lowers the persisted mark -/
theorem ingestCommit_persistedHwm_le {t t' : TreeState K} {items : List (Entry K)} {cuts : List (Nat × Nat)}
    (h : t.ingestCommit items cuts = some t') : optLe (persistedHwm t) (persistedHwm t') := by
  unfold TreeState.ingestCommit at h
  cases hl : t.latest? with
  | none => rw [hl] at h; cases h
  | some sv =>
    rw [hl] at h
    simp only at h
    split at h
    · cases h
    · cases h
      rw [persistedHwm_install, persistedHwm_of_latest hl]
      exact versionHwm_withNewL0Run_le _ _

/-- … with a level 0: the new mark is the maximum of the old one and `local max + g`, `g` the global seqno drawn
    from the counter -/
theorem ingestCommit_persistedHwm {t t' : TreeState K} {items : List (Entry K)} {cuts : List (Nat × Nat)}
    {sv : SuperVersion K} (hl : t.latest? = some sv) (h0 : 0 < sv.version.levels.length)
    (h : t.ingestCommit items cuts = some t') :
    persistedHwm t' = optMax ((maxSeqno items).map (· + t.seqCtr)) (persistedHwm t) := by
  unfold TreeState.ingestCommit at h
  rw [hl] at h
  simp only at h
  split at h
  · cases h
  · next tables hcut =>
    cases h
    rw [persistedHwm_install, persistedHwm_of_latest hl]
    show versionHwm (sv.version.withNewL0Run tables) = _
    rw [versionHwm_withNewL0Run _ _ h0, c18_cut_hwm hcut, ← c18_maxSeqno_map_shift]
    have : items.map (fun (e : Entry K) => separate t.blobTh { e with seqno := e.seqno + t.seqCtr })
        = (items.map (fun e => { e with seqno := e.seqno + t.seqCtr })).map (separate t.blobTh) := by
      rw [List.map_map]; rfl
    rw [this, c18_maxSeqno_map_of_seqno _ (c18_separate_seqno _)]

/-- `move_tables` into an existing level keeps the persisted mark -/
theorem moveCommit_persistedHwm {t t' : TreeState K} {ids : List Nat} {dest wm : Nat}
    (hdest : ∀ sv, t.latest? = some sv → dest < sv.version.levels.length)
    (h : t.moveCommit ids dest wm = some t') : persistedHwm t' = persistedHwm t := by
  unfold TreeState.moveCommit at h
  cases hl : t.latest? with
  | none => rw [hl] at h; cases h
  | some sv =>
    rw [hl] at h
    cases h
    rw [persistedHwm_install, persistedHwm_of_latest hl]
    exact versionHwm_withMoved _ _ _ (hdest sv hl)

/-- `drop_tables` never raises the persisted mark -/
theorem dropCommit_persistedHwm_le {t t' : TreeState K} {ids : List Nat} {wm : Nat}
    (h : t.dropCommit ids wm = some t') : optLe (persistedHwm t') (persistedHwm t) := by
  unfold TreeState.dropCommit at h
  cases hl : t.latest? with
  | none => rw [hl] at h; cases h
  | some sv =>
    rw [hl] at h
    cases h
    rw [persistedHwm_install, persistedHwm_of_latest hl]
    exact versionHwm_withDropped_le _ _

/-- a merge (any watermark, any filter, any destination, with or without tombstone eviction) never raises the
    persisted mark -/
theorem mergeCommit_persistedHwm_le {t t' : TreeState K} {ids : List Nat} {dest wm : Nat} {f : Entry K → Verdict}
    {cuts : List (Nat × Nat)} (h : t.mergeCommit ids dest wm f cuts = some t') :
    optLe (persistedHwm t') (persistedHwm t) := by
  unfold TreeState.mergeCommit at h
  cases hl : t.latest? with
  | none => rw [hl] at h; cases h
  | some sv =>
    rw [hl] at h
    simp only at h
    split at h
    · cases h
    · next tables hcut =>
      cases h
      rw [persistedHwm_install, persistedHwm_of_latest hl]
      apply versionHwm_withMerge_le
      intro x hx
      rw [cutTables_entries hcut] at hx
      obtain ⟨e, he, hs, _⟩ := c18_cstream_seqno_mem _ _ _ _ x hx
      obtain ⟨tb, htb, _, he⟩ := c18_mergeInputs_mem he
      exact ⟨tb, htb, e, he, Nat.le_of_eq hs⟩

/-- reopen: the persisted mark is unchanged, the memtables are gone -/
theorem c18_reopen_hwm {t t' : TreeState K} (h : t.reopen = some t') :
    persistedHwm t' = persistedHwm t ∧ memtableHwm t' = none := by
  unfold TreeState.reopen at h
  cases hl : t.latest? with
  | none => rw [hl] at h; cases h
  | some sv =>
    rw [hl] at h
    cases h
    constructor
    · rw [persistedHwm_of_latest hl]; rfl
    · rfl


/-! ### the marks stay below the seqno counter -/

theorem c18_goodSv_tables_below {t : TreeState K} {sv : SuperVersion K} (hg : GoodSv t sv) :
    ∀ tb ∈ sv.version.tables, ∀ e ∈ tb.entries, e.seqno < t.seqCtr := by
  intro tb htb e he
  apply hg.below e.key e
  rw [keyHist_eq, List.mem_append]
  exact Or.inr (mem_tabHist.2 ⟨rfl, tb, htb, he⟩)

theorem c18_goodSv_mems_below {t : TreeState K} {sv : SuperVersion K} (hg : GoodSv t sv) :
    ∀ id ∈ sv.active :: sv.sealed, ∀ e ∈ t.mem id, e.seqno < t.seqCtr := by
  intro id hid e he
  apply hg.below e.key e
  rw [keyHist_eq, List.mem_append]
  refine Or.inl (mem_memHist.2 ⟨rfl, ?_⟩)
  rcases List.mem_cons.1 hid with rfl | h
  · exact Or.inl he
  · exact Or.inr ⟨id, h, he⟩

/-- only what is needed: every table entry of the latest version is below the counter -/
theorem persistedHwm_lt_of_below {t : TreeState K} {sv : SuperVersion K} (hl : t.latest? = some sv)
    (hb : ∀ tb ∈ sv.version.tables, ∀ e ∈ tb.entries, e.seqno < t.seqCtr) {m : Nat}
    (h : persistedHwm t = some m) : m < t.seqCtr := by
  rw [persistedHwm_of_latest hl, versionHwm_eq_some_iff] at h
  obtain ⟨⟨tb, htb, e, he, rfl⟩, _⟩ := h
  exact hb tb htb e he

theorem memtableHwm_lt_of_below {t : TreeState K} {sv : SuperVersion K} (hl : t.latest? = some sv)
    (hb : ∀ id ∈ sv.active :: sv.sealed, ∀ e ∈ t.mem id, e.seqno < t.seqCtr) {m : Nat}
    (h : memtableHwm t = some m) : m < t.seqCtr := by
  rw [memtableHwm_of_latest hl] at h
  obtain ⟨e, he, rfl⟩ := c18_maxSeqno_attained h
  obtain ⟨id, hid, he⟩ := List.mem_flatMap.1 he
  exact hb id hid e he

/-! ### a merge keeps the mark when its carrier survives -/

theorem c18_filter_flatMap_sublist {α β : Type} (p : α → Bool) (g : α → List β) (l : List α) :
    ((l.filter p).flatMap g).Sublist (l.flatMap g) := by
  induction l with
  | nil => simp
  | cons a l ih =>
    rw [List.filter_cons]
    split
    · rw [List.flatMap_cons, List.flatMap_cons]; exact List.Sublist.append_left ih _ |>.trans (by simp)
    · rw [List.flatMap_cons]; exact ih.trans (List.sublist_append_right _ _)

/-- in a source, an entry with the largest seqno is the newest version of its key -/
theorem c18_source_head_of_max {l : List (Entry K)} (hs : IsSource l) {e : Entry K} (he : e ∈ l)
    (hmax : ∀ x ∈ l, x.seqno ≤ e.seqno) : ∃ rest, keyOf e.key l = e :: rest := by
  have hd := hs.desc_keyOf e.key
  have hmem : e ∈ keyOf e.key l := mem_keyOf.2 ⟨he, rfl⟩
  cases hk : keyOf e.key l with
  | nil => rw [hk] at hmem; cases hmem
  | cons x rest =>
    rw [hk] at hmem hd
    rcases List.mem_cons.1 hmem with rfl | hin
    · exact ⟨rest, rfl⟩
    · have h1 := (List.pairwise_cons.1 hd).1 e hin
      have hx : x ∈ l := (mem_keyOf.1 (hk ▸ List.mem_cons_self : x ∈ keyOf e.key l)).1
      have := hmax x hx
      omega

/-- the GC stream emits the (filtered) entry that carries the largest seqno of a sorted input whenever that entry
    survives the filter as a non-tombstone: any watermark, with or without tombstone eviction -/
theorem c18_cstream_keeps_max (wm : Nat) (ev : Bool) (f : Entry K → Verdict) {l : List (Entry K)} (hs : IsSource l)
    {e head : Entry K} {pre : List (Entry K)} (he : e ∈ l) (hmax : ∀ x ∈ l, x.seqno ≤ e.seqno)
    (hf : filterHead f e = (some head, pre)) (hnt : head.isTomb = false) :
    head ∈ (cstream wm ev f l).1 := by
  obtain ⟨rest, hrest⟩ := c18_source_head_of_max hs he hmax
  have hk : SingleKey e.key (e :: rest) := hrest ▸ singleKey_keyOf e.key l
  have hh := cstream_head_of_nontomb wm ev f e.key e head rest pre hk hf hnt
  have hi := (cstream_key_indep wm ev f e.key l hs.keysSorted).1
  rw [hrest] at hi
  have : head ∈ keyOf e.key (cstream wm ev f l).1 := by
    rw [hi]; exact List.mem_of_mem_head? hh
  exact (mem_keyOf.1 this).1

/-- if an entry carrying the persisted mark survives the compaction filter as a non-tombstone (in particular:
    it is a value and the filter keeps it), a merge into an existing level leaves the mark unchanged -/
theorem mergeCommit_persistedHwm_keep {t t' : TreeState K} {ids : List Nat} {dest wm : Nat} {f : Entry K → Verdict}
    {cuts : List (Nat × Nat)} {sv : SuperVersion K} (hl : t.latest? = some sv) (hv : sv.version.WF)
    (hord : ∀ k, Desc (tabHist sv.version k)) (hdest : dest < sv.version.levels.length)
    (h : t.mergeCommit ids dest wm f cuts = some t')
    {tb : TableM K} {e head : Entry K} {pre : List (Entry K)} (htb : tb ∈ sv.version.tables) (he : e ∈ tb.entries)
    (hm : persistedHwm t = some e.seqno) (hf : filterHead f e = (some head, pre)) (hnt : head.isTomb = false) :
    persistedHwm t' = persistedHwm t := by
  refine optLe_antisymm (mergeCommit_persistedHwm_le h) ?_
  unfold TreeState.mergeCommit at h
  rw [hl] at h
  simp only at h
  split at h
  · cases h
  · next tables hcut =>
    cases h
    have hub : ∀ tb ∈ sv.version.tables, ∀ x ∈ tb.entries, x.seqno ≤ e.seqno := by
      rw [persistedHwm_of_latest hl, versionHwm_eq_some_iff] at hm
      exact hm.2
    rw [hm, persistedHwm_install]
    show optLe (some e.seqno) (versionHwm (sv.version.withMerge ids tables dest))
    have hperm := withMerge_tables_perm sv.version ids tables dest hdest
    by_cases hid : ids.contains tb.id = true
    · -- the carrier is an input of the merge: it is the head of its key and survives
      have hdesc : ∀ k, Desc ((sv.version.tables.filter (fun t => ids.contains t.id)).flatMap
          (fun t => keyOf k t.entries)) :=
        fun k => Desc.sublist (c18_filter_flatMap_sublist _ _ _) (hord k)
      obtain ⟨hsrc, _⟩ := mergeInputs_spec hv ids hdesc
      have hin : e ∈ mergeInputs sv.version ids := c18_mem_mergeInputs htb hid he
      have hmax : ∀ x ∈ mergeInputs sv.version ids, x.seqno ≤ e.seqno := by
        intro x hx
        obtain ⟨tb', htb', _, hx⟩ := c18_mergeInputs_mem hx
        exact hub tb' htb' x hx
      have hout := c18_cstream_keeps_max wm (dest + 1 == t.levelCount) f hsrc hin hmax hf hnt
      rw [← cutTables_entries hcut] at hout
      obtain ⟨nt, hnt', hhead⟩ := List.mem_flatMap.1 hout
      have : head ∈ (sv.version.withMerge ids tables dest).tables.flatMap (·.entries) :=
        List.mem_flatMap.2 ⟨nt, hperm.symm.subset (List.mem_append_right _ hnt'), hhead⟩
      have hge := c18_maxSeqno_ge this
      rw [(filterHead_some hf).2.1] at hge
      exact hge
    · -- the carrier's table is not an input: it stays
      have : e ∈ (sv.version.withMerge ids tables dest).tables.flatMap (·.entries) :=
        List.mem_flatMap.2 ⟨tb, hperm.symm.subset (List.mem_append_left _
          (List.mem_filter.2 ⟨htb, by simpa using hid⟩)), he⟩
      exact c18_maxSeqno_ge this


/-! ### the memtable mark -/

/-- `Memtable::insert` is a `fetch_max` on the mark (an entry replaced by `SkipMap::insert` has the same seqno) -/
theorem c18_maxSeqno_memInsert (e : Entry K) (l : List (Entry K)) :
    maxSeqno (memInsert e l) = optMax (some e.seqno) (maxSeqno l) := by
  induction l with
  | nil => rfl
  | cons x xs ih =>
    unfold memInsert
    split
    · rw [c18_maxSeqno_cons]
    · split
      · next _ heq =>
        have hx : x.seqno = e.seqno := by
          simp only [ikEq, Bool.and_eq_true, decide_eq_true_eq] at heq
          exact heq.2.symm
        rw [c18_maxSeqno_cons, c18_maxSeqno_cons, hx, ← optMax_assoc, optMax_idem]
      · rw [c18_maxSeqno_cons, ih, c18_maxSeqno_cons, ← optMax_assoc, ← optMax_assoc, optMax_comm (some x.seqno)]

theorem c18_maxSeqno_foldl_memInsert (es l : List (Entry K)) :
    maxSeqno (es.foldl (fun acc e => memInsert e acc) l) = optMax (maxSeqno es) (maxSeqno l) := by
  induction es generalizing l with
  | nil => rfl
  | cons e es ih =>
    rw [List.foldl_cons, ih, c18_maxSeqno_memInsert, c18_maxSeqno_cons, ← optMax_assoc, optMax_comm (maxSeqno es)]

/-- `get_highest_memtable_seqno` as the real code computes it: the active memtable's mark against the maximum of
    the sealed memtables' marks -/
theorem memtableHwm_per_memtable {t : TreeState K} {sv : SuperVersion K} (hl : t.latest? = some sv) :
    memtableHwm t = optMax (maxSeqno (t.mem sv.active)) (optMaxList (sv.sealed.map (fun id => maxSeqno (t.mem id)))) := by
  rw [memtableHwm_of_latest hl, c18_maxSeqno_flatMap, List.map_cons, optMaxList_cons]

/-- a write batch raises the memtable mark to (at least) its seqno -/
theorem c18_write_memtableHwm {t t' : TreeState K} {sv : SuperVersion K} (hl : t.latest? = some sv)
    (hact : ∃ m ∈ t.mems, m.id = sv.active) (hnin : sv.active ∉ sv.sealed) {es : List (Entry K)}
    (hw : t.write es = some t') :
    memtableHwm t' = optMax (maxSeqno es) (memtableHwm t) ∧ persistedHwm t' = persistedHwm t := by
  unfold TreeState.write at hw
  rw [hl] at hw
  simp only at hw
  split at hw
  · cases hw
    generalize ht' : ({ t with
        mems := t.mems.map (fun m => if m.id == sv.active then
          { m with entries := es.foldl (fun acc e => memInsert e acc) m.entries } else m),
        seqCtr := t.seqCtr + 1, visible := max t.visible (t.seqCtr + 1) } : TreeState K) = t'
    have hmem_ne : ∀ id, id ≠ sv.active → t'.mem id = t.mem id := by
      intro id hne; subst ht'
      exact memOf_map_ne sv.active (fun l => es.foldl (fun acc e => memInsert e acc) l) t.mems id hne
    have hmem_eq : t'.mem sv.active = es.foldl (fun acc e => memInsert e acc) (t.mem sv.active) := by
      subst ht'
      exact memOf_map_eq sv.active (fun l => es.foldl (fun acc e => memInsert e acc) l) t.mems hact
    have hl' : t'.latest? = some sv := by subst ht'; exact hl
    refine ⟨?_, by rw [persistedHwm_of_latest hl', persistedHwm_of_latest hl]⟩
    rw [memtableHwm_per_memtable hl', memtableHwm_per_memtable hl, hmem_eq, c18_maxSeqno_foldl_memInsert, optMax_assoc]
    congr 3
    apply List.map_congr_left
    intro id hid
    rw [hmem_ne id (fun h => hnin (h ▸ hid))]
  · cases hw


/-- `rotate_memtable` touches neither mark (the fresh active memtable is empty) -/
theorem c18_rotate_hwm (t : TreeState K) (n : Nat) (hf : t.freshMem n = true) :
    persistedHwm (t.rotate n) = persistedHwm t ∧ memtableHwm (t.rotate n) = memtableHwm t := by
  rcases rotate_cases t n with h | ⟨r, sv, hh, h⟩
  · rw [h]; exact ⟨rfl, rfl⟩
  · have hl : t.latest? = some sv := by rw [TreeState.latest?, hh]; simp
    have hl' : (t.rotate n).latest? = some { sv with active := n, sealed := sv.sealed ++ [sv.active] } := by
      rw [h, TreeState.latest?]; simp
    have hmem : ∀ id, (t.rotate n).mem id = t.mem id := by
      intro id; rw [h]; exact memOf_append_empty t.mems n id
    refine ⟨by rw [persistedHwm_of_latest hl', persistedHwm_of_latest hl], ?_⟩
    rw [memtableHwm_of_latest hl', memtableHwm_of_latest hl]
    have : (fun id => (t.rotate n).mem id) = t.mem := funext hmem
    show maxSeqno ((n :: (sv.sealed ++ [sv.active])).flatMap (fun id => (t.rotate n).mem id)) = _
    rw [this, List.flatMap_cons, mem_fresh t n hf, List.nil_append]
    exact c18_maxSeqno_perm (List.Perm.flatMap_right _ (List.perm_append_comm))

/-- in a `Good` state a non-empty write batch (all entries carry the current counter value, P1) makes the memtable
    mark and the overall mark equal to that value, i.e. the new counter minus one -/
theorem c18_write_hwm_good {t t' : TreeState K} (hg : Good t) {es : List (Entry K)} (hne : es ≠ [])
    (hw : t.write es = some t') :
    memtableHwm t' = some t.seqCtr ∧ overallHwm t' = some t.seqCtr ∧ persistedHwm t' = persistedHwm t ∧
      t'.seqCtr = t.seqCtr + 1 := by
  obtain ⟨sv, hl, hsv, _⟩ := hg.sv
  obtain ⟨hm, hp⟩ := c18_write_memtableHwm hl (hsv.act _ List.mem_cons_self) hsv.nin hw
  obtain ⟨a, hseq, ht'⟩ := write_cases hw
  have hes : maxSeqno es = some t.seqCtr := by
    rw [c18_maxSeqno_eq_some_iff]
    cases es with
    | nil => exact absurd rfl hne
    | cons e es => exact ⟨⟨e, List.mem_cons_self, hseq e List.mem_cons_self⟩, fun x hx => Nat.le_of_eq (hseq x hx)⟩
  have h1 : optLe (memtableHwm t) (some t.seqCtr) := by
    cases h : memtableHwm t with
    | none => trivial
    | some m => exact Nat.le_of_lt (memtableHwm_lt_of_below hl (c18_goodSv_mems_below hsv) h)
  have h2 : optLe (persistedHwm t) (some t.seqCtr) := by
    cases h : persistedHwm t with
    | none => trivial
    | some m => exact Nat.le_of_lt (persistedHwm_lt_of_below hl (c18_goodSv_tables_below hsv) h)
  have hm' : memtableHwm t' = some t.seqCtr := by rw [hm, hes, optMax_eq_left h1]
  refine ⟨hm', ?_, hp, by rw [ht']⟩
  rw [overallHwm, hm', hp, optMax_eq_left h2]

end Tree

/-! ## Part 3 — the table writer's recorded maximum -/
section Meta
variable [DecidableEq K]
open Blocks

theorem c18_foldl_max (l : List (Entry K)) (x : Nat) :
    l.foldl (fun m e => max m e.seqno) x = match maxSeqno l with | some m => max x m | none => x := by
  induction l generalizing x with
  | nil => rfl
  | cons e l ih =>
    rw [List.foldl_cons, ih, c18_maxSeqno_cons]
    cases maxSeqno l <;> simp [optMax, Nat.max_assoc]

/-- the maximum the writer records while streaming (`metadata.seqnos.1`, initial value 0) is `maxSeqno` of the
    stream; no sortedness needed -/
theorem c18_writerMeta_maxSeqno (es : List (Entry K)) : (writerMeta es).maxSeqno = (maxSeqno es).getD 0 := by
  unfold writerMeta writerAcct
  rw [fold_maxSeqno, c18_foldl_max]
  cases maxSeqno es <;> simp
  all_goals rfl

theorem c18_writeTable_maxSeqno (bs : Nat) (sz : Entry K → Nat) (es : List (Entry K)) :
    (writeTable bs sz es).mdata.maxSeqno = (maxSeqno es).getD 0 := by
  rw [(writeTable_meta bs sz es).1, c18_writerMeta_maxSeqno]

/-- for a non-empty stream (the writer deletes an empty table file) the recorded maximum IS the mark -/
theorem c18_maxSeqno_eq_writerMeta {es : List (Entry K)} (hne : es ≠ []) :
    maxSeqno es = some (writerMeta es).maxSeqno := by
  rw [c18_writerMeta_maxSeqno]
  cases h : maxSeqno es with
  | none => exact absurd (c18_maxSeqno_eq_none.1 h) hne
  | some m => rfl

end Meta
end Lsm
