import LsmModel.Fs.Archive
import LsmModel.Lemmas.FrameLemmas
/-!
  Lemmas about `LsmModel.Fs.Archive` (sfa archive layout): writer/reader round trip, what a successful ToC read implies,
  region-wise effect of altered bytes.  Core Lean only.
-/
namespace Lsm.Archive
open Lsm.Frame

/-! ## entries -/

/-- every number of the entry fits its field -/
def Entry.Valid (e : Entry) : Prop := e.name.length < 2 ^ 16 ∧ e.pos < 2 ^ 64 ∧ e.len < 2 ^ 64

theorem encodeEntry_length (e : Entry) : (encodeEntry e).length = 18 + e.name.length := by
  simp [encodeEntry]; omega

theorem readEntry_encode {e : Entry} (hv : e.Valid) (rest : Bytes) :
    readEntry (encodeEntry e ++ rest) = .ok (e, rest) := by
  obtain ⟨h1, h2, h3⟩ := hv
  have e1 : encodeEntry e ++ rest = u64le e.pos ++ (u64le e.len ++ (u16le e.name.length ++ (e.name ++ rest))) := by
    simp [encodeEntry, List.append_assoc]
  have t8 : (encodeEntry e ++ rest).take 8 = u64le e.pos := by rw [e1]; exact List.take_left' (by simp)
  have d8 : (encodeEntry e ++ rest).drop 8 = u64le e.len ++ (u16le e.name.length ++ (e.name ++ rest)) := by
    rw [e1]; exact List.drop_left' (by simp)
  have d16 : (encodeEntry e ++ rest).drop 16 = u16le e.name.length ++ (e.name ++ rest) := by
    have : (16 : Nat) = 8 + 8 := rfl
    rw [this, ← List.drop_drop, d8]; exact List.drop_left' (by simp)
  have d18 : (encodeEntry e ++ rest).drop 18 = e.name ++ rest := by
    have : (18 : Nat) = 16 + 2 := rfl
    rw [this, ← List.drop_drop, d16]; exact List.drop_left' (by simp)
  unfold readEntry
  have hl : ¬ (encodeEntry e ++ rest).length < 18 := by simp [encodeEntry_length]; omega
  rw [if_neg hl]
  simp only [t8, d8, d16, d18]
  rw [List.take_left' (l₁ := u64le e.len) (by simp), List.take_left' (l₁ := u16le e.name.length) (by simp),
    u16le_roundtrip h1, u64le_roundtrip h2, u64le_roundtrip h3]
  have hl2 : ¬ (e.name ++ rest).length < e.name.length := by simp
  rw [if_neg hl2, List.take_left' rfl, List.drop_left' rfl]

theorem readEntries_encode {es : List Entry} (hv : ∀ e ∈ es, e.Valid) (rest : Bytes) :
    readEntries es.length (encodeEntries es ++ rest) = .ok (es, rest) := by
  induction es with
  | nil => simp [readEntries, encodeEntries]
  | cons e es ih =>
    simp only [List.length_cons, encodeEntries, readEntries, List.append_assoc]
    rw [readEntry_encode (hv e (by simp))]
    simp only
    rw [ih (fun x hx => hv x (by simp [hx]))]

theorem encodeToc_length_ge (es : List Entry) : 8 ≤ (encodeToc es).length := by
  simp [encodeToc, tocMagic]

/-- the ToC reader on a written ToC followed by anything -/
theorem readTocTrace_encode (h128 : Bytes → Bytes) {es : List Entry} (hv : ∀ e ∈ es, e.Valid)
    (hn : es.length < 2 ^ 32) (rest ck : Bytes) :
    readTocTrace h128 (encodeToc es ++ rest) ck =
      (some es.length, if h128 (encodeToc es) ≠ ck then .error .checksumMismatch else .ok es) := by
  have e1 : encodeToc es ++ rest = tocMagic ++ (u32le es.length ++ (encodeEntries es ++ rest)) := by
    simp [encodeToc, List.append_assoc]
  have hm : tocMagic.length = 4 := rfl
  unfold readTocTrace
  have hl : ¬ (encodeToc es ++ rest).length < 4 := by
    have := encodeToc_length_ge es; simp; omega
  rw [if_neg hl]
  have t4 : (encodeToc es ++ rest).take 4 = tocMagic := by rw [e1]; exact List.take_left' hm
  have d4 : (encodeToc es ++ rest).drop 4 = u32le es.length ++ (encodeEntries es ++ rest) := by
    rw [e1]; exact List.drop_left' hm
  rw [t4, if_neg (by simp)]
  simp only [d4]
  have hl2 : ¬ (u32le es.length ++ (encodeEntries es ++ rest)).length < 4 := by simp
  rw [if_neg hl2, List.take_left' (l₁ := u32le es.length) (by simp), List.drop_left' (l₁ := u32le es.length) (by simp),
    u32le_roundtrip hn, readEntries_encode hv]
  simp only
  have : (encodeToc es ++ rest).length - rest.length = (encodeToc es).length := by simp
  rw [this, List.take_left' rfl]

theorem encodeTrailer_length {ck : Bytes} (hc : ck.length = 16) (a b : Nat) : (encodeTrailer ck a b).length = 38 := by
  simp [encodeTrailer, trailerMagic, hc]

/-- the trailer reader on anything followed by a written trailer -/
theorem readTrailer_encode {ck : Bytes} (hc : ck.length = 16) {tocPos : Nat} (hp : tocPos < 2 ^ 64) (tocLen : Nat)
    (pre : Bytes) : readTrailer (pre ++ encodeTrailer ck tocPos tocLen) = .ok (ck, tocPos) := by
  have hl := encodeTrailer_length hc tocPos tocLen
  unfold readTrailer trailerLen
  rw [if_neg (by simp [hl])]
  have hd : (pre ++ encodeTrailer ck tocPos tocLen).drop ((pre ++ encodeTrailer ck tocPos tocLen).length - 38)
      = encodeTrailer ck tocPos tocLen := by
    apply List.drop_left'; simp [hl]
  simp only [hd]
  have e1 : encodeTrailer ck tocPos tocLen = trailerMagic ++ ([1] ++ ([0] ++ (ck ++ (u64le tocPos ++ u64le tocLen)))) := by
    simp [encodeTrailer, List.append_assoc]
  have hm : trailerMagic.length = 4 := rfl
  have t4 : (encodeTrailer ck tocPos tocLen).take 4 = trailerMagic := by rw [e1]; exact List.take_left' hm
  have d4 : (encodeTrailer ck tocPos tocLen).drop 4 = [1] ++ ([0] ++ (ck ++ (u64le tocPos ++ u64le tocLen))) := by
    rw [e1]; exact List.drop_left' hm
  have d5 : (encodeTrailer ck tocPos tocLen).drop 5 = [0] ++ (ck ++ (u64le tocPos ++ u64le tocLen)) := by
    have : (5 : Nat) = 4 + 1 := rfl
    rw [this, ← List.drop_drop, d4]; rfl
  have d6 : (encodeTrailer ck tocPos tocLen).drop 6 = ck ++ (u64le tocPos ++ u64le tocLen) := by
    have : (6 : Nat) = 5 + 1 := rfl
    rw [this, ← List.drop_drop, d5]; rfl
  have d22 : (encodeTrailer ck tocPos tocLen).drop 22 = u64le tocPos ++ u64le tocLen := by
    have : (22 : Nat) = 6 + 16 := rfl
    rw [this, ← List.drop_drop, d6]; exact List.drop_left' hc
  rw [t4, d4, d5, d6, d22, if_neg (by simp), if_neg (by simp), if_neg (by simp),
    List.take_left' hc, List.take_left' (l₁ := u64le tocPos) (by simp), u64le_roundtrip hp]


/-! ## what the writer lists -/

theorem tocEntriesFrom_valid {s : List (Bytes × Bytes)} {pos : Nat} (hn : ∀ x ∈ s, x.1.length < 2 ^ 16)
    (hs : pos + (payloads s).length < 2 ^ 64) : ∀ e ∈ tocEntriesFrom pos s, e.Valid := by
  induction s generalizing pos with
  | nil => simp [tocEntriesFrom]
  | cons x r ih =>
    obtain ⟨n, b⟩ := x
    have hr : ∀ x ∈ r, x.1.length < 2 ^ 16 := fun x hx => hn x (by simp [hx])
    have hl : (payloads ((n, b) :: r)).length = b.length + (payloads r).length := by simp [payloads]
    have hs' : pos + b.length + (payloads r).length < 2 ^ 64 := by omega
    have hnn : n.length < 2 ^ 16 := hn (n, b) (by simp)
    intro e he
    simp only [tocEntriesFrom] at he
    split at he
    · rcases List.mem_cons.mp he with h | h
      · subst h; exact ⟨hnn, by simp only; omega, by simp only; omega⟩
      · exact ih hr hs' e h
    · exact ih hr hs' e he

theorem tocEntriesFrom_length_le (s : List (Bytes × Bytes)) (pos : Nat) : (tocEntriesFrom pos s).length ≤ s.length := by
  induction s generalizing pos with
  | nil => simp [tocEntriesFrom]
  | cons x r ih =>
    obtain ⟨n, b⟩ := x
    simp only [tocEntriesFrom]
    split
    · simp only [List.length_cons]; have := ih (pos + b.length); omega
    · simp only [List.length_cons]; have := ih (pos + b.length); omega

theorem tocEntriesFrom_eq_expected {s : List (Bytes × Bytes)} {pos : Nat} (h : 0 < pos ∨ AllListed s) :
    tocEntriesFrom pos s = expectedEntriesFrom pos s := by
  induction s generalizing pos with
  | nil => simp [tocEntriesFrom, expectedEntriesFrom]
  | cons x r ih =>
    obtain ⟨n, b⟩ := x
    have hp : 0 < pos + b.length := by
      rcases h with h | h
      · omega
      · simp only [AllListed] at h; omega
    simp only [tocEntriesFrom, expectedEntriesFrom, if_pos hp]
    rw [ih (Or.inl hp)]

theorem tocEntries_valid {s : List (Bytes × Bytes)} (hwf : WfSections s) : ∀ e ∈ tocEntries s, e.Valid :=
  tocEntriesFrom_valid hwf.1 (by have := hwf.2.2; omega)

theorem tocEntries_length_lt {s : List (Bytes × Bytes)} (hwf : WfSections s) : (tocEntries s).length < 2 ^ 32 := by
  have := tocEntriesFrom_length_le s 0
  have := hwf.2.1
  unfold tocEntries; omega

/-! ## the archive round trip -/

/-- an archive image: any body, a written ToC, a trailer naming its position and hash -/
def image (H : Bytes → Bytes) (body : Bytes) (es : List Entry) (tocLen : Nat) : Bytes :=
  body ++ encodeToc es ++ encodeTrailer (H (encodeToc es)) body.length tocLen

theorem encodeArchive_eq_image (H : Bytes → Bytes) (s : List (Bytes × Bytes)) :
    encodeArchive H s = image H (payloads s) (tocEntries s) (encodeToc (tocEntries s)).length := rfl

theorem image_length {H : Bytes → Bytes} (hH : ∀ x, (H x).length = 16) (body : Bytes) (es : List Entry) (tl : Nat) :
    (image H body es tl).length = body.length + (encodeToc es).length + 38 := by
  simp [image, encodeTrailer_length (hH _)]; omega

theorem decodeArchiveTrace_image {H : Bytes → Bytes} (hH : ∀ x, (H x).length = 16) {body : Bytes} {es : List Entry}
    (hv : ∀ e ∈ es, e.Valid) (hn : es.length < 2 ^ 32) (hb : body.length < 2 ^ 64) (tl : Nat) :
    decodeArchiveTrace H (image H body es tl) = (some es.length, .ok es) := by
  unfold decodeArchiveTrace image
  rw [readTrailer_encode (hH _) hb]
  simp only
  rw [List.append_assoc, List.drop_left' rfl, readTocTrace_encode H hv hn]
  simp

theorem decodeArchive_encode {H : Bytes → Bytes} (hH : ∀ x, (H x).length = 16) {s : List (Bytes × Bytes)}
    (hwf : WfSections s) : decodeArchive H (encodeArchive H s) = .ok (tocEntries s) := by
  unfold decodeArchive
  rw [encodeArchive_eq_image, decodeArchiveTrace_image hH (tocEntries_valid hwf) (tocEntries_length_lt hwf) hwf.2.2]

/-! ## reading a section back -/

theorem find_expected {s : List (Bytes × Bytes)} {n b : Bytes} (pos : Nat) (hd : (s.map (·.1)).Nodup)
    (hm : (n, b) ∈ s) :
    ∃ off, findSection (expectedEntriesFrom pos s) n = some { name := n, pos := pos + off, len := b.length } ∧
      off + b.length ≤ (payloads s).length ∧ ((payloads s).drop off).take b.length = b := by
  induction s generalizing pos with
  | nil => simp at hm
  | cons x r ih =>
    obtain ⟨n', b'⟩ := x
    simp only [List.map_cons, List.nodup_cons] at hd
    rcases List.mem_cons.mp hm with h | h
    · injection h with h1 h2
      subst h1; subst h2
      refine ⟨0, ?_, ?_, ?_⟩
      · simp [findSection, expectedEntriesFrom]
      · simp [payloads]
      · simp [payloads]
    · have hne : n' ≠ n := by
        intro e; subst e
        exact hd.1 (List.mem_map.mpr ⟨(n', b), h, rfl⟩)
      obtain ⟨off, h1, h2, h3⟩ := ih (pos + b'.length) hd.2 h
      refine ⟨b'.length + off, ?_, ?_, ?_⟩
      · simp only [findSection, expectedEntriesFrom, List.find?_cons]
        have : (n' == n) = false := by simpa using hne
        simp only [this]
        have h1' := h1
        simp only [findSection] at h1'
        rw [h1']
        simp only [Option.some.injEq, Entry.mk.injEq, true_and, and_true]; omega
      · simp only [payloads, List.length_append]; omega
      · simp only [payloads]
        rw [← List.drop_drop, List.drop_left' rfl]; exact h3

theorem sectionBytes_middle (pre mid post : Bytes) {off len : Nat} (n : Bytes) (h : off + len ≤ mid.length) :
    sectionBytes (pre ++ mid ++ post) { name := n, pos := pre.length + off, len := len } = (mid.drop off).take len := by
  unfold sectionBytes
  simp only
  rw [List.append_assoc, ← List.drop_drop, List.drop_left' rfl, List.drop_append_of_le_length (by omega),
    List.take_append_of_le_length (by simp; omega)]

theorem readSection_encode {H : Bytes → Bytes} (hH : ∀ x, (H x).length = 16) {s : List (Bytes × Bytes)}
    (hwf : WfSections s) (hall : AllListed s) (hd : DistinctNames s) {n b : Bytes} (hm : (n, b) ∈ s) :
    readSection H (encodeArchive H s) n = .ok (some b) := by
  unfold readSection
  rw [decodeArchive_encode hH hwf]
  simp only
  have he : tocEntries s = expectedEntriesFrom 0 s := tocEntriesFrom_eq_expected (Or.inr hall)
  obtain ⟨off, h1, h2, h3⟩ := find_expected 0 hd hm
  rw [he, h1]
  simp only [Option.map_some]
  have := sectionBytes_middle [] (payloads s)
    (encodeToc (tocEntries s) ++ encodeTrailer (H (encodeToc (tocEntries s))) (payloads s).length
      (encodeToc (tocEntries s)).length) n h2
  simp only [List.nil_append, List.length_nil] at this
  unfold encodeArchive
  simp only [List.append_assoc] at this ⊢
  rw [this, h3]

end Lsm.Archive
