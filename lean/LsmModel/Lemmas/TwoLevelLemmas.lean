import LsmModel.Table.TwoLevel
/-
  LsmModel.Lemmas.TwoLevelLemmas — the two-level iterator delivers the concatenation of the partition windows,
  consumed from both ends; the writer's cut rule.
-/
namespace Lsm.TwoLevel
open Lsm Lsm.Codec Lsm.Blocks Lsm.IndexBlock
set_option linter.unusedSimpArgs false
set_option linter.unusedVariables false

variable {α : Type}

/-! ### double-ended consumption -/

theorem bothEnds_nil (w : List Dir) : bothEnds ([] : List α) w = nones w := by
  induction w with
  | nil => rfl
  | cons d w ih => cases d <;> simp [bothEnds, nones, ih] <;> exact ih

theorem bothEnds_F (x : α) (l : List α) (w : List Dir) : bothEnds (x :: l) (.F :: w) = some x :: bothEnds l w := by
  simp [bothEnds]

theorem bothEnds_B (x : α) (l : List α) (w : List Dir) : bothEnds (l ++ [x]) (.B :: w) = some x :: bothEnds l w := by
  simp [bothEnds]

theorem popBack_none (l : List α) (h : popBack l = none) : l = [] := by
  unfold popBack at h
  cases hl : l.getLast? with
  | none => exact List.getLast?_eq_none_iff.mp hl
  | some x => simp [hl] at h

theorem popBack_some (l : List α) (x : α) (r : List α) (h : popBack l = some (x, r)) : l = r ++ [x] := by
  unfold popBack at h
  cases hl : l.getLast? with
  | none => simp [hl] at h
  | some y =>
    simp only [hl, Option.some.injEq, Prod.mk.injEq] at h
    obtain ⟨h1, h2⟩ := h
    subst h1 h2
    obtain ⟨ys, rfl⟩ := List.getLast?_eq_some_iff.mp hl
    simp

theorem popBack_ne_nil (l : List α) (h : l ≠ []) : ∃ x r, popBack l = some (x, r) := by
  cases hp : popBack l with
  | none => exact absurd (popBack_none l hp) h
  | some p => exact ⟨p.1, p.2, rfl⟩

/-! ### the state machine -/

/-- what a partition contributes -/
def winOf (pLo pHi : Option (α → Bool)) (e : α × List α) : List α := (windowP pLo pHi e.2).getD []

/-- every remaining partition has a non-empty window -/
def Good (pLo pHi : Option (α → Bool)) (T : List (α × List α)) : Prop :=
  ∀ e ∈ T, ∃ x r, windowP pLo pHi e.2 = some (x :: r)

/-- Once the top-level iterator is initialised and every remaining partition has a non-empty window, the iterator
    delivers  lo_consumer ++ (windows of the remaining partitions) ++ hi_consumer  from both ends. -/
theorem run_init (pLo pHi : Option (α → Bool)) (w : List Dir) :
    ∀ (top T : List (α × List α)) (lo hi : Option (List α)), Good pLo pHi T →
      TLIter.run pLo pHi { top := top, tli := some T, loC := lo, hiC := hi } w
        = bothEnds (lo.getD [] ++ T.flatMap (winOf pLo pHi) ++ hi.getD []) w := by
  induction w with
  | nil => intros; rfl
  | cons d w ih =>
    intro top T lo hi hg
    cases d with
    | F =>
      -- lo_consumer first
      match hlo : lo with
      | some (x :: r) =>
        simp only [TLIter.run, TLIter.next, Option.getD_some, List.cons_append, bothEnds_F]
        rw [ih top T (some r) hi hg]; simp
      | some [] =>
        simp only [TLIter.run, TLIter.next, TLIter.ensureInit, Option.getD_some, List.nil_append]
        cases T with
        | cons e rest =>
          obtain ⟨x, r, hx⟩ := hg e (by simp)
          have hg' : Good pLo pHi rest := fun e' he' => hg e' (by simp [he'])
          simp only [TLIter.nextInit, hx, List.flatMap_cons, winOf, Option.getD_some, List.cons_append, bothEnds_F]
          rw [ih top rest (some r) hi hg']; simp [winOf]
        | nil =>
          match hhi : hi with
          | some (x :: r) =>
            simp only [TLIter.nextInit, TLIter.fallHi, List.flatMap_nil, List.nil_append, Option.getD_some, bothEnds_F]
            rw [ih top [] (some []) (some r) hg]; simp
          | some [] =>
            simp only [TLIter.nextInit, TLIter.fallHi, List.flatMap_nil, List.nil_append, Option.getD_some]
            rw [ih top [] (some []) (some []) hg]; simp [bothEnds]
          | none =>
            simp only [TLIter.nextInit, TLIter.fallHi, List.flatMap_nil, List.nil_append, Option.getD_none]
            rw [ih top [] (some []) none hg]; simp [bothEnds]
      | none =>
        simp only [TLIter.run, TLIter.next, TLIter.ensureInit, Option.getD_none, List.nil_append]
        cases T with
        | cons e rest =>
          obtain ⟨x, r, hx⟩ := hg e (by simp)
          have hg' : Good pLo pHi rest := fun e' he' => hg e' (by simp [he'])
          simp only [TLIter.nextInit, hx, List.flatMap_cons, winOf, Option.getD_some, List.cons_append, bothEnds_F]
          rw [ih top rest (some r) hi hg']; simp [winOf]
        | nil =>
          match hhi : hi with
          | some (x :: r) =>
            simp only [TLIter.nextInit, TLIter.fallHi, List.flatMap_nil, List.nil_append, Option.getD_some, bothEnds_F]
            rw [ih top [] none (some r) hg]; simp
          | some [] =>
            simp only [TLIter.nextInit, TLIter.fallHi, List.flatMap_nil, List.nil_append, Option.getD_some]
            rw [ih top [] none (some []) hg]; simp [bothEnds]
          | none =>
            simp only [TLIter.nextInit, TLIter.fallHi, List.flatMap_nil, List.nil_append, Option.getD_none]
            rw [ih top [] none none hg]; simp [bothEnds]
    | B =>
      cases hpb : hi.bind popBack with
      | some p =>
        obtain ⟨x, r⟩ := p
        obtain ⟨l, hl, hp⟩ := Option.bind_eq_some_iff.mp hpb
        subst hl
        have hlr := popBack_some l x r hp
        simp only [TLIter.run, TLIter.nextBack, hpb, Option.getD_some]
        rw [ih top T lo (some r) hg, hlr, ← List.append_assoc, bothEnds_B]; simp
      | none =>
        have hhi : hi.getD [] = [] := by
          cases hi with
          | none => rfl
          | some l => simp only [Option.bind_some] at hpb; simp [popBack_none l hpb]
        simp only [TLIter.run, TLIter.nextBack, hpb, TLIter.ensureInit, hhi, List.append_nil]
        cases hT : popBack T with
        | some p =>
          obtain ⟨e, rest⟩ := p
          have hTr := popBack_some T e rest hT
          obtain ⟨x0, r0, hx⟩ := hg e (by rw [hTr]; simp)
          have hg' : Good pLo pHi rest := fun e' he' => hg e' (by rw [hTr]; simp [he'])
          obtain ⟨x, r, hpl⟩ := popBack_ne_nil (x0 :: r0) (by simp)
          have hlr := popBack_some _ x r hpl
          simp only [TLIter.backInit, Option.bind_some, hT, hx, hpl]
          rw [ih top rest lo (some r) hg', hTr, List.flatMap_append]
          simp only [List.flatMap_cons, List.flatMap_nil, List.append_nil, winOf, hx, Option.getD_some, hlr]
          rw [← List.append_assoc, ← List.append_assoc, bothEnds_B]
        | none =>
          have hTn := popBack_none T hT
          subst hTn
          simp only [TLIter.backInit, Option.bind_some, hT, TLIter.fallLo, List.flatMap_nil, List.append_nil]
          cases lo with
          | none =>
            simp only [Option.getD_none]
            rw [ih top [] none hi hg]; simp [bothEnds, hhi]
          | some l =>
            cases hpl : popBack l with
            | some p =>
              obtain ⟨x, r⟩ := p
              have hlr := popBack_some l x r hpl
              simp only [Option.getD_some, hpl]
              rw [ih top [] (some r) hi hg, hlr, bothEnds_B]; simp [hhi]
            | none =>
              have := popBack_none l hpl
              subst this
              simp only [Option.getD_some, hpl]
              rw [ih top [] (some []) hi hg]; simp [bothEnds, hhi]

/-- `init_tli` returned `false`: every pull returns `None` -/
theorem run_uninit_none (pLo pHi : Option (α → Bool)) (top : List (α × List α))
    (h : windowP (onTop pLo) (onTop pHi) top = none) (w : List Dir) :
    TLIter.run pLo pHi { top := top } w = nones w := by
  induction w with
  | nil => rfl
  | cons d w ih =>
    cases d with
    | F => simp only [TLIter.run, TLIter.next, TLIter.ensureInit, h, nones, List.map_cons]; exact congrArg _ ih
    | B =>
      simp only [TLIter.run, TLIter.nextBack, TLIter.ensureInit, h, nones, List.map_cons, Option.bind_none]
      exact congrArg _ ih

/-- the first pull initialises the top-level iterator -/
theorem run_uninit_some (pLo pHi : Option (α → Bool)) (top T : List (α × List α))
    (h : windowP (onTop pLo) (onTop pHi) top = some T) (w : List Dir) :
    TLIter.run pLo pHi { top := top } w = TLIter.run pLo pHi { top := top, tli := some T } w := by
  cases w with
  | nil => rfl
  | cons d w =>
    cases d with
    | F => simp only [TLIter.run, TLIter.next, TLIter.ensureInit, h]
    | B => simp only [TLIter.run, TLIter.nextBack, TLIter.ensureInit, h, Option.bind_none]

/-- a single remaining partition whose window is empty (inverted bounds inside one partition) -/
theorem run_single_empty (pLo pHi : Option (α → Bool)) (top : List (α × List α)) (e : α × List α)
    (he : windowP pLo pHi e.2 = some []) (w : List Dir) :
    TLIter.run pLo pHi { top := top, tli := some [e] } w = nones w := by
  have hg : Good pLo pHi ([] : List (α × List α)) := fun _ h => by simp at h
  cases w with
  | nil => rfl
  | cons d w =>
    cases d with
    | F =>
      simp only [TLIter.run, TLIter.next, TLIter.ensureInit, TLIter.nextInit, he, TLIter.fallHi]
      rw [run_init pLo pHi w top [] (some []) none hg]
      simp [bothEnds_nil, nones]
    | B =>
      have hp : popBack [e] = some (e, []) := by simp [popBack]
      have hp2 : popBack ([] : List α) = none := by simp [popBack]
      simp only [TLIter.run, TLIter.nextBack, TLIter.ensureInit, TLIter.backInit, Option.bind_none, Option.bind_some,
        hp, he, hp2, TLIter.fallLo]
      rw [run_init pLo pHi w top [] none (some []) hg]
      simp [bothEnds_nil, nones]

/-- THE STATE MACHINE THEOREM.  Whatever the top-level block and the partitions are: if the top-level seeks succeed
    with the entries `T` remaining and every remaining partition has a non-empty window (or there is exactly one and its
    window is empty), then for every pull word the two-level iterator delivers the concatenation of the windows of the
    remaining partitions, consumed from both ends. -/
theorem twoLevel_run_concat (pLo pHi : Option (α → Bool)) (top T : List (α × List α))
    (hT : windowP (onTop pLo) (onTop pHi) top = some T)
    (hg : Good pLo pHi T ∨ ∃ e, T = [e] ∧ windowP pLo pHi e.2 = some []) (w : List Dir) :
    TLIter.run pLo pHi { top := top } w = bothEnds (T.flatMap (winOf pLo pHi)) w := by
  rw [run_uninit_some pLo pHi top T hT]
  rcases hg with hg | ⟨e, rfl, he⟩
  · have := run_init pLo pHi w top T none none hg
    simpa using this
  · rw [run_single_empty pLo pHi top e he]
    simp [winOf, he, bothEnds_nil]

/-! ### the cut rule of the partitioned index writer -/

/-- writer invariant: finished partitions and buffer concatenate to the handles seen; finished partitions are non-empty;
    `buffer_size` is zero exactly when nothing is buffered -/
def PWInv (sz : α → Nat) (s : PW α) (seen : List α) : Prop :=
  s.done.flatten ++ s.buf = seen ∧ (∀ p ∈ s.done, p ≠ []) ∧ (s.buf = [] → s.bufSize = 0) ∧ (s.buf ≠ [] → s.bufSize > 0)

theorem pwStep_inv (sz : α → Nat) (hsz : ∀ h, sz h > 0) (psize : Nat) (s : PW α) (seen : List α) (h : α)
    (hi : PWInv sz s seen) : PWInv sz (pwStep sz psize s h) (seen ++ [h]) := by
  obtain ⟨h1, h2, h3, h4⟩ := hi
  unfold pwStep
  simp only []
  split
  · refine ⟨?_, ?_, ?_, ?_⟩
    · simp [PW.cut, ← h1]
    · intro p hp
      simp only [PW.cut, List.mem_append, List.mem_singleton] at hp
      rcases hp with hp | hp
      · exact h2 p hp
      · subst hp; simp
    · intro _; rfl
    · intro hne; simp [PW.cut] at hne
  · refine ⟨?_, h2, ?_, ?_⟩
    · simp [← h1]
    · intro hb; simp at hb
    · intro _
      have := hsz h
      simp only []
      omega

theorem foldl_pwStep_inv (sz : α → Nat) (hsz : ∀ h, sz h > 0) (psize : Nat) (hs : List α) (s : PW α) (seen : List α)
    (hi : PWInv sz s seen) : PWInv sz (hs.foldl (pwStep sz psize) s) (seen ++ hs) := by
  induction hs generalizing s seen with
  | nil => simpa using hi
  | cons h t ih =>
    simp only [List.foldl_cons]
    have := ih (pwStep sz psize s h) (seen ++ [h]) (pwStep_inv sz hsz psize s seen h hi)
    simpa using this

/-- The partitions the writer cuts are consecutive (they concatenate to the handle list) and non-empty, for every
    partition size and every positive size accounting. -/
theorem cutPartitions_spec (sz : α → Nat) (hsz : ∀ h, sz h > 0) (psize : Nat) (hs : List α) :
    (cutPartitions sz psize hs).flatten = hs ∧ ∀ p ∈ cutPartitions sz psize hs, p ≠ [] := by
  have hi : PWInv sz ({} : PW α) [] := ⟨rfl, fun _ h => by simp at h, fun _ => rfl, fun h => absurd rfl h⟩
  obtain ⟨h1, h2, h3, h4⟩ := foldl_pwStep_inv sz hsz psize hs {} [] hi
  simp only [List.nil_append] at h1
  unfold cutPartitions pwFinish
  split
  · rename_i hpos
    have hne : (hs.foldl (pwStep sz psize) {}).buf ≠ [] := fun hb => by have := h3 hb; omega
    refine ⟨by simpa [PW.cut] using h1, ?_⟩
    intro p hp
    simp only [PW.cut, List.mem_append, List.mem_singleton] at hp
    rcases hp with hp | hp
    · exact h2 p hp
    · subst hp; exact hne
  · rename_i hpos
    have hb : (hs.foldl (pwStep sz psize) {}).buf = [] := by
      cases hbuf : (hs.foldl (pwStep sz psize) {}).buf with
      | nil => rfl
      | cons x t => have := h4 (by simp [hbuf]); omega
    rw [hb, List.append_nil] at h1
    exact ⟨h1, h2⟩

end Lsm.TwoLevel
