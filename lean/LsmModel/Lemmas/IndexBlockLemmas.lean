import LsmModel.Table.IndexBlock
import LsmModel.Lemmas.CodecLemmas
/-
  LsmModel.Lemmas.IndexBlockLemmas — round trip of the byte-level index block codec (LsmModel.Table.IndexBlock).
-/
namespace Lsm.IndexBlock
open Lsm Lsm.Codec
set_option linter.unusedSimpArgs false

/-- one handle round trip (any trailing bytes are left untouched) -/
theorem decodeHandle_encodeHandle (h : KHandle) (tail : Bytes) :
    decodeHandle (encodeHandle h ++ tail) = some (h, tail) := by
  unfold decodeHandle encodeHandle
  simp only [List.cons_append, List.append_assoc, varint_roundtrip, takeExact_append]

/-- the item area of a block -/
def encItemsH : List KHandle → Bytes
  | [] => []
  | h :: t => encodeHandle h ++ encItemsH t

theorem foldl_encStepH_out (hs : List KHandle) (s : EncState) :
    (hs.foldl encStepH s).out = s.out ++ encItemsH hs ∧ (hs.foldl encStepH s).count = s.count + hs.length := by
  induction hs generalizing s with
  | nil => simp [encItemsH]
  | cons h t ih =>
    simp only [List.foldl_cons, List.length_cons]
    obtain ⟨h1, h2⟩ := ih (encStepH s h)
    rw [h1, h2]
    simp only [encStepH, encItemsH, List.append_assoc]
    exact ⟨trivial, by omega⟩

theorem encItemsH_length_ge (hs : List KHandle) : hs.length ≤ (encItemsH hs).length := by
  induction hs with
  | nil => simp [encItemsH]
  | cons h t ih => simp [encItemsH, encodeHandle]; omega

theorem decodeFwdGo_encItemsH (hs : List KHandle) (fuel : Nat) (tail : Bytes) (hf : hs.length + 1 ≤ fuel) :
    decodeFwdGo fuel (encItemsH hs ++ 255 :: tail) = some hs := by
  induction hs generalizing fuel with
  | nil =>
    cases fuel with
    | zero => omega
    | succ fuel => simp [encItemsH, decodeFwdGo]
  | cons h t ih =>
    cases fuel with
    | zero => simp at hf
    | succ fuel =>
      have hf' : t.length + 1 ≤ fuel := by simp at hf; omega
      have hd := decodeHandle_encodeHandle h (encItemsH t ++ 255 :: tail)
      simp only [encItemsH, List.append_assoc]
      have hhead : encodeHandle h ++ (encItemsH t ++ 255 :: tail)
          = 0 :: (encodeVarint h.offset ++ (encodeVarint h.size ++ (encodeVarint h.seqno ++
              (encodeVarint h.endKey.length ++ h.endKey))) ++ (encItemsH t ++ 255 :: tail)) := by
        simp [encodeHandle]
      unfold decodeFwdGo
      rw [hhead]
      simp only [show ¬ ((0 : UInt8) = 255) by decide, if_false]
      rw [← hhead, hd]
      simp only [ih fuel hf', Option.map_some]

/-! ### trailer -/

theorem rd32_le32 (n : Nat) (rest : Bytes) : rd32 (le32 n ++ rest) = some (n % 4294967296) := by
  simp only [le32, List.cons_append, List.nil_append, rd32, UInt8.toNat_ofNat']
  congr 1
  omega

theorem readTrailer_encode (pre : Bytes) (ri step a b c : Nat) :
    readTrailer (pre ++ encodeTrailer ri step a b c) =
      some ⟨ri % 256, step % 256, a % 4294967296, b % 4294967296, c % 4294967296⟩ := by
  have hl : (encodeTrailer ri step a b c).length = trailerSize := encodeTrailer_length ri step a b c
  unfold readTrailer
  have hlen : (pre ++ encodeTrailer ri step a b c).length = pre.length + trailerSize := by simp [hl]
  rw [hlen]
  have h1 : ¬ (pre.length + trailerSize < trailerSize) := by omega
  rw [if_neg h1, Nat.add_sub_cancel, List.drop_left]
  have hr : ∀ x : Nat, rd32 (le32 x) = some (x % 4294967296) := fun x => by
    have := rd32_le32 x []; simpa using this
  simp only [encodeTrailer, le32, List.cons_append, List.nil_append, List.append_assoc, List.drop, rd32,
    UInt8.toNat_ofNat']
  congr 2 <;> omega

/-- layout of an encoded index block: items, marker, binary index, 31-byte trailer starting with restart interval 1 -/
theorem encodeIndexBlock'_layout (hs : List KHandle) :
    ∃ bin : Bytes, ∃ step binOff : Nat,
      encodeIndexBlock' hs = (encItemsH hs ++ 255 :: bin) ++ encodeTrailer 1 step hs.length binOff hs.length := by
  obtain ⟨h1, h2⟩ := foldl_encStepH_out hs ({} : EncState)
  have hb : ∀ (l : List KHandle) (s : EncState), (l.foldl encStepH s).binIdx.length = s.binIdx.length + l.length := by
    intro l
    induction l with
    | nil => intro s; simp
    | cons x t ih => intro s; simp only [List.foldl_cons, List.length_cons]; rw [ih]; simp [encStepH]; omega
  have hb0 := hb hs ({} : EncState)
  simp only [List.nil_append] at h1
  refine ⟨(encodeBinIdx (hs.foldl encStepH {}).binIdx).2, (encodeBinIdx (hs.foldl encStepH {}).binIdx).1,
    ((hs.foldl encStepH {}).out ++ [255]).length, ?_⟩
  unfold encodeIndexBlock' encFinish
  simp only []
  rw [h2, hb0, h1]
  simp

/-- Forward iteration over an encoded index block returns the handles, for ALL handle lists (no size assumption). -/
theorem indexBlock_roundtrip_fwd (hs : List KHandle) : decodeFwd (encodeIndexBlock' hs) = some hs := by
  obtain ⟨bin, step, binOff, he⟩ := encodeIndexBlock'_layout hs
  unfold decodeFwd
  rw [he, readTrailer_encode]
  simp only [show (1 : Nat) % 256 = 1 by decide, if_true]
  rw [List.append_assoc]
  apply decodeFwdGo_encItemsH
  have := encItemsH_length_ge hs
  simp; omega

/-- `IndexBlock::len()` of an encoded block (the item count is stored as u32) -/
theorem indexBlock_len (hs : List KHandle) : blockLen (encodeIndexBlock' hs) = some (hs.length % 4294967296) := by
  obtain ⟨bin, step, binOff, he⟩ := encodeIndexBlock'_layout hs
  unfold blockLen
  rw [he, readTrailer_encode]
  simp

end Lsm.IndexBlock
