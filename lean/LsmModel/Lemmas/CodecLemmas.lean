import LsmModel.Table.Codec
/-
  LsmModel.Lemmas.CodecLemmas — round trips of the byte-level data block codec (LsmModel.Table.Codec).
-/
namespace Lsm.Codec
open Lsm
set_option linter.unusedSimpArgs false

/-! ### varint -/

theorem decodeVarintGo_varintGo (f n shift acc : Nat) (tail : Bytes) (h : n ≤ f) :
    decodeVarintGo shift acc (varintGo f n ++ tail) = some (acc + n * 2 ^ shift, tail) := by
  induction f generalizing n shift acc with
  | zero =>
    have : n = 0 := by omega
    subst this
    simp [varintGo, decodeVarintGo]
  | succ f ih =>
    unfold varintGo
    by_cases hn : n < 128
    · have h1 : (UInt8.ofNat n).toNat = n := by
        rw [UInt8.toNat_ofNat']; omega
      simp only [hn, if_true, List.singleton_append, decodeVarintGo, h1]
      have h2 : ¬ n ≥ 128 := by omega
      have h3 : n % 128 = n := by omega
      simp [h2, h3]
    · have h1 : (UInt8.ofNat (n % 128 + 128)).toNat = n % 128 + 128 := by
        rw [UInt8.toNat_ofNat']; omega
      simp only [hn, if_false, List.cons_append, decodeVarintGo, h1]
      have h2 : n % 128 + 128 ≥ 128 := by omega
      have h3 : (n % 128 + 128) % 128 = n % 128 := by omega
      simp only [h2, if_true, h3]
      rw [ih (n / 128) (shift + 7) _ (by omega)]
      congr 2
      have hp : 2 ^ (shift + 7) = 2 ^ shift * 128 := by rw [Nat.pow_add]
      rw [hp]
      have hd : n = 128 * (n / 128) + n % 128 := (Nat.div_add_mod n 128).symm
      generalize n / 128 = q at hd ⊢
      generalize n % 128 = r at hd ⊢
      subst hd
      generalize 2 ^ shift = X
      rw [Nat.add_mul, Nat.add_assoc]
      congr 1
      rw [Nat.add_comm]
      congr 1
      rw [Nat.mul_comm 128 q, Nat.mul_assoc, Nat.mul_comm 128 X]

/-- varint round trip (any trailing bytes are left untouched) -/
theorem varint_roundtrip (n : Nat) (tail : Bytes) : decodeVarint (encodeVarint n ++ tail) = some (n, tail) := by
  unfold decodeVarint encodeVarint
  rw [decodeVarintGo_varintGo n n 0 0 tail (Nat.le_refl n)]
  simp

theorem varintGo_ne_nil (f n : Nat) : varintGo f n ≠ [] := by
  cases f with
  | zero => simp [varintGo]
  | succ f => unfold varintGo; split <;> simp

/-! ### shared prefix -/

theorem sharedPrefixLen_le_left (a b : Bytes) : sharedPrefixLen a b ≤ a.length := by
  induction a generalizing b with
  | nil => simp [sharedPrefixLen]
  | cons x xs ih =>
    cases b with
    | nil => simp [sharedPrefixLen]
    | cons y ys =>
      simp only [sharedPrefixLen]
      split
      · have := ih ys; simp; omega
      · simp

theorem sharedPrefixLen_le_right (a b : Bytes) : sharedPrefixLen a b ≤ b.length := by
  induction a generalizing b with
  | nil => simp [sharedPrefixLen]
  | cons x xs ih =>
    cases b with
    | nil => simp [sharedPrefixLen]
    | cons y ys =>
      simp only [sharedPrefixLen]
      split
      · have := ih ys; simp; omega
      · simp

theorem sharedPrefixLen_take (a b : Bytes) :
    a.take (sharedPrefixLen a b) = b.take (sharedPrefixLen a b) := by
  induction a generalizing b with
  | nil => simp [sharedPrefixLen]
  | cons x xs ih =>
    cases b with
    | nil => simp [sharedPrefixLen]
    | cons y ys =>
      simp only [sharedPrefixLen]
      split
      · rename_i h; subst h; simp [ih ys]
      · simp

/-- the key is rebuilt from the base key's prefix and the stored suffix -/
theorem shared_rebuild (base key : Bytes) :
    base.take (sharedPrefixLen base key) ++ key.drop (sharedPrefixLen base key) = key := by
  rw [sharedPrefixLen_take, List.take_append_drop]

/-! ### one item -/

/-- tombstones carry no value bytes -/
def WfEntry (e : Entry Bytes) : Prop := e.isTomb = true → e.val = []

theorem vt_ofByte_toByte (vt : VT) : VT.ofByte? vt.toByte = some vt := by
  cases vt <;> decide

theorem vt_toByte_ne_marker (vt : VT) : vt.toByte ≠ 255 := by
  cases vt <;> decide

theorem isTombVT_eq (e : Entry Bytes) : isTombVT e.vt = e.isTomb := rfl

theorem takeExact_append (a tail : Bytes) : takeExact a.length (a ++ tail) = some (a, tail) := by
  simp [takeExact]

theorem decodeValPart_encode (e : Entry Bytes) (hw : WfEntry e) (tail : Bytes) :
    decodeValPart e.vt (encodeValPart e ++ tail) = some (e.val, tail) := by
  unfold decodeValPart encodeValPart
  rw [isTombVT_eq]
  by_cases ht : e.isTomb = true
  · simp [ht, hw ht]
  · simp only [ht, Bool.false_eq_true, if_false, List.append_assoc]
    rw [varint_roundtrip]
    simp only [takeExact_append]

/-- restart head round trip -/
theorem decodeFull_encodeFull (e : Entry Bytes) (hw : WfEntry e) (tail : Bytes) :
    decodeFull (encodeFull e ++ tail) = some (e, tail) := by
  unfold decodeFull encodeFull
  simp only [List.cons_append, List.append_assoc, vt_ofByte_toByte, varint_roundtrip, takeExact_append,
    decodeValPart_encode e hw]

/-- truncated item round trip, relative to any base key -/
theorem decodeTrunc_encodeTrunc (base : Bytes) (e : Entry Bytes) (hw : WfEntry e) (tail : Bytes) :
    decodeTrunc base (encodeTrunc (sharedPrefixLen base e.key) e ++ tail) = some (e, tail) := by
  unfold decodeTrunc encodeTrunc
  have hl : e.key.length - sharedPrefixLen base e.key = (e.key.drop (sharedPrefixLen base e.key)).length := by
    simp
  simp only [List.cons_append, List.append_assoc, vt_ofByte_toByte, varint_roundtrip]
  rw [hl]
  simp only [takeExact_append, decodeValPart_encode e hw, shared_rebuild]

/-- single entry round trip, both layouts -/
theorem entry_roundtrip (e : Entry Bytes) (hw : WfEntry e) (base tail : Bytes) :
    decodeFull (encodeFull e ++ tail) = some (e, tail) ∧
    decodeTrunc base (encodeTrunc (sharedPrefixLen base e.key) e ++ tail) = some (e, tail) :=
  ⟨decodeFull_encodeFull e hw tail, decodeTrunc_encodeTrunc base e hw tail⟩

/-! ### the block -/

/-- items of a block as the decoder will see them: `rem` = items left in the current restart interval -/
def encItems (ri : Nat) : Nat → Bytes → List (Entry Bytes) → Bytes
  | _, _, [] => []
  | rem, base, e :: t =>
    if rem = 0 then encodeFull e ++ encItems ri (ri - 1) e.key t
    else encodeTrunc (sharedPrefixLen base e.key) e ++ encItems ri (rem - 1) base t

/-- `remaining_in_interval` after `count` items -/
def remOf (ri count : Nat) : Nat := (ri - count % ri) % ri

theorem succ_mod (c ri : Nat) (h : 0 < ri) :
    (c + 1) % ri = if c % ri + 1 = ri then 0 else c % ri + 1 := by
  have hlt : c % ri < ri := Nat.mod_lt c h
  rw [Nat.add_mod]
  by_cases h1 : ri = 1
  · subst h1; simp [Nat.mod_one]
  · have h1' : 1 % ri = 1 := Nat.mod_eq_of_lt (by omega)
    rw [h1']
    split
    · rename_i he; rw [he, Nat.mod_self]
    · exact Nat.mod_eq_of_lt (by omega)

theorem remOf_zero_iff (ri c : Nat) (h : 0 < ri) : remOf ri c = 0 ↔ c % ri = 0 := by
  have hlt : c % ri < ri := Nat.mod_lt c h
  unfold remOf
  constructor
  · intro hz
    by_cases h0 : c % ri = 0
    · exact h0
    · have : (ri - c % ri) % ri = ri - c % ri := Nat.mod_eq_of_lt (by omega)
      omega
  · intro hz; rw [hz, Nat.sub_zero, Nat.mod_self]

theorem remOf_succ (ri c : Nat) (h : 0 < ri) :
    remOf ri (c + 1) = if c % ri = 0 then ri - 1 else remOf ri c - 1 := by
  have hlt : c % ri < ri := Nat.mod_lt c h
  unfold remOf
  rw [succ_mod c ri h]
  by_cases h0 : c % ri = 0
  · simp only [h0, Nat.zero_add, if_true]
    by_cases h1 : ri = 1
    · subst h1; simp
    · have : ¬ (1 = ri) := by omega
      simp only [this, if_false]
      exact Nat.mod_eq_of_lt (by omega)
  · simp only [h0, if_false]
    have e1 : (ri - c % ri) % ri = ri - c % ri := Nat.mod_eq_of_lt (by omega)
    rw [e1]
    split
    · rename_i he; simp; omega
    · rw [Nat.mod_eq_of_lt (by omega)]; omega

/-- the encoder's output is the `encItems` layout -/
theorem foldl_encStep_out (ri : Nat) (hri : 0 < ri) (items : List (Entry Bytes)) (s : EncState) :
    (items.foldl (encStep ri) s).out = s.out ++ encItems ri (remOf ri s.count) s.base items ∧
    (items.foldl (encStep ri) s).count = s.count + items.length := by
  induction items generalizing s with
  | nil => simp [encItems]
  | cons e t ih =>
    simp only [List.foldl_cons, List.length_cons]
    obtain ⟨h1, h2⟩ := ih (encStep ri s e)
    rw [h1, h2]
    by_cases h0 : s.count % ri = 0
    · have hz : remOf ri s.count = 0 := (remOf_zero_iff ri s.count hri).mpr h0
      simp only [encStep, h0, if_true, encItems, hz, remOf_succ ri s.count hri, List.append_assoc]
      exact ⟨trivial, by omega⟩
    · have hz : remOf ri s.count ≠ 0 := fun hh => h0 ((remOf_zero_iff ri s.count hri).mp hh)
      simp only [encStep, h0, if_false, encItems, hz, remOf_succ ri s.count hri, List.append_assoc]
      exact ⟨trivial, by omega⟩

theorem encodeFull_head (e : Entry Bytes) (tail : Bytes) :
    ∃ r, encodeFull e ++ tail = e.vt.toByte :: r := ⟨_, rfl⟩

theorem encodeTrunc_head (n : Nat) (e : Entry Bytes) (tail : Bytes) :
    ∃ r, encodeTrunc n e ++ tail = e.vt.toByte :: r := ⟨_, rfl⟩

theorem decodeItems_encItems (ri : Nat) (items : List (Entry Bytes)) (hw : ∀ e ∈ items, WfEntry e)
    (fuel rem : Nat) (base tail : Bytes) (hf : items.length + 1 ≤ fuel) :
    decodeItems fuel ri rem base (encItems ri rem base items ++ 255 :: tail) = some items := by
  induction items generalizing fuel rem base with
  | nil =>
    cases fuel with
    | zero => omega
    | succ fuel => simp [encItems, decodeItems]
  | cons e t ih =>
    cases fuel with
    | zero => simp at hf
    | succ fuel =>
      have hwe : WfEntry e := hw e (by simp)
      have hwt : ∀ x ∈ t, WfEntry x := fun x hx => hw x (by simp [hx])
      have hf' : t.length + 1 ≤ fuel := by simp at hf; omega
      by_cases hr : rem = 0
      · subst hr
        simp only [encItems, if_true, List.append_assoc]
        obtain ⟨r, hr'⟩ := encodeFull_head e (encItems ri (ri - 1) e.key t ++ 255 :: tail)
        unfold decodeItems
        rw [hr']
        simp only [vt_toByte_ne_marker, if_false, if_true]
        rw [← hr', decodeFull_encodeFull e hwe]
        simp only [ih hwt fuel (ri - 1) e.key hf', Option.map_some]
      · simp only [encItems, hr, if_false, List.append_assoc]
        obtain ⟨r, hr'⟩ := encodeTrunc_head (sharedPrefixLen base e.key) e (encItems ri (rem - 1) base t ++ 255 :: tail)
        unfold decodeItems
        rw [hr']
        simp only [vt_toByte_ne_marker, if_false, hr]
        rw [← hr', decodeTrunc_encodeTrunc base e hwe]
        simp only [ih hwt fuel (rem - 1) base hf', Option.map_some]

theorem le32_length (n : Nat) : (le32 n).length = 4 := rfl

theorem encodeTrailer_length (ri step a b c : Nat) : (encodeTrailer ri step a b c).length = trailerSize := by
  simp [encodeTrailer, le32_length, trailerSize]

theorem encodeTrailer_head (ri step a b c : Nat) :
    (encodeTrailer ri step a b c).head? = some (UInt8.ofNat ri) := rfl

theorem encItems_length_ge (ri : Nat) (items : List (Entry Bytes)) (rem : Nat) (base : Bytes) :
    items.length ≤ (encItems ri rem base items).length := by
  induction items generalizing rem base with
  | nil => simp [encItems]
  | cons e t ih =>
    simp only [encItems]
    split
    · have := ih (ri - 1) e.key
      simp [encodeFull]; omega
    · have := ih (rem - 1) base
      simp [encodeTrunc]; omega

/-- the encoded block: items, marker, binary index, trailer -/
theorem encodeBlock_layout (ri : Nat) (hri : 0 < ri) (items : List (Entry Bytes)) :
    ∃ bin trailer : Bytes, trailer.length = trailerSize ∧ trailer.head? = some (UInt8.ofNat ri) ∧
      encodeBlock ri items = encItems ri 0 [] items ++ 255 :: (bin ++ trailer) := by
  obtain ⟨h1, h2⟩ := foldl_encStep_out ri hri items ({} : EncState)
  have hz : remOf ri 0 = 0 := (remOf_zero_iff ri 0 hri).mpr (Nat.zero_mod ri)
  simp only [List.nil_append, hz] at h1
  unfold encodeBlock encFinish
  simp only []
  refine ⟨(encodeBinIdx (items.foldl (encStep ri) {}).binIdx).2,
    encodeTrailer ri (encodeBinIdx (items.foldl (encStep ri) {}).binIdx).1
      (items.foldl (encStep ri) {}).binIdx.length ((items.foldl (encStep ri) {}).out ++ [255]).length
      (items.foldl (encStep ri) {}).count,
    encodeTrailer_length _ _ _ _ _, encodeTrailer_head _ _ _ _ _, ?_⟩
  rw [h1]
  simp only [List.append_assoc, List.singleton_append, List.cons_append, List.nil_append]

/-- Forward decoding of an encoded block returns the items. -/
theorem block_roundtrip (ri : Nat) (h1 : 1 ≤ ri) (h2 : ri < 256) (items : List (Entry Bytes))
    (hw : ∀ e ∈ items, WfEntry e) :
    decodeBlock (encodeBlock ri items) = some items := by
  obtain ⟨bin, trailer, hl, hh, he⟩ := encodeBlock_layout ri (by omega) items
  unfold decodeBlock
  rw [he]
  have hlen : (encItems ri 0 [] items ++ 255 :: (bin ++ trailer)).length
      = (encItems ri 0 [] items ++ 255 :: bin).length + trailerSize := by
    simp [hl]; omega
  have hge : ¬ (encItems ri 0 [] items ++ 255 :: (bin ++ trailer)).length < trailerSize := by
    rw [hlen]; omega
  rw [if_neg hge]
  have hdrop : (encItems ri 0 [] items ++ 255 :: (bin ++ trailer)).drop
      ((encItems ri 0 [] items ++ 255 :: (bin ++ trailer)).length - trailerSize) = trailer := by
    rw [hlen, Nat.add_sub_cancel]
    have : encItems ri 0 [] items ++ 255 :: (bin ++ trailer) = (encItems ri 0 [] items ++ 255 :: bin) ++ trailer := by
      simp
    rw [this, List.drop_left]
  rw [hdrop, hh]
  simp only []
  have hri : (UInt8.ofNat ri).toNat = ri := by
    rw [UInt8.toNat_ofNat']; omega
  rw [hri]
  apply decodeItems_encItems ri items hw
  have := encItems_length_ge ri items 0 []
  simp; omega

end Lsm.Codec
