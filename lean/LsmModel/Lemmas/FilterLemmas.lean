import LsmModel.Table.Bloom
import LsmModel.Table.HashIndex
/-!
# FilterLemmas — Bloom filter, block hash index, cache key

* Bloom: both loops (`setLoop` of the builder, `containsLoop` of the reader) walk the same index sequence
  `probeSeq`; bits are only ever set (`Le`, monotonicity); no false negatives; exact characterisation of the built
  bit array; MSB-first byte packing read back by the reader's bit access.
* HashIndex: bucket-wise invariant `Inv` of `Builder::set`; consequences for the three answers of the reader;
  the encoder registers every item when (and only when it matters) the index is written.
-/
namespace Lsm.Bloom

theorem setLoop_eq_foldl (m : Nat) : ∀ (fuel : Nat) (i h1 h2 : UInt64) (bits : List Bool),
    setLoop m fuel i h1 h2 bits = (probeSeq m fuel i h1 h2).foldl (fun b idx => b.set idx true) bits
  | 0, _, _, _, _ => rfl
  | fuel + 1, i, h1, h2, bits => by
    simp only [setLoop, probeSeq, List.foldl_cons]
    exact setLoop_eq_foldl m fuel _ _ _ _

theorem containsLoop_eq_all (m : Nat) (bits : List Bool) : ∀ (fuel : Nat) (i h1 h2 : UInt64),
    containsLoop m bits fuel i h1 h2 = (probeSeq m fuel i h1 h2).all (fun idx => bits.getD idx false)
  | 0, _, _, _ => rfl
  | fuel + 1, i, h1, h2 => by
    simp only [containsLoop, probeSeq, List.all_cons]
    rw [containsLoop_eq_all m bits fuel]
    cases bits.getD (h1.toNat % m) false <;> simp

theorem probeSeq_lt {m : Nat} (hm : 0 < m) : ∀ (fuel : Nat) (i h1 h2 : UInt64),
    ∀ idx ∈ probeSeq m fuel i h1 h2, idx < m
  | 0, _, _, _ => by simp [probeSeq]
  | fuel + 1, i, h1, h2 => by
    intro idx hidx
    simp only [probeSeq, List.mem_cons] at hidx
    rcases hidx with rfl | h
    · exact Nat.mod_lt _ hm
    · exact probeSeq_lt hm fuel _ _ _ idx h

end Lsm.Bloom
namespace Lsm.Bloom

/-- bitwise order: every bit set in `a` is set in `b` -/
def Le (a b : List Bool) : Prop := a.length = b.length ∧ ∀ i, a.getD i false = true → b.getD i false = true

theorem Le.refl (a : List Bool) : Le a a := ⟨rfl, fun _ h => h⟩
theorem Le.trans {a b c : List Bool} (h1 : Le a b) (h2 : Le b c) : Le a c :=
  ⟨h1.1.trans h2.1, fun i h => h2.2 i (h1.2 i h)⟩

theorem le_set (a : List Bool) (idx : Nat) : Le a (a.set idx true) := by
  refine ⟨by simp, ?_⟩
  intro i h
  simp only [List.getD_eq_getElem?_getD] at *
  grind

theorem le_foldl_set (idxs : List Nat) : ∀ (a : List Bool), Le a (idxs.foldl (fun b idx => b.set idx true) a) := by
  induction idxs with
  | nil => exact Le.refl
  | cons x xs ih => intro a; exact Le.trans (le_set a x) (ih _)

theorem foldl_set_sets (idxs : List Nat) : ∀ (a : List Bool), (∀ i ∈ idxs, i < a.length) →
    ∀ i ∈ idxs, (idxs.foldl (fun b idx => b.set idx true) a).getD i false = true := by
  induction idxs with
  | nil => simp
  | cons x xs ih =>
    intro a hlt i hi
    simp only [List.foldl_cons]
    rcases List.mem_cons.mp hi with rfl | hi
    · apply (le_foldl_set xs (a.set i true)).2
      have := hlt i (List.mem_cons_self)
      simp [List.getD_eq_getElem?_getD, this]
    · exact ih _ (by intro j hj; simpa using hlt j (List.mem_cons_of_mem _ hj)) i hi

end Lsm.Bloom
namespace Lsm.Bloom

theorem containsHash_eq (f : Filter) (h : UInt64) :
    containsHash f h = (probes f.m f.k h).all (fun idx => f.bits.getD idx false) :=
  containsLoop_eq_all _ _ _ _ _ _

theorem setWithHash_bits (f : Filter) (h : UInt64) :
    (setWithHash f h).bits = (probes f.m f.k h).foldl (fun b idx => b.set idx true) f.bits :=
  setLoop_eq_foldl _ _ _ _ _ _

@[simp] theorem setWithHash_m (f : Filter) (h : UInt64) : (setWithHash f h).m = f.m := rfl
@[simp] theorem setWithHash_k (f : Filter) (h : UInt64) : (setWithHash f h).k = f.k := rfl

/-- bits are only ever set, never cleared -/
theorem setWithHash_mono (f : Filter) (h : UInt64) : Le f.bits (setWithHash f h).bits := by
  rw [setWithHash_bits]; exact le_foldl_set _ _

theorem foldl_setWithHash_params (hs : List UInt64) : ∀ f : Filter,
    (hs.foldl setWithHash f).m = f.m ∧ (hs.foldl setWithHash f).k = f.k ∧ Le f.bits (hs.foldl setWithHash f).bits := by
  induction hs with
  | nil => intro f; exact ⟨rfl, rfl, Le.refl _⟩
  | cons x xs ih =>
    intro f
    obtain ⟨h1, h2, h3⟩ := ih (setWithHash f x)
    exact ⟨h1, h2, Le.trans (setWithHash_mono f x) h3⟩

/-- membership answers are monotone in the bit array -/
theorem containsHash_mono {f g : Filter} (hm : f.m = g.m) (hk : f.k = g.k) (hle : Le f.bits g.bits) (h : UInt64) :
    containsHash f h = true → containsHash g h = true := by
  rw [containsHash_eq, containsHash_eq, ← hm, ← hk]
  simp only [List.all_eq_true]
  intro hall idx hidx
  exact hle.2 idx (hall idx hidx)

/-- right after insertion the hash is reported as contained -/
theorem containsHash_setWithHash (f : Filter) (hlen : f.bits.length = f.m) (hm : 0 < f.m) (h : UInt64) :
    containsHash (setWithHash f h) h = true := by
  rw [containsHash_eq, setWithHash_bits]
  simp only [List.all_eq_true, setWithHash_m, setWithHash_k]
  intro idx hidx
  apply foldl_set_sets _ _ _ idx hidx
  intro i hi
  rw [hlen]
  exact probeSeq_lt hm _ _ _ _ i hi

theorem foldl_no_false_negative (hs : List UInt64) : ∀ (f : Filter), f.bits.length = f.m → 0 < f.m →
    ∀ h ∈ hs, containsHash (hs.foldl setWithHash f) h = true := by
  induction hs with
  | nil => simp
  | cons x xs ih =>
    intro f hlen hm h hh
    simp only [List.foldl_cons]
    rcases List.mem_cons.mp hh with rfl | hh
    · obtain ⟨h1, h2, h3⟩ := foldl_setWithHash_params xs (setWithHash f h)
      exact containsHash_mono h1.symm h2.symm h3 h (containsHash_setWithHash f hlen hm h)
    · refine ih (setWithHash f x) ?_ hm h hh
      rw [← (setWithHash_mono f x).1]; exact hlen

theorem build_m (m k : Nat) (hs : List UInt64) : (build m k hs).m = m := (foldl_setWithHash_params hs (empty m k)).1
theorem build_k (m k : Nat) (hs : List UInt64) : (build m k hs).k = k := (foldl_setWithHash_params hs (empty m k)).2.1
theorem build_length (m k : Nat) (hs : List UInt64) : (build m k hs).bits.length = m := by
  rw [build, ← (foldl_setWithHash_params hs (empty m k)).2.2.1]; simp [empty]

theorem build_no_false_negative (m k : Nat) (hm : 0 < m) (hashes : List UInt64) (h : UInt64) (hh : h ∈ hashes) :
    containsHash (build m k hashes) h = true :=
  foldl_no_false_negative hashes (empty m k) (by simp [empty]) hm h hh

/-- k = 0: the reader loop is empty and answers `true` for every hash, whatever the bits are -/
theorem containsHash_k_zero (f : Filter) (hk : f.k = 0) (h : UInt64) : containsHash f h = true := by
  simp [containsHash, hk, containsLoop]

/-- k = 0: the builder never sets a bit -/
theorem setWithHash_k_zero (f : Filter) (hk : f.k = 0) (h : UInt64) : setWithHash f h = f := by
  cases f; simp_all [setWithHash, setLoop]

/-- an empty filter (no keys inserted) with k ≥ 1 and m > 0 rejects everything -/
theorem containsHash_empty (m k : Nat) (hk : 0 < k) (h : UInt64) (hm : 0 < m) : containsHash (empty m k) h = false := by
  obtain ⟨k, rfl⟩ : ∃ k', k = k' + 1 := ⟨k - 1, by omega⟩
  simp [containsHash, empty, containsLoop, List.getD_eq_getElem?_getD, Nat.mod_lt _ hm]

theorem foldl_set_getD_iff (idxs : List Nat) : ∀ (a : List Bool) (i : Nat),
    (idxs.foldl (fun b idx => b.set idx true) a).getD i false = true ↔
      (a.getD i false = true ∨ (i ∈ idxs ∧ i < a.length)) := by
  induction idxs with
  | nil => simp
  | cons x xs ih =>
    intro a i
    simp only [List.foldl_cons, List.mem_cons, List.getD_eq_getElem?_getD]
    grind

theorem foldl_setWithHash_bit_iff (hs : List UInt64) : ∀ (f : Filter), f.bits.length = f.m → 0 < f.m → ∀ i,
    ((hs.foldl setWithHash f).bits.getD i false = true ↔
      (f.bits.getD i false = true ∨ ∃ h ∈ hs, i ∈ probes f.m f.k h)) := by
  induction hs with
  | nil => simp
  | cons x xs ih =>
    intro f hlen hm i
    have hlen' : (setWithHash f x).bits.length = (setWithHash f x).m := by
      rw [← (setWithHash_mono f x).1]; exact hlen
    simp only [List.foldl_cons]
    rw [ih (setWithHash f x) hlen' hm i, setWithHash_bits, foldl_set_getD_iff]
    simp only [setWithHash_m, setWithHash_k, List.mem_cons, hlen]
    constructor
    · rintro ((h | ⟨h, _⟩) | ⟨h, hh, hp⟩)
      · exact Or.inl h
      · exact Or.inr ⟨x, Or.inl rfl, h⟩
      · exact Or.inr ⟨h, Or.inr hh, hp⟩
    · rintro (h | ⟨h, rfl | hh, hp⟩)
      · exact Or.inl (Or.inl h)
      · exact Or.inl (Or.inr ⟨hp, probeSeq_lt hm _ _ _ _ i hp⟩)
      · exact Or.inr ⟨h, hh, hp⟩

/-- a set bit is explained by some inserted hash: exact characterisation of the built bit array -/
theorem build_bit_iff (m k : Nat) (hm : 0 < m) (hashes : List UInt64) (i : Nat) :
    (build m k hashes).bits.getD i false = true ↔ ∃ h ∈ hashes, i ∈ probes m k h := by
  rw [build, foldl_setWithHash_bit_iff hashes (empty m k) (by simp [empty]) hm i]
  simp [empty, List.getD_eq_getElem?_getD, List.getElem?_replicate]
  intro h; split at h <;> simp_all

/-- the reader's answer on a built filter, in closed form: every probe of `h` is a probe of some inserted hash -/
theorem containsHash_build_iff (m k : Nat) (hm : 0 < m) (hashes : List UInt64) (h : UInt64) :
    containsHash (build m k hashes) h = true ↔ ∀ i ∈ probes m k h, ∃ h' ∈ hashes, i ∈ probes m k h' := by
  rw [containsHash_eq, build_m, build_k]
  simp only [List.all_eq_true, build_bit_iff m k hm]

end Lsm.Bloom

namespace Lsm.Bloom

def sel8 (b0 b1 b2 b3 b4 b5 b6 b7 : Bool) : Nat → Bool
  | 0 => b0 | 1 => b1 | 2 => b2 | 3 => b3 | 4 => b4 | 5 => b5 | 6 => b6 | 7 => b7 | _ => false

theorem pack8_bit : ∀ (b0 b1 b2 b3 b4 b5 b6 b7 : Bool) (b : Fin 8),
    decide ((pack8 b0 b1 b2 b3 b4 b5 b6 b7 &&& ((0x80 : UInt8) >>> UInt8.ofNat b.val)) > 0) = sel8 b0 b1 b2 b3 b4 b5 b6 b7 b.val := by
  decide

theorem readBit_toBytes (bits : List Bool) (idx : Nat) : readBit (toBytes bits) idx = bits.getD idx false := by
  unfold readBit toBytes
  by_cases hlt : idx / 8 < (bits.length + 7) / 8
  · have hb : idx % 8 < 8 := Nat.mod_lt _ (by decide)
    have := pack8_bit (bits.getD (8 * (idx/8)) false) (bits.getD (8 * (idx/8) + 1) false) (bits.getD (8 * (idx/8) + 2) false)
      (bits.getD (8 * (idx/8) + 3) false) (bits.getD (8 * (idx/8) + 4) false) (bits.getD (8 * (idx/8) + 5) false)
      (bits.getD (8 * (idx/8) + 6) false) (bits.getD (8 * (idx/8) + 7) false) ⟨idx % 8, hb⟩
    simp only [List.getD_eq_getElem?_getD, List.getElem?_map, List.getElem?_range hlt, Option.map_some, Option.getD_some]
    simp only [List.getD_eq_getElem?_getD, packByte] at this ⊢
    rw [this]
    have hidx : idx = 8 * (idx / 8) + idx % 8 := by omega
    generalize idx / 8 = q at *
    generalize idx % 8 = r at *
    subst hidx
    match r, hb with
    | 0, _ | 1, _ | 2, _ | 3, _ | 4, _ | 5, _ | 6, _ | 7, _ => simp [sel8]
  · have h1 : (List.map (packByte bits) (List.range ((bits.length + 7) / 8))).getD (idx / 8) 0 = 0 := by
      simp only [List.getD_eq_getElem?_getD]
      rw [List.getElem?_eq_none (by simp; omega)]; rfl
    have h2 : bits.getD idx false = false := by
      simp only [List.getD_eq_getElem?_getD]
      rw [List.getElem?_eq_none (by omega)]; rfl
    rw [h1, h2]
    simp

end Lsm.Bloom

namespace Lsm.HashIndex

/-- a position that is not a marker value -/
def ValidPos (p : UInt8) : Prop := p ≠ MARKER_FREE ∧ p ≠ MARKER_CONFLICT

theorem validPos_iff (p : UInt8) : ValidPos p ↔ p.toNat < MAX_POINTERS := by
  unfold ValidPos MARKER_FREE MARKER_CONFLICT MAX_POINTERS
  rw [ne_eq, ne_eq, ← UInt8.toNat_inj, ← UInt8.toNat_inj]
  have := p.toNat_lt
  simp
  omega

@[simp] theorem setBucket_length (bs : List UInt8) (h : UInt64) (p : UInt8) : (setBucket bs h p).length = bs.length := by
  unfold setBucket; simp only; repeat' split
  all_goals simp

/-- the transition of one bucket byte in `Builder::set` -/
def stepByte (cur pos : UInt8) : UInt8 :=
  if cur = MARKER_CONFLICT then cur else if cur = MARKER_FREE then pos else if cur = pos then cur else MARKER_CONFLICT

theorem getD_setBucket (bs : List UInt8) (h : UInt64) (p : UInt8) (b : Nat) (hb : b < bs.length) :
    (setBucket bs h p).getD b MARKER_FREE =
      if b = bucketOf bs.length h then stepByte (bs.getD b MARKER_FREE) p else bs.getD b MARKER_FREE := by
  unfold setBucket stepByte
  simp only [List.getD_eq_getElem?_getD]
  grind

/-- the state of the builder after the registrations `seen`, bucket by bucket -/
structure Inv (n : Nat) (bs : List UInt8) (seen : List (UInt64 × UInt8)) : Prop where
  len : bs.length = n
  free : ∀ b < n, bs.getD b MARKER_FREE = MARKER_FREE → ∀ e ∈ seen, bucketOf n e.1 ≠ b
  pos : ∀ b < n, ∀ v, bs.getD b MARKER_FREE = v → ValidPos v →
    (∀ e ∈ seen, bucketOf n e.1 = b → e.2 = v) ∧ ∃ e ∈ seen, bucketOf n e.1 = b
  conflict : ∀ b < n, bs.getD b MARKER_FREE = MARKER_CONFLICT →
    ∃ e1 ∈ seen, ∃ e2 ∈ seen, bucketOf n e1.1 = b ∧ bucketOf n e2.1 = b ∧ e1.2 ≠ e2.2

theorem inv_empty (n : Nat) : Inv n (emptyIndex n) [] := by
  refine ⟨by simp [emptyIndex], by simp, ?_, ?_⟩
  · intro b hb v hv hvalid
    simp [emptyIndex, List.getD_eq_getElem?_getD, hb] at hv
    exact absurd hv.symm hvalid.1
  · intro b hb hv
    simp [emptyIndex, List.getD_eq_getElem?_getD, hb] at hv
    exact absurd hv (by decide)

theorem inv_step {n : Nat} (hn : 0 < n) {bs : List UInt8} {seen : List (UInt64 × UInt8)} (hinv : Inv n bs seen)
    (h : UInt64) (p : UInt8) (hp : ValidPos p) : Inv n (setBucket bs h p) (seen ++ [(h, p)]) := by
  obtain ⟨hlen, hfree, hpos, hconf⟩ := hinv
  subst hlen
  unfold ValidPos at *
  have hne : MARKER_CONFLICT ≠ MARKER_FREE := by decide
  refine ⟨by simp, ?_, ?_, ?_⟩
  all_goals
    intro b hbn
    have hf := hfree b hbn
    have hp' := hpos b hbn
    have hc := hconf b hbn
    clear hfree hpos hconf
    rw [getD_setBucket _ _ _ _ hbn]
    unfold stepByte
    generalize bs.getD b MARKER_FREE = cur at *
    simp only [List.mem_append, List.mem_singleton, ValidPos]
  · grind
  · grind
  · intro hv
    by_cases hcur : cur = MARKER_CONFLICT
    · obtain ⟨e1, h1, e2, h2, hh⟩ := hc hcur
      exact ⟨e1, Or.inl h1, e2, Or.inl h2, hh⟩
    · by_cases hbb : b = bucketOf bs.length h
      · have hcf : cur ≠ MARKER_FREE := by grind
        have hcp : cur ≠ p := by grind
        obtain ⟨hall, e, he, heb⟩ := hp' cur rfl ⟨hcf, hcur⟩
        refine ⟨e, Or.inl he, (h, p), Or.inr rfl, heb, hbb.symm, ?_⟩
        rw [hall e he heb]; exact hcp
      · simp [hbb] at hv; exact absurd hv hcur

theorem inv_foldl {n : Nat} (hn : 0 < n) (rest : List (UInt64 × UInt8)) : ∀ (bs : List UInt8) (seen : List (UInt64 × UInt8)),
    Inv n bs seen → (∀ e ∈ rest, ValidPos e.2) →
    Inv n (rest.foldl (fun bs e => setBucket bs e.1 e.2) bs) (seen ++ rest) := by
  induction rest with
  | nil => intro bs seen h _; simpa using h
  | cons x xs ih =>
    intro bs seen h hv
    have := ih _ _ (inv_step hn h x.1 x.2 (hv x List.mem_cons_self)) (fun e he => hv e (List.mem_cons_of_mem _ he))
    simpa using this

theorem inv_buildH {n : Nat} (hn : 0 < n) (entries : List (UInt64 × UInt8)) (hv : ∀ e ∈ entries, ValidPos e.2) :
    Inv n (buildH n entries) entries := by
  have := inv_foldl hn entries _ _ (inv_empty n) hv
  simpa [buildH] using this

theorem buildH_length (n : Nat) (entries : List (UInt64 × UInt8)) : (buildH n entries).length = n := by
  unfold buildH
  suffices ∀ bs : List UInt8, (entries.foldl (fun bs e => setBucket bs e.1 e.2) bs).length = bs.length by
    rw [this]; simp [emptyIndex]
  induction entries with
  | nil => intro bs; rfl
  | cons x xs ih => intro bs; simp [ih]

theorem buildH_append (n : Nat) (l : List (UInt64 × UInt8)) (h : UInt64) (p : UInt8) :
    buildH n (l ++ [(h, p)]) = setBucket (buildH n l) h p := by
  simp [buildH, List.foldl_append]

theorem decode_found {b q : UInt8} (h : decode b = .found q) : b = q ∧ ValidPos q := by
  unfold decode at h
  split at h; · cases h
  split at h; · cases h
  cases h; exact ⟨rfl, ‹_›, ‹_›⟩

theorem decode_notFound {b : UInt8} (h : decode b = .notFound) : b = MARKER_FREE := by
  unfold decode at h
  split at h; · assumption
  split at h <;> cases h

theorem decode_conflicted {b : UInt8} (h : decode b = .conflicted) : b = MARKER_CONFLICT := by
  unfold decode at h
  split at h; · cases h
  split at h; · assumption
  cases h

section
variable {n : Nat} (hn : 0 < n) (entries : List (UInt64 × UInt8)) (hv : ∀ e ∈ entries, ValidPos e.2)
include hn hv

/-- a registered key is never reported absent and never sent to a wrong restart interval -/
theorem getH_registered (h : UInt64) (p : UInt8) (hmem : (h, p) ∈ entries) :
    getH (buildH n entries) h = .found p ∨ getH (buildH n entries) h = .conflicted := by
  have inv := inv_buildH hn entries hv
  have hb : bucketOf n h < n := Nat.mod_lt _ hn
  unfold getH getRaw
  rw [buildH_length]
  generalize hcur : (buildH n entries).getD (bucketOf n h) MARKER_FREE = cur
  by_cases h1 : cur = MARKER_FREE
  · exact absurd rfl (inv.free _ hb (hcur.trans h1) (h, p) hmem)
  · by_cases h2 : cur = MARKER_CONFLICT
    · right; simp [decode, h2]; decide
    · left
      have := (inv.pos _ hb cur hcur ⟨h1, h2⟩).1 (h, p) hmem rfl
      simp only at this
      simp [decode, h1, h2, this]

/-- `found q`: q is a real position and EVERY registration that falls into the bucket of `h` carries q;
    at least one such registration exists -/
theorem getH_found (h : UInt64) (q : UInt8) (hget : getH (buildH n entries) h = .found q) :
    ValidPos q ∧ (∀ e ∈ entries, bucketOf n e.1 = bucketOf n h → e.2 = q) ∧
      ∃ e ∈ entries, bucketOf n e.1 = bucketOf n h ∧ e.2 = q := by
  have inv := inv_buildH hn entries hv
  have hb : bucketOf n h < n := Nat.mod_lt _ hn
  unfold getH getRaw at hget
  rw [buildH_length] at hget
  obtain ⟨hraw, hq⟩ := decode_found hget
  obtain ⟨hall, e, he, heb⟩ := inv.pos _ hb q hraw hq
  exact ⟨hq, hall, e, he, heb, hall e he heb⟩

/-- `notFound`: nothing was registered in the bucket of `h`; in particular `h` itself was not registered -/
theorem getH_notFound (h : UInt64) (hget : getH (buildH n entries) h = .notFound) :
    ∀ e ∈ entries, bucketOf n e.1 ≠ bucketOf n h := by
  have inv := inv_buildH hn entries hv
  have hb : bucketOf n h < n := Nat.mod_lt _ hn
  unfold getH getRaw at hget
  rw [buildH_length] at hget
  exact inv.free _ hb (decode_notFound hget)

/-- `conflicted` is only reported when two registrations with different positions met in the bucket -/
theorem getH_conflicted (h : UInt64) (hget : getH (buildH n entries) h = .conflicted) :
    ∃ e1 ∈ entries, ∃ e2 ∈ entries, bucketOf n e1.1 = bucketOf n h ∧ bucketOf n e2.1 = bucketOf n h ∧ e1.2 ≠ e2.2 := by
  have inv := inv_buildH hn entries hv
  have hb : bucketOf n h < n := Nat.mod_lt _ hn
  unfold getH getRaw at hget
  rw [buildH_length] at hget
  exact inv.conflict _ hb (decode_conflicted hget)

end

end Lsm.HashIndex

namespace Lsm.HashIndex

theorem idealRegs_append (v : Nat) (l : List UInt64) (h : UInt64) :
    idealRegs v (l ++ [h]) = idealRegs v l ++ [(h, l.length / v)] := by
  simp [idealRegs, List.zipIdx_append]

theorem regs8_append (v : Nat) (l : List UInt64) (h : UInt64) :
    regs8 v (l ++ [h]) = regs8 v l ++ [(h, UInt8.ofNat (l.length / v))] := by
  simp [regs8, idealRegs_append]

theorem restartsAfter_succ (v c : Nat) :
    (if c % v = 0 then restartsAfter v c + 1 else restartsAfter v c) = c / v + 1 := by
  unfold restartsAfter
  cases c with
  | zero => simp
  | succ c' =>
    simp only [Nat.add_sub_cancel, Nat.succ_ne_zero, if_false]
    by_cases hd : (c' + 1) % v = 0
    · rw [if_pos hd, Nat.succ_div_of_dvd (Nat.dvd_iff_mod_eq_zero.mpr hd)]
    · rw [if_neg hd, Nat.succ_div_of_not_dvd (fun h => hd (Nat.dvd_iff_mod_eq_zero.mp h))]

theorem restartsAfter_succ' (v c : Nat) : restartsAfter v (c + 1) = c / v + 1 := by
  simp [restartsAfter]

theorem restartsAfter_mono (v c : Nat) : restartsAfter v c ≤ restartsAfter v (c + 1) := by
  rw [restartsAfter_succ' v _]
  unfold restartsAfter
  split
  · exact Nat.zero_le _
  · have : (c - 1) / v ≤ c / v := Nat.div_le_div_right (Nat.sub_le c 1)
    omega

/-- state of the encoder after the items `done` -/
structure EInv (n v : Nat) (s : EncState) (done : List UInt64) : Prop where
  count : s.itemCount = done.length
  restarts : s.restartCount = restartsAfter v done.length
  len : s.buckets.length = n
  regs : s.restartCount ≤ MAX_POINTERS → s.buckets = buildH n (regs8 v done)

theorem einv_step {n v : Nat} (hn : 0 < n) {s : EncState} {done : List UInt64}
    (inv : EInv n v s done) (h : UInt64) : EInv n v (encWrite v s h) (done ++ [h]) := by
  obtain ⟨hc, hr, hl, hregs⟩ := inv
  have hrc : (if s.itemCount % v = 0 then s.restartCount + 1 else s.restartCount) = done.length / v + 1 := by
    rw [hc, hr]; exact restartsAfter_succ v _
  refine ⟨by simp [encWrite, hc], ?_, ?_, ?_⟩
  · simp only [encWrite, hrc, List.length_append, List.length_singleton, restartsAfter_succ' v _]
  · simp only [encWrite]; (repeat' split) <;> simp [hl]
  · simp only [encWrite, hrc, Nat.add_sub_cancel, hl]
    intro hle
    have hlt : done.length / v < MAX_POINTERS := by omega
    have hprev : s.restartCount ≤ MAX_POINTERS := by
      have := restartsAfter_mono v done.length
      rw [restartsAfter_succ' v _, ← hr] at this
      omega
    rw [if_pos ⟨hn, hlt⟩, regs8_append, buildH_append, hregs hprev]

theorem einv_foldl {n v : Nat} (hn : 0 < n) (rest : List UInt64) : ∀ (s : EncState) (done : List UInt64),
    EInv n v s done → EInv n v (rest.foldl (encWrite v) s) (done ++ rest) := by
  induction rest with
  | nil => intro s done h; simpa using h
  | cons x xs ih =>
    intro s done h
    have := ih _ _ (einv_step hn h x)
    simpa using this

theorem einv_encode {n v : Nat} (hn : 0 < n) (hs : List UInt64) : EInv n v (encode n v hs) hs := by
  have h0 : EInv n v { itemCount := 0, restartCount := 0, buckets := emptyIndex n } [] :=
    ⟨rfl, rfl, by simp [emptyIndex], fun _ => rfl⟩
  have := einv_foldl hn hs _ _ h0
  simpa [encode] using this

/-- every position the encoder would register is below the restart count -/
theorem idealRegs_lt (v : Nat) (hs : List UInt64) : ∀ e ∈ idealRegs v hs, e.2 < restartsAfter v hs.length := by
  intro e he
  simp only [idealRegs, List.mem_map] at he
  obtain ⟨⟨h, i⟩, hmem, rfl⟩ := he
  obtain ⟨_, hi, _⟩ := List.mem_zipIdx hmem
  simp only at hi ⊢
  unfold restartsAfter
  have : hs.length ≠ 0 := by omega
  rw [if_neg this]
  have : i / v ≤ (hs.length - 1) / v := Nat.div_le_div_right (show i ≤ hs.length - 1 by omega)
  omega

theorem mem_idealRegs {v : Nat} {hs : List UInt64} {h : UInt64} {q : Nat} :
    (h, q) ∈ idealRegs v hs ↔ ∃ i, ∃ hi : i < hs.length, hs[i] = h ∧ i / v = q := by
  simp only [idealRegs, List.mem_map, Prod.mk.injEq]
  constructor
  · rintro ⟨⟨h', i⟩, hmem, rfl, rfl⟩
    obtain ⟨_, hi, heq⟩ := List.mem_zipIdx hmem
    simp at hi heq
    exact ⟨i, hi, heq.symm, rfl⟩
  · rintro ⟨i, hi, rfl, rfl⟩
    exact ⟨(hs[i], i), by simp [List.mem_zipIdx_iff_getElem?, hi], rfl, rfl⟩

theorem encWrite_length (v : Nat) (s : EncState) (h : UInt64) : (encWrite v s h).buckets.length = s.buckets.length := by
  simp only [encWrite]; (repeat' split) <;> simp

theorem encode_buckets_length (n v : Nat) (hs : List UInt64) : (encode n v hs).buckets.length = n := by
  unfold encode
  suffices ∀ s : EncState, (hs.foldl (encWrite v) s).buckets.length = s.buckets.length by
    rw [this]; simp [emptyIndex]
  induction hs with
  | nil => intro s; rfl
  | cons x xs ih => intro s; simp [ih, encWrite_length]

theorem indexWritten_iff (n v : Nat) (hs : List UInt64) :
    indexWritten (encode n v hs) = true ↔ 0 < n ∧ (encode n v hs).restartCount ≤ MAX_POINTERS := by
  simp [indexWritten, encode_buckets_length]

/-- item and restart counters of the encoder in closed form -/
theorem encode_counts {n : Nat} (hn : 0 < n) (v : Nat) (hs : List UInt64) :
    (encode n v hs).itemCount = hs.length ∧ (encode n v hs).restartCount = restartsAfter v hs.length :=
  ⟨(einv_encode hn hs).count, (einv_encode hn hs).restarts⟩

theorem validPos_ofNat {j : Nat} (hj : j < MAX_POINTERS) : ValidPos (UInt8.ofNat j) ∧ (UInt8.ofNat j).toNat = j := by
  have : (UInt8.ofNat j).toNat = j := by
    rw [UInt8.toNat_ofNat']; unfold MAX_POINTERS at hj; omega
  exact ⟨(validPos_iff _).mpr (by rw [this]; exact hj), this⟩

/-- If the hash index is written into the block, no registration was skipped by the `restart_idx < 254` guard:
    the index is exactly the one built from ALL items, item i registered with restart interval i / interval. -/
theorem encode_written_all_registered {n v : Nat} {hs : List UInt64} (hw : indexWritten (encode n v hs) = true) :
    (encode n v hs).buckets = buildH n (regs8 v hs) ∧ (∀ e ∈ idealRegs v hs, e.2 < MAX_POINTERS) ∧
      ∀ e ∈ regs8 v hs, ValidPos e.2 := by
  obtain ⟨hn, hrc⟩ := (indexWritten_iff n v hs).mp hw
  have inv := einv_encode (v := v) hn hs
  have hlt : ∀ e ∈ idealRegs v hs, e.2 < MAX_POINTERS := by
    intro e he
    have := idealRegs_lt v hs e he
    rw [← inv.restarts] at this
    omega
  refine ⟨inv.regs hrc, hlt, ?_⟩
  intro e he
  simp only [regs8, List.mem_map] at he
  obtain ⟨e', he', rfl⟩ := he
  exact (validPos_ofNat (hlt e' he')).1

/-- the index is not written iff there are no buckets (ratio 0) or more than 254 restart intervals -/
theorem blockIndex_none_iff (n v : Nat) (hs : List UInt64) :
    blockIndex (encode n v hs) = none ↔ (n = 0 ∨ MAX_POINTERS < (encode n v hs).restartCount) := by
  unfold blockIndex
  have := indexWritten_iff n v hs
  cases hw : indexWritten (encode n v hs)
  · simp only [Bool.false_eq_true, if_false, true_iff]
    rw [hw] at this
    simp only [Bool.false_eq_true, false_iff] at this
    omega
  · simp only [if_true, false_iff, reduceCtorEq]
    have := this.mp hw
    omega

/-- `point_read` returns "absent" straight from the hash index only for keys that are not in the block -/
theorem pointRead_absent_sound (n v : Nat) (hs : List UInt64) (h : UInt64)
    (hplan : pointReadPlan (blockIndex (encode n v hs)) h = .absent) : h ∉ hs := by
  unfold blockIndex at hplan
  cases hw : indexWritten (encode n v hs)
  · simp [hw, pointReadPlan] at hplan
  · obtain ⟨hn, _⟩ := (indexWritten_iff n v hs).mp hw
    obtain ⟨hb, _, hvalid⟩ := encode_written_all_registered hw
    simp only [hw, if_true, pointReadPlan, hb] at hplan
    have hnf : getH (buildH n (regs8 v hs)) h = .notFound := by
      cases hg : getH (buildH n (regs8 v hs)) h <;> simp [hg] at hplan
      rfl
    intro hmem
    obtain ⟨i, hi, rfl⟩ := List.getElem_of_mem hmem
    have hreg : (hs[i], UInt8.ofNat (i / v)) ∈ regs8 v hs := by
      simp only [regs8, List.mem_map]
      exact ⟨(hs[i], i / v), mem_idealRegs.mpr ⟨i, hi, rfl, rfl⟩, rfl⟩
    exact getH_notFound hn _ hvalid _ hnf _ hreg rfl

/-- `point_read` starting its scan at restart interval q: q is an existing interval, and EVERY item of the block
    whose key hash falls into the needle's bucket — in particular every item with the needle's key — lies in
    interval q (item i lies in interval i / interval). -/
theorem pointRead_scanFrom_sound (n v : Nat) (hs : List UInt64) (h : UInt64) (q : Nat)
    (hplan : pointReadPlan (blockIndex (encode n v hs)) h = .scanFrom q) :
    q < (encode n v hs).restartCount ∧
      ∀ i, ∀ hi : i < hs.length, bucketOf n hs[i] = bucketOf n h → i / v = q := by
  unfold blockIndex at hplan
  cases hw : indexWritten (encode n v hs)
  · simp [hw, pointReadPlan] at hplan
  · obtain ⟨hn, _⟩ := (indexWritten_iff n v hs).mp hw
    obtain ⟨hb, hlt, hvalid⟩ := encode_written_all_registered hw
    simp only [hw, if_true, pointReadPlan, hb] at hplan
    obtain ⟨p, hf, rfl⟩ : ∃ p, getH (buildH n (regs8 v hs)) h = .found p ∧ p.toNat = q := by
      cases hg : getH (buildH n (regs8 v hs)) h <;> simp [hg] at hplan
      exact ⟨_, rfl, hplan⟩
    obtain ⟨_, hall, e, he, heb, hep⟩ := getH_found hn _ hvalid h p hf
    constructor
    · simp only [regs8, List.mem_map] at he
      obtain ⟨e', he', rfl⟩ := he
      simp only at hep
      rw [← hep, (validPos_ofNat (hlt e' he')).2, (encode_counts hn v hs).2]
      exact idealRegs_lt v hs e' he'
    · intro i hi hbk
      have hmem : (hs[i], i / v) ∈ idealRegs v hs := mem_idealRegs.mpr ⟨i, hi, rfl, rfl⟩
      have hreg : (hs[i], UInt8.ofNat (i / v)) ∈ regs8 v hs := by
        simp only [regs8, List.mem_map]; exact ⟨_, hmem, rfl⟩
      have := hall _ hreg hbk
      simp only at this
      rw [← this, (validPos_ofNat (hlt _ hmem)).2]

end Lsm.HashIndex

namespace Lsm.HashIndex

/-! ### key-level statements: any key type, any hash function -/
section
variable {Key : Type} {n : Nat} (hn : 0 < n) (hashOf : Key → UInt64) (entries : List (Key × UInt8))
  (hv : ∀ e ∈ entries, ValidPos e.2)
include hn hv

omit hn in
private theorem valid_map : ∀ e ∈ entries.map (fun e => (hashOf e.1, e.2)), ValidPos e.2 := by
  intro e he
  obtain ⟨e', he', rfl⟩ := List.mem_map.mp he
  exact hv e' he'

theorem get_registered (k : Key) (p : UInt8) (hmem : (k, p) ∈ entries) :
    get (build n hashOf entries) hashOf k = .found p ∨ get (build n hashOf entries) hashOf k = .conflicted :=
  getH_registered hn _ (valid_map hashOf entries hv) (hashOf k) p (List.mem_map.mpr ⟨(k, p), hmem, rfl⟩)

theorem get_found (k : Key) (q : UInt8) (hget : get (build n hashOf entries) hashOf k = .found q) :
    ValidPos q ∧ (∀ e ∈ entries, bucketOf n (hashOf e.1) = bucketOf n (hashOf k) → e.2 = q) ∧
      ∃ e ∈ entries, bucketOf n (hashOf e.1) = bucketOf n (hashOf k) ∧ e.2 = q := by
  obtain ⟨h1, h2, e, he, h3, h4⟩ := getH_found hn _ (valid_map hashOf entries hv) (hashOf k) q hget
  refine ⟨h1, ?_, ?_⟩
  · intro e he hb
    exact h2 (hashOf e.1, e.2) (List.mem_map.mpr ⟨e, he, rfl⟩) hb
  · obtain ⟨e', he', rfl⟩ := List.mem_map.mp he
    exact ⟨e', he', h3, h4⟩

theorem get_notFound (k : Key) (hget : get (build n hashOf entries) hashOf k = .notFound) :
    ∀ e ∈ entries, bucketOf n (hashOf e.1) ≠ bucketOf n (hashOf k) := by
  intro e he
  exact getH_notFound hn _ (valid_map hashOf entries hv) (hashOf k) hget (hashOf e.1, e.2)
    (List.mem_map.mpr ⟨e, he, rfl⟩)

theorem get_conflicted (k : Key) (hget : get (build n hashOf entries) hashOf k = .conflicted) :
    ∃ e1 ∈ entries, ∃ e2 ∈ entries, bucketOf n (hashOf e1.1) = bucketOf n (hashOf k) ∧
      bucketOf n (hashOf e2.1) = bucketOf n (hashOf k) ∧ e1.2 ≠ e2.2 := by
  obtain ⟨e1, h1, e2, h2, hh⟩ := getH_conflicted hn _ (valid_map hashOf entries hv) (hashOf k) hget
  obtain ⟨a, ha, rfl⟩ := List.mem_map.mp h1
  obtain ⟨b, hb, rfl⟩ := List.mem_map.mp h2
  exact ⟨a, ha, b, hb, hh⟩

end
end Lsm.HashIndex

namespace Lsm.Cache

theorem key_injective : ∀ a b : Ref, a.key = b.key → a = b := by
  intro a b h
  cases a <;> cases b <;> simp [Ref.key, TAG_BLOCK, TAG_BLOB] at h ⊢
  all_goals first | exact h | (exact absurd h.1 (by decide))

end Lsm.Cache
