import LsmModel.Tree.Ops
import LsmModel.Lemmas.SnapshotLemmas
import LsmModel.Lemmas.CStreamLemmas
import LsmModel.Lemmas.MergeLemmas
import LsmModel.Lemmas.VersionLemmas
import LsmModel.Lemmas.ContentLemmas
/-
  LsmModel.Lemmas.SepLemmas — key-value separation is invisible (C08).

  `eraseIndir` turns an indirection entry back into a plain value entry (same key, seqno, bytes); `eraseState`
  applies it to every stored entry of a tree state and switches separation off. Every function of the model
  commutes with this erasure, the GC stream `cstream` under the side condition that its input holds no weak
  tombstone (the `(weak, value)` pair rule is the only place where `.value` and `.indir` are told apart).

  Structure:
    * entry level      — `eraseIndir`, `eraseIndir_separate`, preservation of key / seqno / val / isTomb
    * list level       — `merge2`, `mergeAll`, `memInsert`, `newest`, `memGet`, `live`, `drainKey`, `cstream`,
                         `mvccNext`, `mvccNextBack`, `liveStep`, `liveRun`
    * table level      — `eraseTable`, `cutTables`, `optimizeRuns`, `removeIds`, `getForKey`
    * version level    — `eraseVersion`, `withNewL0Run`, `withMerge`, `withMoved`, `withDropped`, `versionGet`
    * state level      — `eraseSv`, `eraseMem`, `eraseState`, every critical section, `applyOp`, `run`
    * invariant        — `c08_NoWeak` (no weak tombstone stored anywhere), preserved by every `c08_opOk` operation
    * reads            — `c08_getAt_erase`, `c08_scanAt_erase`
-/
namespace Lsm
set_option linter.unusedSectionVars false
variable {K : Type}

/-! ## entry level -/

/-- forget that a value is stored as an indirection -/
def eraseIndir (e : Entry K) : Entry K := if e.vt = .indir then { e with vt := .value } else e

@[simp] theorem eraseIndir_key (e : Entry K) : (eraseIndir e).key = e.key := by
  unfold eraseIndir; split <;> rfl

@[simp] theorem eraseIndir_seqno (e : Entry K) : (eraseIndir e).seqno = e.seqno := by
  unfold eraseIndir; split <;> rfl

@[simp] theorem eraseIndir_val (e : Entry K) : (eraseIndir e).val = e.val := by
  unfold eraseIndir; split <;> rfl

theorem eraseIndir_vt (e : Entry K) : (eraseIndir e).vt = if e.vt = .indir then .value else e.vt := by
  unfold eraseIndir; split <;> rfl

@[simp] theorem eraseIndir_vt_tomb (e : Entry K) : (eraseIndir e).vt = .tomb ↔ e.vt = .tomb := by
  rw [eraseIndir_vt]; split <;> simp_all

@[simp] theorem eraseIndir_vt_weak (e : Entry K) : (eraseIndir e).vt = .weak ↔ e.vt = .weak := by
  rw [eraseIndir_vt]; split <;> simp_all

@[simp] theorem eraseIndir_vt_ne_indir (e : Entry K) : (eraseIndir e).vt ≠ .indir := by
  rw [eraseIndir_vt]; split <;> simp_all

@[simp] theorem eraseIndir_isTomb (e : Entry K) : (eraseIndir e).isTomb = e.isTomb := by
  unfold Entry.isTomb; rw [eraseIndir_vt]; split
  · next h => rw [h]; rfl
  · rfl

@[simp] theorem eraseIndir_idem (e : Entry K) : eraseIndir (eraseIndir e) = eraseIndir e := by
  unfold eraseIndir; split <;> simp_all

/-- entries as the API hands them in (plain values and strong tombstones) are not changed -/
theorem eraseIndir_of_plain {e : Entry K} (h : e.vt = .value ∨ e.vt = .tomb) : eraseIndir e = e := by
  unfold eraseIndir; rcases h with h | h <;> simp [h]

/-- the erasure undoes key-value separation -/
@[simp] theorem eraseIndir_separate (th : Option Nat) (e : Entry K) :
    eraseIndir (separate th e) = eraseIndir e := by
  unfold separate
  cases th with
  | none => rfl
  | some n =>
    simp only
    split
    · next h => unfold eraseIndir; simp [h.1]; cases e; simp_all
    · rfl

theorem c08_separate_vt_weak (th : Option Nat) (e : Entry K) : (separate th e).vt = .weak ↔ e.vt = .weak := by
  unfold separate
  cases th with
  | none => rfl
  | some n =>
    simp only
    split
    · next h => simp [h.1]
    · rfl

theorem c08_map_separate (th : Option Nat) (l : List (Entry K)) :
    (l.map (separate th)).map eraseIndir = l.map eraseIndir := by
  simp [List.map_map, Function.comp_def]

theorem c08_map_plain {l : List (Entry K)} (h : ∀ e ∈ l, e.vt = .value ∨ e.vt = .tomb) :
    l.map eraseIndir = l := by
  induction l with
  | nil => rfl
  | cons a l ih =>
    rw [List.map_cons, eraseIndir_of_plain (h a (by simp)), ih (fun e he => h e (by simp [he]))]

/-! ## list level -/
section
variable [LT K] [DecidableLT K] [DecidableEq K]

@[simp] theorem c08_ikLt_erase (a b : Entry K) : ikLt (eraseIndir a) (eraseIndir b) = ikLt a b := by
  simp [ikLt]

@[simp] theorem c08_ikEq_erase (a b : Entry K) : ikEq (eraseIndir a) (eraseIndir b) = ikEq a b := by
  simp [ikEq]

theorem c08_merge2_erase (xs ys : List (Entry K)) :
    merge2 (xs.map eraseIndir) (ys.map eraseIndir) = (merge2 xs ys).map eraseIndir := by
  fun_induction merge2 xs ys with
  | case1 ys => simp [merge2]
  | case2 xs h => cases xs <;> simp [merge2]
  | case3 x xs y ys h ih =>
    simp only [List.map_cons] at ih ⊢
    rw [merge2, c08_ikLt_erase, if_pos h, ih]
  | case4 x xs y ys h ih =>
    simp only [List.map_cons] at ih ⊢
    rw [merge2, c08_ikLt_erase, if_neg h, ih]

theorem c08_mergeAll_erase (srcs : List (List (Entry K))) :
    mergeAll (srcs.map (List.map eraseIndir)) = (mergeAll srcs).map eraseIndir := by
  induction srcs with
  | nil => rfl
  | cons s srcs ih =>
    show merge2 _ (mergeAll _) = List.map eraseIndir (merge2 s (mergeAll srcs))
    rw [ih, c08_merge2_erase]

theorem c08_memInsert_erase (e : Entry K) (l : List (Entry K)) :
    memInsert (eraseIndir e) (l.map eraseIndir) = (memInsert e l).map eraseIndir := by
  induction l with
  | nil => rfl
  | cons x xs ih =>
    simp only [List.map_cons, memInsert, c08_ikLt_erase, c08_ikEq_erase]
    split
    · rfl
    · split
      · rfl
      · rw [ih]; rfl

theorem c08_foldl_memInsert_erase (es l : List (Entry K)) :
    (es.map eraseIndir).foldl (fun acc e => memInsert e acc) (l.map eraseIndir)
      = (es.foldl (fun acc e => memInsert e acc) l).map eraseIndir := by
  induction es generalizing l with
  | nil => rfl
  | cons e es ih => simp only [List.map_cons, List.foldl_cons, c08_memInsert_erase, ih]

theorem c08_newest_erase (l : List (Entry K)) (k : K) (S : Nat) :
    newest (l.map eraseIndir) k S = (newest l k S).map eraseIndir := by
  unfold newest
  rw [List.find?_map]
  congr 1
  congr 1
  funext e; simp [visible]

theorem c08_memGet_erase (l : List (Entry K)) (k : K) (S : Nat) :
    memGet (l.map eraseIndir) k S = (memGet l k S).map eraseIndir := by
  unfold memGet
  split
  · rfl
  · rw [List.find?_map]
    have : ((fun (e : Entry K) => !(decide (e.key < k) || (decide (e.key = k) && decide (S - 1 < e.seqno)))) ∘ eraseIndir)
        = (fun (e : Entry K) => !(decide (e.key < k) || (decide (e.key = k) && decide (S - 1 < e.seqno)))) := by
      funext e; simp
    rw [this]
    cases List.find? (fun (e : Entry K) => !(decide (e.key < k) || (decide (e.key = k) && decide (S - 1 < e.seqno)))) l with
    | none => rfl
    | some e =>
      simp only [Option.map_some, eraseIndir_key]
      split <;> rfl

theorem c08_live_erase (o : Option (Entry K)) : live (o.map eraseIndir) = (live o).map eraseIndir := by
  cases o with
  | none => rfl
  | some e =>
    simp only [Option.map_some, live, eraseIndir_isTomb]
    split <;> rfl

theorem c08_drainKey_erase (s : Bool) (k : K) (l : List (Entry K)) :
    drainKey s k (l.map eraseIndir) = ((drainKey s k l).1.map eraseIndir, (drainKey s k l).2.map eraseIndir) := by
  induction l with
  | nil => rfl
  | cons e es ih =>
    simp only [List.map_cons, drainKey_cons, ih, eraseIndir_key, eraseIndir_vt_weak]
    split <;> rfl

/-- **the GC stream commutes with the erasure** on inputs without weak tombstones (both components: what is
    written out and what is reported as dropped). The `(weak, value)` pair rule is the only place where the stream
    distinguishes `.value` from `.indir`; it never fires when no weak tombstone is present. -/
theorem c08_cstream_erase (wm : Nat) (ev : Bool) (l : List (Entry K)) (hw : ∀ e ∈ l, e.vt ≠ .weak) :
    cstream wm ev noFilter (l.map eraseIndir)
      = ((cstream wm ev noFilter l).1.map eraseIndir, (cstream wm ev noFilter l).2.map eraseIndir) := by
  induction l using cstream.induct (wm := wm) (evict := ev) (f := (noFilter : Entry K → Verdict)) with
  | case1 => simp [cstream_nil]
  | case2 e es pre hf ih => simp [filterHead_noFilter] at hf
  | case3 e head pre hf hev =>
    have h1 : e = head ∧ [] = pre := by simpa [filterHead_noFilter] using hf
    obtain ⟨rfl, rfl⟩ := h1
    rw [List.map_cons, List.map_nil, cstream_single _ _ _ _ _ _ (filterHead_noFilter _),
      cstream_single _ _ _ _ _ _ (filterHead_noFilter e), eraseIndir_isTomb, if_pos hev, if_pos hev]
    rfl
  | case4 e head pre hf hev =>
    have h1 : e = head ∧ [] = pre := by simpa [filterHead_noFilter] using hf
    obtain ⟨rfl, rfl⟩ := h1
    rw [List.map_cons, List.map_nil, cstream_single _ _ _ _ _ _ (filterHead_noFilter _),
      cstream_single _ _ _ _ _ _ (filterHead_noFilter e), eraseIndir_isTomb, if_neg hev, if_neg hev]
    rfl
  | case5 e head pre hf p tl hlt hev ih =>
    have h1 : e = head ∧ [] = pre := by simpa [filterHead_noFilter] using hf
    obtain ⟨rfl, rfl⟩ := h1
    have ih' := ih (fun x hx => hw x (List.mem_cons_of_mem _ hx))
    rw [List.map_cons] at ih'
    rw [List.map_cons, List.map_cons, cstream_cons_cons _ _ _ _ _ _ _ _ (filterHead_noFilter _),
      cstream_cons_cons _ _ _ _ _ _ _ _ (filterHead_noFilter e)]
    simp only [eraseIndir_key, eraseIndir_isTomb, if_pos hlt, if_pos hev, ih', List.nil_append]
  | case6 e head pre hf p tl hlt hev ih =>
    have h1 : e = head ∧ [] = pre := by simpa [filterHead_noFilter] using hf
    obtain ⟨rfl, rfl⟩ := h1
    have ih' := ih (fun x hx => hw x (List.mem_cons_of_mem _ hx))
    rw [List.map_cons] at ih'
    rw [List.map_cons, List.map_cons, cstream_cons_cons _ _ _ _ _ _ _ _ (filterHead_noFilter _),
      cstream_cons_cons _ _ _ _ _ _ _ _ (filterHead_noFilter e)]
    simp only [eraseIndir_key, eraseIndir_isTomb, if_pos hlt, if_neg hev, ih', List.nil_append, List.map_cons]
  | case7 e head pre hf p tl hlt hwm htomb d ih =>
    have h1 : e = head ∧ [] = pre := by simpa [filterHead_noFilter] using hf
    obtain ⟨rfl, rfl⟩ := h1
    have ih' := ih (fun x hx => by
      simp only [d] at hx
      exact hw x (List.mem_cons_of_mem _ ((drainKey_snd_sublist (!ev) e.key (p :: tl)).subset hx)))
    have hd := c08_drainKey_erase (!ev) e.key (p :: tl)
    rw [List.map_cons] at hd
    rw [List.map_cons, List.map_cons, cstream_cons_cons _ _ _ _ _ _ _ _ (filterHead_noFilter _),
      cstream_cons_cons _ _ _ _ _ _ _ _ (filterHead_noFilter e)]
    simp only [eraseIndir_key, eraseIndir_seqno, eraseIndir_vt_tomb, if_neg hlt, if_pos hwm, if_pos htomb, hd,
      List.nil_append]
    simp only [d] at ih'
    rw [ih']
    simp
  | case8 e head pre hf p tl hlt hwm htomb hpair ih =>
    have h1 : e = head ∧ [] = pre := by simpa [filterHead_noFilter] using hf
    obtain ⟨rfl, rfl⟩ := h1
    exact absurd hpair.2 (hw e (by simp))
  | case9 e head pre hf p tl hlt hwm htomb hpair d ih =>
    have h1 : e = head ∧ [] = pre := by simpa [filterHead_noFilter] using hf
    obtain ⟨rfl, rfl⟩ := h1
    have ih' := ih (fun x hx => by
      simp only [d] at hx
      exact hw x (List.mem_cons_of_mem _ ((drainKey_snd_sublist (!ev) e.key (p :: tl)).subset hx)))
    have hd := c08_drainKey_erase (!ev) e.key (p :: tl)
    rw [List.map_cons] at hd
    have hnw : ¬ ((eraseIndir p).vt = .value ∧ e.vt = .weak) := fun h => hw e (by simp) h.2
    rw [List.map_cons, List.map_cons, cstream_cons_cons _ _ _ _ _ _ _ _ (filterHead_noFilter _),
      cstream_cons_cons _ _ _ _ _ _ _ _ (filterHead_noFilter e)]
    simp only [eraseIndir_key, eraseIndir_seqno, eraseIndir_vt_tomb, eraseIndir_vt_weak, if_neg hlt, if_pos hwm,
      if_neg htomb, if_neg hpair, if_neg hnw, hd, List.nil_append]
    simp only [d] at ih'
    rw [ih']
    simp
  | case10 e head pre hf p tl hlt hwm ih =>
    have h1 : e = head ∧ [] = pre := by simpa [filterHead_noFilter] using hf
    obtain ⟨rfl, rfl⟩ := h1
    have ih' := ih (fun x hx => hw x (List.mem_cons_of_mem _ hx))
    rw [List.map_cons] at ih'
    rw [List.map_cons, List.map_cons, cstream_cons_cons _ _ _ _ _ _ _ _ (filterHead_noFilter _),
      cstream_cons_cons _ _ _ _ _ _ _ _ (filterHead_noFilter e)]
    simp only [eraseIndir_key, eraseIndir_seqno, if_neg hlt, if_neg hwm, ih', List.nil_append, List.map_cons]

/-! ### MVCC stream and the tombstone-dropping adaptor -/

theorem c08_mvccNext_erase (l : List (Entry K)) :
    mvccNext (l.map eraseIndir) = ((mvccNext l).1.map eraseIndir, (mvccNext l).2.map eraseIndir) := by
  cases l with
  | nil => rfl
  | cons h t =>
    simp only [List.map_cons, mvccNext, Option.map_some, List.dropWhile_map, eraseIndir_key, Function.comp_def]

theorem c08_mvccNextBackRev_erase (l : List (Entry K)) :
    mvccNextBackRev (l.map eraseIndir)
      = ((mvccNextBackRev l).1.map eraseIndir, (mvccNextBackRev l).2.map eraseIndir) := by
  fun_induction mvccNextBackRev l with
  | case1 => rfl
  | case2 t => rfl
  | case3 t p rest h =>
    simp only [List.map_cons, mvccNextBackRev, eraseIndir_key, if_pos h, Option.map_some]
  | case4 t p rest h ih =>
    simp only [List.map_cons] at ih ⊢
    simp only [mvccNextBackRev, eraseIndir_key, if_neg h, ih]

theorem c08_mvccNextBack_erase (l : List (Entry K)) :
    mvccNextBack (l.map eraseIndir) = ((mvccNextBack l).1.map eraseIndir, (mvccNextBack l).2.map eraseIndir) := by
  simp only [mvccNextBack, ← List.map_reverse, c08_mvccNextBackRev_erase]

theorem c08_liveStep_erase (fuel : Nat) (d : Dir) (l : List (Entry K)) :
    liveStep fuel d (l.map eraseIndir)
      = ((liveStep fuel d l).1.map eraseIndir, (liveStep fuel d l).2.map eraseIndir) := by
  induction fuel generalizing l with
  | zero => rfl
  | succ n ih =>
    cases d with
    | F =>
      simp only [liveStep, c08_mvccNext_erase]
      cases h : (mvccNext l).1 with
      | none => simp
      | some e =>
        simp only [Option.map_some, eraseIndir_isTomb]
        split
        · exact ih _
        · rfl
    | B =>
      simp only [liveStep, c08_mvccNextBack_erase]
      cases h : (mvccNextBack l).1 with
      | none => simp
      | some e =>
        simp only [Option.map_some, eraseIndir_isTomb]
        split
        · exact ih _
        · rfl

theorem c08_liveRun_erase (l : List (Entry K)) (w : List Dir) :
    liveRun (l.map eraseIndir) w = (liveRun l w).map (Option.map eraseIndir) := by
  induction w generalizing l with
  | nil => rfl
  | cons d w ih =>
    simp only [liveRun, List.length_map, c08_liveStep_erase, ih, List.map_cons]

end

/-! ## table level -/

/-- erase the indirections of a table's content (id, recorded key range and global seqno stay) -/
def eraseTable (t : TableM K) : TableM K := { t with entries := t.entries.map eraseIndir }

@[simp] theorem eraseTable_id (t : TableM K) : (eraseTable t).id = t.id := rfl
@[simp] theorem eraseTable_lo (t : TableM K) : (eraseTable t).lo = t.lo := rfl
@[simp] theorem eraseTable_hi (t : TableM K) : (eraseTable t).hi = t.hi := rfl
@[simp] theorem eraseTable_gseq (t : TableM K) : (eraseTable t).gseq = t.gseq := rfl
@[simp] theorem eraseTable_entries (t : TableM K) : (eraseTable t).entries = t.entries.map eraseIndir := rfl

section
variable [LT K] [DecidableLT K] [DecidableEq K]

theorem c08_cutTables_erase (cuts : List (Nat × Nat)) (l : List (Entry K)) (g : Nat) :
    cutTables cuts (l.map eraseIndir) g = (cutTables cuts l g).map (List.map eraseTable) := by
  induction cuts generalizing l with
  | nil => cases l <;> rfl
  | cons c rest ih =>
    obtain ⟨id, n⟩ := c
    simp only [cutTables]
    split
    · rfl
    · rw [← List.map_take, ← List.map_drop, List.head?_map, List.getLast?_map, ih]
      cases (List.take n l).head? with
      | none => rfl
      | some f =>
        cases (List.take n l).getLast? with
        | none => rfl
        | some la =>
          simp only [Option.map_some, List.length_map, eraseIndir_key]
          split
          · cases cutTables rest (List.drop n l) g with
            | none => rfl
            | some ts => rfl
          · rfl

@[simp] theorem c08_overlaps_erase (a b : TableM K) : (eraseTable a).overlaps (eraseTable b) = a.overlaps b := rfl

theorem c08_insertByLo_erase (t : TableM K) (r : Run K) :
    insertByLo (eraseTable t) (r.map eraseTable) = (insertByLo t r).map eraseTable := by
  induction r with
  | nil => rfl
  | cons x xs ih =>
    by_cases h : t.lo < x.lo <;> simp [insertByLo, h, ih]

theorem c08_runOverlaps_erase (t : TableM K) (r : Run K) :
    runOverlaps (eraseTable t) (r.map eraseTable) = runOverlaps t r := by
  simp [runOverlaps, List.any_map, Function.comp_def]

theorem c08_afterLastOverlap_erase (t : TableM K) (rs : List (Run K)) :
    afterLastOverlap (eraseTable t) (rs.map (List.map eraseTable)) = afterLastOverlap t rs := by
  induction rs with
  | nil => rfl
  | cons r rs ih => simp only [List.map_cons, afterLastOverlap, ih, c08_runOverlaps_erase]

theorem c08_placeAt_erase (t : TableM K) (i : Nat) (rs : List (Run K)) :
    placeAt (eraseTable t) i (rs.map (List.map eraseTable)) = (placeAt t i rs).map (List.map eraseTable) := by
  induction rs generalizing i with
  | nil => cases i <;> rfl
  | cons r rs ih =>
    cases i with
    | zero => simp only [List.map_cons, placeAt, c08_insertByLo_erase]
    | succ i => simp only [List.map_cons, placeAt, ih]

theorem c08_place_erase (rs : List (Run K)) (t : TableM K) :
    place (rs.map (List.map eraseTable)) (eraseTable t) = (place rs t).map (List.map eraseTable) := by
  simp only [place, c08_afterLastOverlap_erase, c08_placeAt_erase]

theorem c08_foldl_place_erase (l : List (TableM K)) (acc : List (Run K)) :
    (l.map eraseTable).foldl place (acc.map (List.map eraseTable))
      = (l.foldl place acc).map (List.map eraseTable) := by
  induction l generalizing acc with
  | nil => rfl
  | cons t l ih => simp only [List.map_cons, List.foldl_cons, c08_place_erase, ih]

theorem c08_optimizeRuns_erase (runs : List (Run K)) :
    optimizeRuns (runs.map (List.map eraseTable)) = (optimizeRuns runs).map (List.map eraseTable) := by
  simp only [optimizeRuns, List.length_map]
  split
  · rfl
  · rw [← List.map_flatten]
    exact c08_foldl_place_erase runs.flatten []

theorem c08_removeIds_cons (ids : List Nat) (r : Run K) (lvl : List (Run K)) :
    removeIds ids (r :: lvl) =
      if (r.filter (fun t => !ids.contains t.id)).isEmpty then removeIds ids lvl
      else (r.filter (fun t => !ids.contains t.id)) :: removeIds ids lvl := by
  simp only [removeIds, List.map_cons, List.filter_cons]
  cases (List.filter (fun t => !ids.contains t.id) r).isEmpty <;> rfl

theorem c08_removeIds_erase (ids : List Nat) (lvl : List (Run K)) :
    removeIds ids (lvl.map (List.map eraseTable)) = (removeIds ids lvl).map (List.map eraseTable) := by
  have hF : ∀ r : Run K, (r.map eraseTable).filter (fun t => !ids.contains t.id)
      = (r.filter (fun t => !ids.contains t.id)).map eraseTable := by
    intro r; rw [List.filter_map]; rfl
  induction lvl with
  | nil => rfl
  | cons r lvl ih =>
    rw [List.map_cons, c08_removeIds_cons, c08_removeIds_cons, hF, List.isEmpty_map, ih]
    split <;> rfl

theorem c08_partitionPoint_map {α β : Type} (p : β → Bool) (f : α → β) (l : List α) :
    partitionPoint p (l.map f) = partitionPoint (fun a => p (f a)) l := by
  induction l with
  | nil => rfl
  | cons a l ih => simp only [List.map_cons, partitionPoint, ih]

theorem c08_getForKey_erase (r : Run K) (k : K) :
    getForKey (r.map eraseTable) k = (getForKey r k).map eraseTable := by
  have hp : partitionPoint (fun t : TableM K => decide (t.hi < k)) (r.map eraseTable)
      = partitionPoint (fun t : TableM K => decide (t.hi < k)) r := by
    rw [c08_partitionPoint_map]; rfl
  unfold getForKey
  simp only [hp, List.getElem?_map]
  generalize r[partitionPoint (fun t : TableM K => decide (t.hi < k)) r]? = o
  cases o with
  | none => rfl
  | some t =>
    by_cases h : k < t.lo <;> simp [h]

theorem c08_tableGet_erase (tb : TableM K) (k : K) (S : Nat) :
    tableGet (eraseTable tb) k S = (tableGet tb k S).map eraseIndir := by
  simp only [tableGet, eraseTable_entries, c08_newest_erase]

end

/-! ## version level -/

def eraseVersion (v : Version K) : Version K :=
  { v with levels := v.levels.map (List.map (List.map eraseTable)) }

@[simp] theorem eraseVersion_id (v : Version K) : (eraseVersion v).id = v.id := rfl
@[simp] theorem eraseVersion_levels (v : Version K) :
    (eraseVersion v).levels = v.levels.map (List.map (List.map eraseTable)) := rfl

theorem c08_runs_erase (v : Version K) : (eraseVersion v).runs = v.runs.map (List.map eraseTable) := by
  simp only [Version.runs, eraseVersion_levels, List.map_flatten]

theorem c08_tables_erase (v : Version K) : (eraseVersion v).tables = v.tables.map eraseTable := by
  simp only [Version.tables, eraseVersion_levels, List.map_flatten]

theorem c08_empty_erase (id n : Nat) : eraseVersion (Version.empty id n : Version K) = Version.empty id n := by
  simp [eraseVersion, Version.empty]

theorem c08_map_findSome? {α β γ : Type} (g : β → γ) (f : α → Option β) (l : List α) :
    (l.findSome? f).map g = l.findSome? (fun a => (f a).map g) := by
  induction l with
  | nil => rfl
  | cons a l ih =>
    simp only [List.findSome?_cons]
    cases f a with
    | none => simpa using ih
    | some b => rfl

theorem c08_mapIdx_map_comm {α β γ δ : Type} (a : α → β) (f : Nat → β → δ) (g : Nat → α → γ) (b : γ → δ)
    (h : ∀ i x, f i (a x) = b (g i x)) (l : List α) : (l.map a).mapIdx f = (l.mapIdx g).map b := by
  apply List.ext_getElem?
  intro i
  simp only [List.getElem?_mapIdx, List.getElem?_map]
  cases l[i]? with
  | none => rfl
  | some x => simp [h]

section
variable [LT K] [DecidableLT K] [DecidableEq K]

theorem c08_withNewL0Run_erase (v : Version K) (run : Run K) :
    (eraseVersion v).withNewL0Run (run.map eraseTable) = eraseVersion (v.withNewL0Run run) := by
  unfold Version.withNewL0Run
  cases hl : v.levels with
  | nil => simp [eraseVersion, hl]
  | cons l0 rest =>
    simp only [eraseVersion_levels, hl, List.map_cons, eraseVersion_id, List.isEmpty_map]
    cases run with
    | nil =>
      simp only [List.isEmpty_nil, if_true, List.nil_append, eraseVersion, c08_optimizeRuns_erase, List.map_cons]
    | cons a as =>
      have : (if (a :: as).isEmpty = true then ([] : List (Run K)) else [a :: as]) = [a :: as] := rfl
      have h2 : (if (a :: as).isEmpty = true then ([] : List (Run K)) else [List.map eraseTable (a :: as)])
          = [List.map eraseTable (a :: as)] := rfl
      rw [this, h2]
      simp only [eraseVersion, List.map_cons]
      rw [← c08_optimizeRuns_erase]
      rfl

theorem c08_withMerge_erase (v : Version K) (ids : List Nat) (nt : Run K) (dest : Nat) :
    (eraseVersion v).withMerge ids (nt.map eraseTable) dest = eraseVersion (v.withMerge ids nt dest) := by
  simp only [Version.withMerge, eraseVersion, List.isEmpty_map]
  congr 1
  apply c08_mapIdx_map_comm
  intro i lvl
  rw [← c08_optimizeRuns_erase, c08_removeIds_erase]
  split <;> rfl

theorem c08_withMoved_erase (v : Version K) (ids : List Nat) (dest : Nat) :
    (eraseVersion v).withMoved ids dest = eraseVersion (v.withMoved ids dest) := by
  have hA : ((eraseVersion v).tables.filter (fun t => ids.contains t.id)).map (fun t => [t])
      = ((v.tables.filter (fun t => ids.contains t.id)).map (fun t => [t])).map (List.map eraseTable) := by
    rw [c08_tables_erase, List.filter_map, List.map_map, List.map_map]
    rfl
  simp only [Version.withMoved, hA]
  simp only [eraseVersion]
  congr 1
  apply c08_mapIdx_map_comm
  intro i lvl
  rw [← c08_optimizeRuns_erase, c08_removeIds_erase]
  split
  · rw [List.map_append]
  · rfl

theorem c08_withDropped_erase (v : Version K) (ids : List Nat) :
    (eraseVersion v).withDropped ids = eraseVersion (v.withDropped ids) := by
  simp only [Version.withDropped, eraseVersion, List.map_map]
  congr 1
  apply List.map_congr_left
  intro lvl _
  simp only [Function.comp_def, c08_removeIds_erase, c08_optimizeRuns_erase]

theorem c08_versionGet_erase (v : Version K) (k : K) (S : Nat) :
    versionGet (eraseVersion v) k S = (versionGet v k S).map eraseIndir := by
  unfold versionGet
  rw [c08_runs_erase, List.findSome?_map, c08_map_findSome?]
  congr 1
  funext r
  simp only [Function.comp_def, c08_getForKey_erase]
  cases getForKey r k with
  | none => rfl
  | some tb => exact c08_tableGet_erase tb k S

theorem c08_mergeInputs_erase (v : Version K) (ids : List Nat) :
    mergeInputs (eraseVersion v) ids = (mergeInputs v ids).map eraseIndir := by
  unfold mergeInputs
  rw [c08_runs_erase, ← c08_mergeAll_erase, List.map_map, List.map_map]
  congr 1
  apply List.map_congr_left
  intro r _
  simp only [Function.comp_def, List.filter_map, List.flatMap_map, List.map_flatMap, eraseTable_entries]
  rfl

end

/-! ## state level -/

def eraseSv (sv : SuperVersion K) : SuperVersion K := { sv with version := eraseVersion sv.version }

def eraseMem (m : MemtableM K) : MemtableM K := { m with entries := m.entries.map eraseIndir }

/-- the same tree with every indirection turned back into a plain value and separation switched off -/
def eraseState (t : TreeState K) : TreeState K :=
  { t with hist := t.hist.map eraseSv, mems := t.mems.map eraseMem, blobTh := none }

@[simp] theorem eraseSv_active (sv : SuperVersion K) : (eraseSv sv).active = sv.active := rfl
@[simp] theorem eraseSv_sealed (sv : SuperVersion K) : (eraseSv sv).sealed = sv.sealed := rfl
@[simp] theorem eraseSv_seqno (sv : SuperVersion K) : (eraseSv sv).seqno = sv.seqno := rfl
@[simp] theorem eraseSv_version (sv : SuperVersion K) : (eraseSv sv).version = eraseVersion sv.version := rfl
@[simp] theorem eraseMem_id (m : MemtableM K) : (eraseMem m).id = m.id := rfl
@[simp] theorem eraseMem_entries (m : MemtableM K) : (eraseMem m).entries = m.entries.map eraseIndir := rfl
@[simp] theorem eraseState_hist (t : TreeState K) : (eraseState t).hist = t.hist.map eraseSv := rfl
@[simp] theorem eraseState_mems (t : TreeState K) : (eraseState t).mems = t.mems.map eraseMem := rfl
@[simp] theorem eraseState_seqCtr (t : TreeState K) : (eraseState t).seqCtr = t.seqCtr := rfl
@[simp] theorem eraseState_visible (t : TreeState K) : (eraseState t).visible = t.visible := rfl
@[simp] theorem eraseState_levelCount (t : TreeState K) : (eraseState t).levelCount = t.levelCount := rfl
@[simp] theorem eraseState_blobTh (t : TreeState K) : (eraseState t).blobTh = none := rfl

theorem c08_init_erase (n : Nat) (th : Option Nat) :
    eraseState (TreeState.init n th : TreeState K) = TreeState.init n none := by
  simp [eraseState, TreeState.init, eraseSv, eraseMem, c08_empty_erase]

theorem c08_mem_erase (t : TreeState K) (id : Nat) : (eraseState t).mem id = (t.mem id).map eraseIndir := by
  simp only [TreeState.mem, eraseState_mems, List.find?_map]
  have : ((fun (m : MemtableM K) => m.id == id) ∘ eraseMem) = (fun (m : MemtableM K) => m.id == id) := rfl
  rw [this]
  cases List.find? (fun (m : MemtableM K) => m.id == id) t.mems <;> rfl

theorem c08_latest_erase (t : TreeState K) : (eraseState t).latest? = t.latest?.map eraseSv := by
  simp only [TreeState.latest?, eraseState_hist, List.getLast?_map]

theorem c08_replaceLatest_erase (h : History K) (sv : SuperVersion K) :
    replaceLatest (h.map eraseSv) (eraseSv sv) = (replaceLatest h sv).map eraseSv := by
  simp only [replaceLatest, ← List.map_reverse]
  cases h.reverse with
  | nil => rfl
  | cons x r => simp

theorem c08_rposition_map {α β : Type} (p : β → Bool) (f : α → β) (l : List α) :
    rposition p (l.map f) = rposition (fun a => p (f a)) l := by
  simp only [rposition, ← List.map_reverse, List.findIdx?_map, List.length_map, Function.comp_def]

theorem c08_maintenance_erase (h : History K) (wm : Nat) :
    maintenance (h.map eraseSv) wm = ((maintenance h wm).1.map eraseSv, (maintenance h wm).2) := by
  have hr : rposition (fun sv : SuperVersion K => decide (sv.seqno < wm)) (h.map eraseSv)
      = rposition (fun sv : SuperVersion K => decide (sv.seqno < wm)) h := by
    rw [c08_rposition_map]; rfl
  unfold maintenance
  rw [hr, List.length_map]
  split
  · rfl
  · split
    · rfl
    · generalize rposition (fun sv : SuperVersion K => decide (sv.seqno < wm)) h = o
      cases o with
      | none => rfl
      | some hi =>
        simp only [List.map_drop, ← List.map_take, List.map_map]
        rfl

theorem c08_gcMems_erase (t : TreeState K) : (eraseState t).gcMems = eraseState t.gcMems := by
  simp only [TreeState.gcMems, eraseState, List.flatMap_map, List.filter_map]
  rfl

section
variable [LT K] [DecidableLT K] [DecidableEq K]

theorem c08_install_erase (t : TreeState K) (sv : SuperVersion K) (wm : Nat) :
    (eraseState t).install (eraseSv sv) wm = eraseState (t.install sv wm) := by
  unfold TreeState.install
  simp only
  rw [← c08_gcMems_erase]
  congr 1
  have hm := c08_maintenance_erase (t.hist ++ [{ sv with seqno := t.seqCtr }]) wm
  simp only [List.map_append, List.map_cons, List.map_nil] at hm
  simp only [eraseState]
  congr 1
  exact congrArg Prod.fst hm

theorem c08_separate_none (l : List (Entry K)) : l.map (separate none) = l := by
  induction l with
  | nil => rfl
  | cons a l ih => rw [List.map_cons, ih]; rfl

theorem c08_freshMem_erase (t : TreeState K) (n : Nat) : (eraseState t).freshMem n = t.freshMem n := by
  simp only [TreeState.freshMem, eraseState_mems, List.any_map]
  rfl

theorem c08_write_erase (t : TreeState K) (es : List (Entry K))
    (hp : ∀ e ∈ es, e.vt = .value ∨ e.vt = .tomb) :
    (eraseState t).write es = (t.write es).map eraseState := by
  unfold TreeState.write
  rw [c08_latest_erase]
  cases t.latest? with
  | none => rfl
  | some sv =>
    simp only [Option.map_some, eraseState_seqCtr, eraseSv_active]
    by_cases h : (es.all fun e => e.seqno == t.seqCtr) = true
    · simp only [h, ↓reduceIte, Option.map_some, eraseState]
      congr 2
      rw [List.map_map, List.map_map]
      apply List.map_congr_left
      intro m _
      simp only [Function.comp_def, eraseMem_id]
      by_cases hc : (m.id == sv.active) = true
      · have := c08_foldl_memInsert_erase es m.entries
        rw [c08_map_plain hp] at this
        simp only [hc, ↓reduceIte, eraseMem, this]
      · simp only [hc, Bool.false_eq_true, ↓reduceIte]
    · simp only [h, Bool.false_eq_true, ↓reduceIte, Option.map_none]

theorem c08_rotate_erase (t : TreeState K) (n : Nat) : (eraseState t).rotate n = eraseState (t.rotate n) := by
  unfold TreeState.rotate
  rw [c08_latest_erase]
  cases t.latest? with
  | none => rfl
  | some sv =>
    simp only [Option.map_some, c08_mem_erase, List.isEmpty_map, eraseSv_active]
    split
    · rfl
    · simp only [eraseState, List.map_append, List.map_cons, List.map_nil]
      congr 1
      exact c08_replaceLatest_erase t.hist { sv with active := n, sealed := sv.sealed ++ [sv.active] }

/-- the stream a flush writes, on the erased state -/
theorem c08_memStream_erase (t : TreeState K) (ids : List Nat) (wm : Nat)
    (hw : ∀ e ∈ mergeAll (ids.map t.mem), e.vt ≠ .weak) :
    (cstream wm false noFilter (mergeAll (ids.map (eraseState t).mem))).1
      = (cstream wm false noFilter (mergeAll (ids.map t.mem))).1.map eraseIndir := by
  have : ids.map (eraseState t).mem = (ids.map t.mem).map (List.map eraseIndir) := by
    rw [List.map_map]
    apply List.map_congr_left
    intro id _
    exact c08_mem_erase t id
  rw [this, c08_mergeAll_erase, c08_cstream_erase wm false _ hw]

theorem c08_flushSealed_erase (t : TreeState K) (wm : Nat) (cuts : List (Nat × Nat)) (sep : Bool)
    (hw : ∀ ids : List Nat, ∀ e ∈ mergeAll (ids.map t.mem), e.vt ≠ .weak) :
    (eraseState t).flushSealed wm cuts sep = (t.flushSealed wm cuts sep).map eraseState := by
  unfold TreeState.flushSealed
  rw [c08_latest_erase]
  cases t.latest? with
  | none => rfl
  | some sv =>
    simp only [Option.map_some, eraseSv_sealed]
    by_cases h : sv.sealed.isEmpty = true
    · simp only [h, ↓reduceIte]
      by_cases h2 : cuts.isEmpty = true <;> simp [h2]
    · simp only [h, Bool.false_eq_true, ↓reduceIte]
      have hth : (if sep = true then (eraseState t).blobTh else none) = none := by cases sep <;> rfl
      simp only [TreeState.flushStream, eraseSv_sealed, hth, c08_separate_none]
      rw [c08_memStream_erase t sv.sealed wm (hw sv.sealed),
        ← c08_map_separate (if sep = true then t.blobTh else none), c08_cutTables_erase]
      cases cutTables cuts (List.map (separate (if sep = true then t.blobTh else none))
          (cstream wm false noFilter (mergeAll (List.map t.mem sv.sealed))).fst) 0 with
      | none => rfl
      | some tables =>
        simp only [Option.map_some, eraseSv_version, c08_withNewL0Run_erase]
        congr 1
        exact c08_install_erase t { sv with version := sv.version.withNewL0Run tables, sealed := [] } wm

theorem c08_flushCommit_erase (t : TreeState K) (ids : List Nat) (wm : Nat) (cuts : List (Nat × Nat))
    (hw : ∀ ids : List Nat, ∀ e ∈ mergeAll (ids.map t.mem), e.vt ≠ .weak) :
    (eraseState t).flushCommit ids wm cuts = (t.flushCommit ids wm cuts).map eraseState := by
  unfold TreeState.flushCommit
  rw [c08_latest_erase]
  cases t.latest? with
  | none => rfl
  | some sv =>
    simp only [Option.map_some, eraseSv_sealed]
    by_cases h : ids.isEmpty = true
    · simp only [h, ↓reduceIte, Option.map_none]
    · by_cases h2 : (!(ids.all (fun i => sv.sealed.contains i))) = true
      · simp only [h, h2, ↓reduceIte]; rfl
      · simp only [h, h2, Bool.false_eq_true, ↓reduceIte]
        simp only [eraseState_blobTh, c08_separate_none]
        rw [c08_memStream_erase t ids wm (hw ids), ← c08_map_separate t.blobTh, c08_cutTables_erase]
        cases cutTables cuts (List.map (separate t.blobTh)
            (cstream wm false noFilter (mergeAll (List.map t.mem ids))).fst) 0 with
        | none => rfl
        | some tables =>
          simp only [Option.map_some, eraseSv_version, c08_withNewL0Run_erase]
          congr 1
          exact c08_install_erase t { sv with version := sv.version.withNewL0Run tables,
                                              sealed := sv.sealed.filter (fun i => !ids.contains i) } wm

theorem c08_mergeCommit_erase (t : TreeState K) (ids : List Nat) (dest wm : Nat) (cuts : List (Nat × Nat))
    (hw : ∀ sv, t.latest? = some sv → ∀ e ∈ mergeInputs sv.version ids, e.vt ≠ .weak) :
    (eraseState t).mergeCommit ids dest wm noFilter cuts
      = (t.mergeCommit ids dest wm noFilter cuts).map eraseState := by
  unfold TreeState.mergeCommit
  rw [c08_latest_erase]
  cases hl : t.latest? with
  | none => rfl
  | some sv =>
    simp only [Option.map_some, eraseSv_version, eraseState_levelCount, c08_mergeInputs_erase]
    rw [c08_cstream_erase _ _ _ (hw sv hl), c08_cutTables_erase]
    cases cutTables cuts (cstream wm (dest + 1 == t.levelCount) noFilter (mergeInputs sv.version ids)).fst 0 with
    | none => rfl
    | some tables =>
      simp only [Option.map_some, c08_withMerge_erase]
      congr 1
      exact c08_install_erase t { sv with version := sv.version.withMerge ids tables dest } wm

theorem c08_moveCommit_erase (t : TreeState K) (ids : List Nat) (dest wm : Nat) :
    (eraseState t).moveCommit ids dest wm = (t.moveCommit ids dest wm).map eraseState := by
  unfold TreeState.moveCommit
  rw [c08_latest_erase]
  cases t.latest? with
  | none => rfl
  | some sv =>
    simp only [Option.map_some, eraseSv_version, c08_withMoved_erase]
    congr 1
    exact c08_install_erase t { sv with version := sv.version.withMoved ids dest } wm

theorem c08_dropCommit_erase (t : TreeState K) (ids : List Nat) (wm : Nat) :
    (eraseState t).dropCommit ids wm = (t.dropCommit ids wm).map eraseState := by
  unfold TreeState.dropCommit
  rw [c08_latest_erase]
  cases t.latest? with
  | none => rfl
  | some sv =>
    simp only [Option.map_some, eraseSv_version, c08_withDropped_erase]
    congr 1
    exact c08_install_erase t { sv with version := sv.version.withDropped ids } wm

theorem c08_clear_erase (t : TreeState K) (n : Nat) :
    (eraseState t).clear n = (t.clear n).map eraseState := by
  unfold TreeState.clear
  rw [c08_latest_erase]
  cases t.latest? with
  | none => rfl
  | some sv =>
    simp only [Option.map_some, eraseSv_version, eraseVersion_id, eraseState_levelCount]
    congr 1
    have := c08_install_erase
      ({ t with mems := t.mems ++ [({ id := n, entries := [] } : MemtableM K)] })
      { active := n, sealed := [], version := Version.empty (sv.version.id + 1) t.levelCount, seqno := 0 } 0
    rw [← this]
    simp only [eraseState, eraseSv, c08_empty_erase, List.map_append, List.map_cons, List.map_nil]
    rfl

theorem c08_ingestCommit_erase (t : TreeState K) (items : List (Entry K)) (cuts : List (Nat × Nat))
    (hp : ∀ e ∈ items, e.vt = .value ∨ e.vt = .tomb) :
    (eraseState t).ingestCommit items cuts = (t.ingestCommit items cuts).map eraseState := by
  unfold TreeState.ingestCommit
  rw [c08_latest_erase]
  cases t.latest? with
  | none => rfl
  | some sv =>
    simp only [Option.map_some, eraseState_blobTh, eraseState_seqCtr]
    have h1 : items.map (fun (e : Entry K) => separate none { e with seqno := e.seqno + t.seqCtr })
        = (items.map (fun (e : Entry K) => separate t.blobTh { e with seqno := e.seqno + t.seqCtr })).map eraseIndir := by
      rw [List.map_map]
      apply List.map_congr_left
      intro e he
      simp only [Function.comp_def, eraseIndir_separate]
      exact (eraseIndir_of_plain (e := { e with seqno := e.seqno + t.seqCtr }) (hp e he)).symm
    rw [h1, c08_cutTables_erase]
    cases cutTables cuts (items.map (fun (e : Entry K) => separate t.blobTh { e with seqno := e.seqno + t.seqCtr })) t.seqCtr with
    | none => rfl
    | some tables =>
      simp only [Option.map_some, eraseSv_version, c08_withNewL0Run_erase]
      congr 1
      exact c08_install_erase t { sv with version := sv.version.withNewL0Run tables } 0

theorem c08_reopen_erase (t : TreeState K) : (eraseState t).reopen = t.reopen.map eraseState := by
  unfold TreeState.reopen
  rw [c08_latest_erase]
  cases t.latest? with
  | none => rfl
  | some sv => rfl

end

/-! ## the invariant: no weak tombstone is stored anywhere -/

/-- the operations the simulation covers: written / ingested entries are plain values or strong tombstones
    (no `remove_weak`, no externally supplied indirections), merges run without a compaction filter -/
def c08_opOk : Op K → Prop
  | .write es => ∀ e ∈ es, e.vt = .value ∨ e.vt = .tomb
  | .merge _ _ _ f _ => f = noFilter
  | .ingest _ _ items _ => ∀ e ∈ items, e.vt = .value ∨ e.vt = .tomb
  | _ => True

/-- no table of the version holds a weak tombstone -/
def c08_VNoWeak (v : Version K) : Prop := ∀ tb ∈ v.tables, ∀ e ∈ tb.entries, e.vt ≠ .weak

/-- no memtable and no table of any history entry holds a weak tombstone -/
def c08_NoWeak (t : TreeState K) : Prop :=
  (∀ m ∈ t.mems, ∀ e ∈ m.entries, e.vt ≠ .weak) ∧ (∀ sv ∈ t.hist, c08_VNoWeak sv.version)

theorem c08_noWeak_init (n : Nat) (th : Option Nat) : c08_NoWeak (TreeState.init n th : TreeState K) := by
  constructor
  · intro m hm e he
    simp [TreeState.init] at hm
    subst hm
    simp at he
  · intro sv hsv tb htb
    simp [TreeState.init] at hsv
    subst hsv
    simp [Version.tables, Version.empty] at htb

theorem c08_NoWeak.mem {t : TreeState K} (h : c08_NoWeak t) (id : Nat) : ∀ e ∈ t.mem id, e.vt ≠ .weak :=
  memOf_pred (fun l => ∀ e ∈ l, e.vt ≠ .weak) t.mems id (by simp) h.1

theorem c08_NoWeak.latest {t : TreeState K} (h : c08_NoWeak t) {sv : SuperVersion K} (hl : t.latest? = some sv) :
    c08_VNoWeak sv.version :=
  h.2 sv (List.mem_of_getLast? hl)

section
variable [LT K] [DecidableLT K] [DecidableEq K] [LE K] [Std.IsLinearOrder K] [Std.LawfulOrderLT K]

theorem c08_NoWeak.memMerge {t : TreeState K} (h : c08_NoWeak t) (ids : List Nat) :
    ∀ e ∈ mergeAll (ids.map t.mem), e.vt ≠ .weak := by
  intro e he
  obtain ⟨s, hs, hes⟩ := mem_mergeAll.1 he
  obtain ⟨id, _, rfl⟩ := List.mem_map.1 hs
  exact h.mem id e hes

theorem c08_VNoWeak.mergeInputs {v : Version K} (h : c08_VNoWeak v) (ids : List Nat) :
    ∀ e ∈ mergeInputs v ids, e.vt ≠ .weak := by
  intro e he
  obtain ⟨s, hs, hes⟩ := mem_mergeAll.1 he
  obtain ⟨r, hr, rfl⟩ := List.mem_map.1 hs
  obtain ⟨tb, htb, hetb⟩ := List.mem_flatMap.1 hes
  have htb' : tb ∈ r := (List.mem_filter.1 htb).1
  refine h tb ?_ e hetb
  simp only [Version.tables]
  exact List.mem_flatten.2 ⟨r, hr, htb'⟩

theorem c08_mem_memInsert {x e : Entry K} {l : List (Entry K)} (h : x ∈ memInsert e l) : x = e ∨ x ∈ l := by
  induction l with
  | nil => simpa [memInsert] using h
  | cons a l ih =>
    simp only [memInsert] at h
    split at h
    · simpa using h
    · split at h
      · rcases List.mem_cons.1 h with h | h
        · exact Or.inl h
        · exact Or.inr (List.mem_cons_of_mem _ h)
      · rcases List.mem_cons.1 h with h | h
        · exact Or.inr (by simp [h])
        · rcases ih h with h | h
          · exact Or.inl h
          · exact Or.inr (List.mem_cons_of_mem _ h)

theorem c08_mem_foldl_memInsert {x : Entry K} {es l : List (Entry K)}
    (h : x ∈ es.foldl (fun acc e => memInsert e acc) l) : x ∈ es ∨ x ∈ l := by
  induction es generalizing l with
  | nil => exact Or.inr h
  | cons e es ih =>
    rcases ih h with h | h
    · exact Or.inl (List.mem_cons_of_mem _ h)
    · rcases c08_mem_memInsert h with h | h
      · exact Or.inl (by simp [h])
      · exact Or.inr h

theorem c08_cutTables_mem {cuts : List (Nat × Nat)} {l : List (Entry K)} {g : Nat} {ts : List (TableM K)}
    (h : cutTables cuts l g = some ts) {tb : TableM K} (htb : tb ∈ ts) {e : Entry K} (he : e ∈ tb.entries) :
    e ∈ l := by
  rw [← cutTables_entries h]
  exact List.mem_flatMap.2 ⟨tb, htb, he⟩

/-! ### version operations keep `c08_VNoWeak` -/

theorem c08_withNewL0Run_noWeak {v : Version K} (h : c08_VNoWeak v) {nt : Run K}
    (hn : ∀ tb ∈ nt, ∀ e ∈ tb.entries, e.vt ≠ .weak) : c08_VNoWeak (v.withNewL0Run nt) := by
  intro tb htb
  by_cases h0 : 0 < v.levels.length
  · have := (withNewL0Run_tables_perm v nt h0).subset htb
    rcases List.mem_append.1 this with h1 | h1
    · exact hn tb h1
    · exact h tb h1
  · have hl : v.levels = [] := List.eq_nil_of_length_eq_zero (by omega)
    simp [Version.withNewL0Run, hl, Version.tables] at htb

theorem c08_withMerge_noWeak {v : Version K} (h : c08_VNoWeak v) (ids : List Nat) {nt : Run K} (dest : Nat)
    (hn : ∀ tb ∈ nt, ∀ e ∈ tb.entries, e.vt ≠ .weak) : c08_VNoWeak (v.withMerge ids nt dest) := by
  intro tb htb
  by_cases h0 : dest < v.levels.length
  · have := (withMerge_tables_perm v ids nt dest h0).subset htb
    rcases List.mem_append.1 this with h1 | h1
    · exact h tb (List.mem_filter.1 h1).1
    · exact hn tb h1
  · have := (withMerge_tables_perm_of_ge v ids nt dest (by omega)).subset htb
    exact h tb (List.mem_filter.1 this).1

theorem c08_withMoved_noWeak {v : Version K} (h : c08_VNoWeak v) (ids : List Nat) (dest : Nat) :
    c08_VNoWeak (v.withMoved ids dest) := by
  intro tb htb
  by_cases h0 : dest < v.levels.length
  · exact h tb ((withMoved_tables_perm v ids dest h0).subset htb)
  · have := (withMoved_tables_perm_of_ge v ids dest (by omega)).subset htb
    exact h tb (List.mem_filter.1 this).1

theorem c08_withDropped_noWeak {v : Version K} (h : c08_VNoWeak v) (ids : List Nat) :
    c08_VNoWeak (v.withDropped ids) := by
  intro tb htb
  have := (withDropped_tables_perm v ids).subset htb
  exact h tb (List.mem_filter.1 this).1

theorem c08_empty_noWeak (id n : Nat) : c08_VNoWeak (Version.empty id n : Version K) := by
  intro tb htb
  simp [Version.tables, Version.empty] at htb

/-! ### the critical sections keep `c08_NoWeak` -/

theorem c08_install_noWeak {t : TreeState K} (h : c08_NoWeak t) {sv : SuperVersion K}
    (hv : c08_VNoWeak sv.version) (wm : Nat) : c08_NoWeak (t.install sv wm) := by
  constructor
  · intro m hm
    rw [install_mems] at hm
    exact h.1 m (List.mem_filter.1 hm).1
  · intro sv' hsv'
    rw [install_hist] at hsv'
    have := (maintenance_sublist _ wm).subset hsv'
    rcases List.mem_append.1 this with h1 | h1
    · exact h.2 sv' h1
    · simp only [List.mem_singleton] at h1
      subst h1
      exact hv

theorem c08_rotate_noWeak {t : TreeState K} (h : c08_NoWeak t) (n : Nat) : c08_NoWeak (t.rotate n) := by
  rcases rotate_cases t n with h1 | ⟨r, sv, hr, h1⟩
  · rw [h1]; exact h
  · rw [h1]
    constructor
    · intro m hm
      simp only [List.mem_append, List.mem_singleton] at hm
      rcases hm with hm | hm
      · exact h.1 m hm
      · subst hm; simp
    · intro sv' hsv'
      simp only [List.mem_append, List.mem_singleton] at hsv'
      rcases hsv' with h2 | h2
      · exact h.2 sv' (by rw [hr]; simp [h2])
      · subst h2
        exact h.2 sv (by rw [hr]; simp)

theorem c08_addMem_noWeak {t : TreeState K} (h : c08_NoWeak t) (n : Nat) :
    c08_NoWeak ({ t with mems := t.mems ++ [({ id := n, entries := [] } : MemtableM K)] }) := by
  constructor
  · intro m hm
    simp only [List.mem_append, List.mem_singleton] at hm
    rcases hm with hm | hm
    · exact h.1 m hm
    · subst hm; simp
  · exact h.2

theorem c08_write_noWeak {t t' : TreeState K} (h : c08_NoWeak t) {es : List (Entry K)}
    (hp : ∀ e ∈ es, e.vt = .value ∨ e.vt = .tomb) (hw : t.write es = some t') : c08_NoWeak t' := by
  obtain ⟨a, _, rfl⟩ := write_cases hw
  constructor
  · intro m hm e he
    simp only [List.mem_map] at hm
    obtain ⟨m0, hm0, rfl⟩ := hm
    unfold writeUpd at he
    split at he
    · rcases c08_mem_foldl_memInsert he with h1 | h1
      · rcases hp e h1 with h2 | h2 <;> simp [h2]
      · exact h.1 m0 hm0 e h1
    · exact h.1 m0 hm0 e he
  · exact h.2

theorem c08_flushSealed_noWeak {t t' : TreeState K} (h : c08_NoWeak t) {wm : Nat} {cuts : List (Nat × Nat)}
    {sep : Bool} (hf : t.flushSealed wm cuts sep = some t') : c08_NoWeak t' := by
  unfold TreeState.flushSealed at hf
  split at hf
  · cases hf
  · next sv hl =>
    split at hf
    · split at hf
      · cases hf; exact h
      · cases hf
    · split at hf
      · cases hf
      · next tables hc =>
        cases hf
        refine c08_install_noWeak h (c08_withNewL0Run_noWeak (h.latest hl) ?_) wm
        intro tb htb e he
        have := c08_cutTables_mem hc htb he
        obtain ⟨e0, he0, rfl⟩ := List.mem_map.1 this
        rw [Ne, c08_separate_vt_weak]
        exact h.memMerge sv.sealed e0 ((cstream_sub wm false _).subset he0)

theorem c08_flushCommit_noWeak {t t' : TreeState K} (h : c08_NoWeak t) {ids : List Nat} {wm : Nat}
    {cuts : List (Nat × Nat)} (hf : t.flushCommit ids wm cuts = some t') : c08_NoWeak t' := by
  unfold TreeState.flushCommit at hf
  split at hf
  · cases hf
  · next sv hl =>
    split at hf
    · cases hf
    · split at hf
      · cases hf; exact h
      · simp only at hf
        split at hf
        · cases hf
        · next tables hc =>
          cases hf
          refine c08_install_noWeak h (c08_withNewL0Run_noWeak (h.latest hl) ?_) wm
          intro tb htb e he
          have := c08_cutTables_mem hc htb he
          obtain ⟨e0, he0, rfl⟩ := List.mem_map.1 this
          rw [Ne, c08_separate_vt_weak]
          exact h.memMerge ids e0 ((cstream_sub wm false _).subset he0)

theorem c08_mergeCommit_noWeak {t t' : TreeState K} (h : c08_NoWeak t) {ids : List Nat} {dest wm : Nat}
    {cuts : List (Nat × Nat)} (hf : t.mergeCommit ids dest wm noFilter cuts = some t') : c08_NoWeak t' := by
  unfold TreeState.mergeCommit at hf
  split at hf
  · cases hf
  · next sv hl =>
    simp only at hf
    split at hf
    · cases hf
    · next tables hc =>
      cases hf
      refine c08_install_noWeak h (c08_withMerge_noWeak (h.latest hl) ids dest ?_) wm
      intro tb htb e he
      have := c08_cutTables_mem hc htb he
      exact (h.latest hl).mergeInputs ids e ((cstream_sub wm _ _).subset this)

theorem c08_ingestCommit_noWeak {t t' : TreeState K} (h : c08_NoWeak t) {items : List (Entry K)}
    {cuts : List (Nat × Nat)} (hp : ∀ e ∈ items, e.vt = .value ∨ e.vt = .tomb)
    (hf : t.ingestCommit items cuts = some t') : c08_NoWeak t' := by
  unfold TreeState.ingestCommit at hf
  split at hf
  · cases hf
  · next sv hl =>
    simp only at hf
    split at hf
    · cases hf
    · next tables hc =>
      cases hf
      refine c08_install_noWeak h (c08_withNewL0Run_noWeak (h.latest hl) ?_) 0
      intro tb htb e he
      have := c08_cutTables_mem hc htb he
      obtain ⟨e0, he0, rfl⟩ := List.mem_map.1 this
      rw [Ne, c08_separate_vt_weak]
      rcases hp e0 he0 with h2 | h2 <;> simp [h2]

/-- **the invariant is preserved** by every covered operation -/
theorem c08_applyOp_noWeak {t t' : TreeState K} {op : Op K} (h : c08_NoWeak t) (hop : c08_opOk op)
    (ha : t.applyOp op = some t') : c08_NoWeak t' := by
  cases op with
  | write es => exact c08_write_noWeak h hop ha
  | rotate m =>
    simp only [TreeState.applyOp] at ha
    split at ha
    · cases ha; exact c08_rotate_noWeak h m
    · cases ha
  | flush wm m cuts =>
    simp only [TreeState.applyOp] at ha
    split at ha
    · exact c08_flushSealed_noWeak (c08_rotate_noWeak h m) ha
    · cases ha
  | flushCommit ids wm cuts => exact c08_flushCommit_noWeak h ha
  | merge ids dest wm f cuts =>
    simp only [c08_opOk] at hop
    subst hop
    exact c08_mergeCommit_noWeak h ha
  | move ids dest wm =>
    simp only [TreeState.applyOp, TreeState.moveCommit, Option.map_eq_some_iff] at ha
    obtain ⟨sv, hl, rfl⟩ := ha
    exact c08_install_noWeak h (c08_withMoved_noWeak (h.latest hl) ids dest) wm
  | drop ids wm =>
    simp only [TreeState.applyOp, TreeState.dropCommit, Option.map_eq_some_iff] at ha
    obtain ⟨sv, hl, rfl⟩ := ha
    exact c08_install_noWeak h (c08_withDropped_noWeak (h.latest hl) ids) wm
  | clear m =>
    simp only [TreeState.applyOp] at ha
    split at ha
    · simp only [TreeState.clear, Option.map_eq_some_iff] at ha
      obtain ⟨sv, hl, rfl⟩ := ha
      exact c08_install_noWeak (c08_addMem_noWeak h m) (c08_empty_noWeak _ _) 0
    · cases ha
  | ingest m fcuts items cuts =>
    simp only [TreeState.applyOp] at ha
    split at ha
    · split at ha
      · next t1 h1 =>
        exact c08_ingestCommit_noWeak (c08_flushSealed_noWeak (c08_rotate_noWeak h m) h1) hop ha
      · cases ha
    · cases ha
  | reopen =>
    simp only [TreeState.applyOp, TreeState.reopen, Option.map_eq_some_iff] at ha
    obtain ⟨sv, hl, rfl⟩ := ha
    constructor
    · intro m hm e he
      simp only [List.mem_singleton] at hm
      subst hm
      simp at he
    · intro sv' hsv'
      simp only [List.mem_singleton] at hsv'
      subst hsv'
      exact (h.latest hl : c08_VNoWeak sv.version)

/-! ## the simulation -/

/-- **one step**: on a weak-free state every covered operation commutes with the erasure — it is accepted by the
    erased (standard) tree iff it is accepted by the separated tree, and the results correspond -/
theorem c08_applyOp_erase {t : TreeState K} {op : Op K} (h : c08_NoWeak t) (hop : c08_opOk op) :
    (eraseState t).applyOp op = (t.applyOp op).map eraseState := by
  cases op with
  | write es => exact c08_write_erase t es hop
  | rotate m =>
    simp only [TreeState.applyOp, c08_freshMem_erase]
    by_cases hf : t.freshMem m = true
    · simp only [hf, ↓reduceIte, Option.map_some, c08_rotate_erase]
    · simp only [hf, Bool.false_eq_true, ↓reduceIte, Option.map_none]
  | flush wm m cuts =>
    simp only [TreeState.applyOp, c08_freshMem_erase]
    by_cases hf : t.freshMem m = true
    · simp only [hf, ↓reduceIte, c08_rotate_erase]
      exact c08_flushSealed_erase _ wm cuts true (c08_rotate_noWeak h m).memMerge
    · simp only [hf, Bool.false_eq_true, ↓reduceIte, Option.map_none]
  | flushCommit ids wm cuts => exact c08_flushCommit_erase t ids wm cuts h.memMerge
  | merge ids dest wm f cuts =>
    simp only [c08_opOk] at hop
    subst hop
    exact c08_mergeCommit_erase t ids dest wm cuts (fun sv hl => (h.latest hl).mergeInputs ids)
  | move ids dest wm => exact c08_moveCommit_erase t ids dest wm
  | drop ids wm => exact c08_dropCommit_erase t ids wm
  | clear m =>
    simp only [TreeState.applyOp, c08_freshMem_erase]
    by_cases hf : t.freshMem m = true
    · simp only [hf, ↓reduceIte]
      exact c08_clear_erase t m
    · simp only [hf, Bool.false_eq_true, ↓reduceIte, Option.map_none]
  | ingest m fcuts items cuts =>
    simp only [TreeState.applyOp, c08_freshMem_erase]
    by_cases hf : t.freshMem m = true
    · simp only [hf, ↓reduceIte, c08_rotate_erase]
      rw [c08_flushSealed_erase _ 0 fcuts false (c08_rotate_noWeak h m).memMerge]
      cases h1 : (t.rotate m).flushSealed 0 fcuts false with
      | none => rfl
      | some t1 => exact c08_ingestCommit_erase t1 items cuts hop
    · simp only [hf, Bool.false_eq_true, ↓reduceIte, Option.map_none]
  | reopen => exact c08_reopen_erase t

/-- **whole histories** -/
theorem c08_run_erase {t : TreeState K} {ops : List (Op K)} (h : c08_NoWeak t) (hops : ∀ op ∈ ops, c08_opOk op) :
    (eraseState t).run ops = (t.run ops).map eraseState := by
  induction ops generalizing t with
  | nil => rfl
  | cons op ops ih =>
    have hop := hops op (by simp)
    simp only [TreeState.run]
    rw [c08_applyOp_erase h hop]
    cases ha : t.applyOp op with
    | none => rfl
    | some t' =>
      exact ih (c08_applyOp_noWeak h hop ha) (fun o ho => hops o (by simp [ho]))

theorem c08_run_noWeak {t t' : TreeState K} {ops : List (Op K)} (h : c08_NoWeak t) (hops : ∀ op ∈ ops, c08_opOk op)
    (hr : t.run ops = some t') : c08_NoWeak t' := by
  induction ops generalizing t with
  | nil => cases hr; exact h
  | cons op ops ih =>
    simp only [TreeState.run] at hr
    split at hr
    · next t1 ha =>
      exact ih (c08_applyOp_noWeak h (hops op (by simp)) ha) (fun o ho => hops o (by simp [ho])) hr
    · cases hr

end

/-! ## reads -/

theorem c08_getVersion_erase (h : History K) (S : Nat) :
    getVersionForSnapshot (h.map eraseSv) S = (getVersionForSnapshot h S).map eraseSv := by
  unfold getVersionForSnapshot
  split
  · exact List.head?_map
  · rw [← List.map_reverse, List.find?_map]
    rfl

/-- the write-batch overlay of a scan, erased -/
def c08_eraseOverlay (o : Option (List (Entry K) × Nat)) : Option (List (Entry K) × Nat) :=
  o.map (fun p => (p.1.map eraseIndir, p.2))

section
variable [LT K] [DecidableLT K] [DecidableEq K]

theorem c08_svGet_erase (t : TreeState K) (sv : SuperVersion K) (k : K) (S : Nat) :
    (eraseState t).svGet (eraseSv sv) k S = (t.svGet sv k S).map eraseIndir := by
  unfold TreeState.svGet
  simp only [eraseSv_active, eraseSv_sealed, eraseSv_version, c08_mem_erase, c08_memGet_erase,
    ← c08_map_findSome?, c08_versionGet_erase]
  cases memGet (t.mem sv.active) k S with
  | some e => exact c08_live_erase (some e)
  | none =>
    simp only [Option.map_none]
    cases List.findSome? (fun id => memGet (t.mem id) k S) sv.sealed.reverse with
    | some e => exact c08_live_erase (some e)
    | none => exact c08_live_erase _

/-- **point reads** of the erased state are the erased point reads -/
theorem c08_getAt_erase (t : TreeState K) (k : K) (S : Nat) :
    (eraseState t).getAt k S = (t.getAt k S).map (Option.map eraseIndir) := by
  unfold TreeState.getAt
  rw [eraseState_hist, c08_getVersion_erase]
  cases getVersionForSnapshot t.hist S with
  | none => rfl
  | some sv => simp only [Option.map_some, c08_svGet_erase]

theorem c08_filter_erase (p : Entry K → Bool) (hp : ∀ e, p (eraseIndir e) = p e) (l : List (Entry K)) :
    (l.map eraseIndir).filter p = (l.filter p).map eraseIndir := by
  rw [List.filter_map]
  congr 2
  funext e
  exact hp e

theorem c08_scanSources_erase (t : TreeState K) (sv : SuperVersion K) (lo hi : Bound K) (S : Nat)
    (overlay : Option (List (Entry K) × Nat)) :
    (eraseState t).scanSources (eraseSv sv) lo hi S (c08_eraseOverlay overlay)
      = (t.scanSources sv lo hi S overlay).map (List.map eraseIndir) := by
  unfold TreeState.scanSources
  have hf : ∀ (s : Nat) (l : List (Entry K)),
      (l.map eraseIndir).filter (fun e => inBounds lo hi e.key && Lsm.visible s e)
        = (l.filter (fun e => inBounds lo hi e.key && Lsm.visible s e)).map eraseIndir :=
    fun s l => c08_filter_erase _ (fun e => by simp [Lsm.visible]) l
  simp only [eraseSv_version, eraseSv_sealed, eraseSv_active, c08_runs_erase, c08_mem_erase, List.map_append,
    List.map_map, List.map_cons, List.map_nil, hf]
  congr 1
  · congr 1
    · congr 1
      apply List.map_congr_left
      intro r _
      simp only [Function.comp_def, List.flatMap_map, eraseTable_entries, ← List.map_flatMap, hf]
  · cases overlay with
    | none => rfl
    | some p =>
      obtain ⟨l, s⟩ := p
      simp only [c08_eraseOverlay, Option.map_some, hf, List.map_cons, List.map_nil]

/-- **range scans** (any bounds, any word of `next` / `next_back` calls, with or without overlay) -/
theorem c08_scanAt_erase (t : TreeState K) (S : Nat) (lo hi : Bound K) (w : List Dir)
    (overlay : Option (List (Entry K) × Nat)) :
    (eraseState t).scanAt S lo hi w (c08_eraseOverlay overlay)
      = (t.scanAt S lo hi w overlay).map (List.map (Option.map eraseIndir)) := by
  unfold TreeState.scanAt
  rw [eraseState_hist, c08_getVersion_erase]
  cases getVersionForSnapshot t.hist S with
  | none => rfl
  | some sv =>
    simp only [Option.map_some, c08_scanSources_erase, c08_mergeAll_erase, c08_liveRun_erase]

end

end Lsm
