import LsmModel.Lemmas.CodecBackLemmas
/-
  LsmModel.Lemmas.CodecBackWalk — the double-ended decoder against the list model `bothEnds` (front/back pulls in any
  order), over a block whose bytes satisfy `Layout`.
-/
namespace Lsm.CodecBack
open Lsm Lsm.Codec

section
variable {data : Bytes} {ri : Nat} {items : List (Entry Bytes)} {off kOff : Nat → Nat} {d0 : Dec}

/-- `lo_scanner.base_key_offset` after `i` items -/
def loBaseOf (kOff : Nat → Nat) (ri i : Nat) : Option Nat := if i = 0 then none else some (kOff ((i - 1) / ri))

theorem pred_div (ri i : Nat) (hri : 0 < ri) (h : i % ri ≠ 0) : (i - 1) / ri = i / ri := by
  have e : i - 1 = (i / ri) * ri + (i % ri - 1) := by
    have := Nat.div_add_mod i ri; rw [Nat.mul_comm] at this; omega
  rw [e]
  exact (idx_div_mod (i / ri) ri (i % ri - 1) (by have := Nat.mod_lt i hri; omega)).1

/-- one successful `next` -/
theorem next_front (L : Layout data ri items off kOff d0) (i : Nat) (hi : i < items.length) (ho : Nat)
    (p : Option Nat) (st : List Nat) (hb : Option Nat) (hgo : ¬ (hb.isSome = true ∧ off i ≥ ho)) :
    ∃ x, items[i]? = some x.e ∧
      (St data ri d0.step (nRof ri items) d0.binOff (off i) (remOf ri i) (loBaseOf kOff ri i) ho p st hb).next =
        some (St data ri d0.step (nRof ri items) d0.binOff (off (i + 1)) (remOf ri (i + 1)) (loBaseOf kOff ri (i + 1))
          ho p st hb, some x) := by
  have hri := L.ri_pos
  obtain ⟨e, he⟩ : ∃ e, items[i]? = some e := ⟨items[i], by simp [hi]⟩
  have e1 : off i + (off (i + 1) - off i) = off (i + 1) := by have := L.off_mono i hi; omega
  have e2 : loBaseOf kOff ri (i + 1) = some (kOff (i / ri)) := by simp [loBaseOf]
  by_cases h0 : i % ri = 0
  · have hz := (remOf_zero_iff ri i hri).mpr h0
    have hp := L.full i e he h0
    have e3 : remOf ri (i + 1) = ri - 1 := by rw [remOf_succ ri i hri, if_pos h0]
    have hr0 : ¬ ri = 0 := by omega
    refine ⟨⟨e, kOff (i / ri), off (i + 1) - off i⟩, he, ?_⟩
    rw [hz, e2, e3]
    simp only [Dec.next, St, hgo, ↓reduceIte, hr0]
    rw [hp]
    simp only [e1]
  · have hz : ¬ remOf ri i = 0 := fun hh => h0 ((remOf_zero_iff ri i hri).mp hh)
    have hp := L.trunc i e he h0
    have e3 : remOf ri (i + 1) = remOf ri i - 1 := by rw [remOf_succ ri i hri, if_neg h0]
    have hi0 : ¬ i = 0 := by intro h; subst h; simp at h0
    have eb : loBaseOf kOff ri i = some (kOff (i / ri)) := by
      simp only [loBaseOf, hi0, if_false, pred_div ri i hri h0]
    refine ⟨⟨e, 0, off (i + 1) - off i⟩, he, ?_⟩
    rw [eb, e2, e3]
    simp only [Dec.next, St, hgo, ↓reduceIte, hz]
    rw [hp]
    simp only [e1]

/-- live invariant: front consumed `i`, back boundary `m` -/
abbrev LInv (data : Bytes) (ri : Nat) (items : List (Entry Bytes)) (off kOff : Nat → Nat) (d0 : Dec) (i m : Nat) (d : Dec) : Prop :=
  BInv data ri items off kOff d0 (off i) (remOf ri i) (loBaseOf kOff ri i) m d

theorem next_live (L : Layout data ri items off kOff d0) (i m : Nat) (d : Dec) (him : i < m) (hm : m ≤ items.length)
    (hI : LInv data ri items off kOff d0 i m d) :
    ∃ d' x, d.next = some (d', some x) ∧ items[i]? = some x.e ∧ LInv data ri items off kOff d0 (i + 1) m d' := by
  rcases hI with ⟨j, c, rfl, h1, h2⟩ | ⟨rfl, h1⟩
  · have hlt := off_lt_of_lt L i m him hm
    obtain ⟨x, hx, hn⟩ := next_front L i (by omega) (off m) (some j) (stk off (j * ri) c) (some (kOff j))
      (by intro h; omega)
    exact ⟨_, x, hn, hx, Or.inl ⟨j, c, rfl, h1, h2⟩⟩
  · obtain ⟨x, hx, hn⟩ := next_front L i (by omega) 0 (some (nRof ri items)) [] none (by simp)
    exact ⟨_, x, hn, hx, Or.inr ⟨rfl, h1⟩⟩

theorem stk_mem (k : Nat) : ∀ (c o : Nat), o ∈ stk off k c → ∃ x, x < c ∧ o = off (k + x) := by
  intro c
  induction c with
  | zero => intro o h; simp [stk] at h
  | succ c ih =>
    intro o h
    simp only [stk, List.mem_cons] at h
    rcases h with h | h
    · exact ⟨c, by omega, h⟩
    · obtain ⟨x, hx, hx'⟩ := ih o h; exact ⟨x, by omega, hx'⟩

/-- exhausted states: every pull from either end answers `None` -/
def Dead (data : Bytes) (ri : Nat) (items : List (Entry Bytes)) (off : Nat → Nat) (d0 : Dec) (d : Dec) : Prop :=
  (∃ i lr lb ho p st b, d = St data ri d0.step (nRof ri items) d0.binOff (off i) lr lb ho p st (some b) ∧
      ho ≤ off i ∧ (∀ o ∈ st, o < off i) ∧ (p = none ∨ ∃ j, p = some j ∧ j * ri ≤ i) ∧ i ≤ items.length) ∨
  (∃ lr b, d = St data ri d0.step (nRof ri items) d0.binOff (off items.length) lr (some b) 0 (some (nRof ri items)) [] none)

theorem consumeTop_cross (lo lr : Nat) (lb : Option Nat) (ho : Nat) (p : Option Nat) (st : List Nat) (hb : Option Nat)
    (step bl bo : Nat) (h : ∀ o ∈ st, o < lo) :
    (St data ri step bl bo lo lr lb ho p st hb).consumeTop = some (St data ri step bl bo lo lr lb ho p st.tail hb, none) := by
  cases st with
  | nil => rfl
  | cons o st' =>
    have ho' := h o (by simp)
    have hc : lo > 0 ∧ o < lo := by omega
    simp only [Dec.consumeTop, St, hc, ↓reduceIte, and_self, List.tail_cons]

theorem LInv_dead (L : Layout data ri items off kOff d0) (i : Nat) (d : Dec) (hi : i ≤ items.length)
    (hI : LInv data ri items off kOff d0 i i d) : Dead data ri items off d0 d := by
  rcases hI with ⟨j, c, rfl, h1, h2⟩ | ⟨rfl, h1⟩
  · left
    refine ⟨i, _, _, _, _, _, _, rfl, Nat.le_refl _, ?_, Or.inr ⟨j, rfl, by omega⟩, hi⟩
    intro o ho
    obtain ⟨x, hx, rfl⟩ := stk_mem (j * ri) c o ho
    exact off_lt_of_lt L _ _ (by omega) hi
  · right
    have hn : 0 < items.length := List.length_pos_iff.mpr L.nonempty
    subst h1
    refine ⟨remOf ri items.length, kOff ((items.length - 1) / ri), ?_⟩
    have : loBaseOf kOff ri items.length = some (kOff ((items.length - 1) / ri)) := by
      simp only [loBaseOf]; rw [if_neg (by omega)]
    rw [this]

theorem dead_next (L : Layout data ri items off kOff d0) (d : Dec) (hD : Dead data ri items off d0 d) :
    ∃ d', d.next = some (d', none) ∧ Dead data ri items off d0 d' := by
  have hri := L.ri_pos
  rcases hD with ⟨i, lr, lb, ho, p, st, b, rfl, h1, h2, h3, h4⟩ | ⟨lr, b, rfl⟩
  · refine ⟨_, ?_, Or.inl ⟨i, lr, lb, ho, p, st, b, rfl, h1, h2, h3, h4⟩⟩
    have hc : (some b).isSome = true ∧ off i ≥ ho := ⟨rfl, h1⟩
    simp only [Dec.next, St, hc, and_self, ↓reduceIte]
  · have hr0 : ¬ ri = 0 := by omega
    by_cases hz : lr = 0
    · refine ⟨_, ?_, Or.inr ⟨ri - 1, b, rfl⟩⟩
      subst hz
      simp only [Dec.next, St, Option.isSome_none, Bool.false_eq_true, false_and, ↓reduceIte, hr0]
      rw [L.endFull]
    · refine ⟨_, ?_, Or.inr ⟨lr - 1, b, rfl⟩⟩
      simp only [Dec.next, St, Option.isSome_none, Bool.false_eq_true, false_and, ↓reduceIte, hz]
      rw [L.endTrunc]

/-- `next_back` in an exhausted state whose `ptr_idx` is `j + 1`: interval `j` is scanned and its top is refused -/
theorem dead_fill (L : Layout data ri items off kOff d0) (i j lr : Nat) (lb : Option Nat) (ho : Nat) (st : List Nat)
    (hb : Option Nat) (hst : ∀ o ∈ st, o < off i) (hj : j * ri < items.length)
    (hji : j * ri + min ri (items.length - j * ri) ≤ i) (hi : i ≤ items.length) :
    ∃ d', (St data ri d0.step (nRof ri items) d0.binOff (off i) lr lb ho (some (j + 1)) st hb).nextBack = some (d', none) ∧
      Dead data ri items off d0 d' := by
  have hall : ∀ o ∈ stk off (j * ri) (min ri (items.length - j * ri)) ++ st.tail, o < off i := by
    intro o ho'
    rcases List.mem_append.mp ho' with h | h
    · obtain ⟨x, hx, rfl⟩ := stk_mem (j * ri) _ o h
      exact off_lt_of_lt L _ _ (by omega) hi
    · exact hst o (List.mem_of_mem_tail h)
  refine ⟨St data ri d0.step (nRof ri items) d0.binOff (off i) lr lb (off (j * ri + min ri (items.length - j * ri)))
      (some j) (stk off (j * ri) (min ri (items.length - j * ri)) ++ st.tail).tail (some (kOff j)), ?_, ?_⟩
  · unfold Dec.nextBack
    rw [consumeTop_cross _ _ _ _ _ _ _ _ _ _ hst]
    show (match Dec.fillStack (St data ri d0.step (nRof ri items) d0.binOff (off i) lr lb ho (some j) st.tail hb) with
      | none => none
      | some d => d.consumeTop) = _
    rw [fillStack_spec L j hj st.tail]
    show Dec.consumeTop _ = _
    rw [consumeTop_cross _ _ _ _ _ _ _ _ _ _ hall]
  · left
    exact ⟨i, lr, lb, _, _, _, kOff j, rfl, off_le_of_le L i _ hji hi,
      fun o ho' => hall o (List.mem_of_mem_tail ho'), Or.inr ⟨j, rfl, by omega⟩, hi⟩

theorem dead_nextBack (L : Layout data ri items off kOff d0) (d : Dec) (hD : Dead data ri items off d0 d) :
    ∃ d', d.nextBack = some (d', none) ∧ Dead data ri items off d0 d' := by
  have hri := L.ri_pos
  rcases hD with ⟨i, lr, lb, ho, p, st, b, rfl, h1, h2, h3, h4⟩ | ⟨lr, b, rfl⟩
  · rcases h3 with rfl | ⟨j, rfl, hj⟩
    · refine ⟨St data ri d0.step (nRof ri items) d0.binOff (off i) lr lb ho none st.tail (some b), ?_,
        Or.inl ⟨i, lr, lb, ho, none, st.tail, b, rfl, h1, fun o ho' => h2 o (List.mem_of_mem_tail ho'), Or.inl rfl, h4⟩⟩
      unfold Dec.nextBack
      rw [consumeTop_cross _ _ _ _ _ _ _ _ _ _ h2]
      rfl
    · cases j with
      | zero =>
        refine ⟨St data ri d0.step (nRof ri items) d0.binOff (off i) lr lb ho none st.tail (some b), ?_,
          Or.inl ⟨i, lr, lb, ho, none, st.tail, b, rfl, h1, fun o ho' => h2 o (List.mem_of_mem_tail ho'), Or.inl rfl, h4⟩⟩
        unfold Dec.nextBack
        rw [consumeTop_cross _ _ _ _ _ _ _ _ _ _ h2]
        rfl
      | succ j =>
        rw [Nat.add_mul, Nat.one_mul] at hj
        exact dead_fill L i j lr lb ho st (some b) h2 (by omega) (by omega) h4
  · obtain ⟨j, hj, hj1, hj2⟩ := nR_facts L
    have h := dead_fill L items.length j lr (some b) 0 [] none (by simp) hj1 (by omega) (Nat.le_refl _)
    rw [← hj] at h
    exact h

theorem run_dead (L : Layout data ri items off kOff d0) :
    ∀ (w : List Dir) (d : Dec), Dead data ri items off d0 d →
      Iter.run { dec := d, front := none, back := none } w = some (bothEnds ([] : List (Entry Bytes)) w) := by
  intro w
  induction w with
  | nil => intro d _; rfl
  | cons a w ih =>
    intro d hD
    cases a with
    | F =>
      obtain ⟨d', hn, hD'⟩ := dead_next L d hD
      simp only [Iter.run, Iter.next, hn, peekedValue, ih d' hD', Option.map_some, bothEnds, Option.map_none]
    | B =>
      obtain ⟨d', hn, hD'⟩ := dead_nextBack L d hD
      simp only [Iter.run, Iter.nextBack, hn, peekedValue, ih d' hD', Option.map_some, bothEnds, Option.map_none,
        List.reverse_nil]

theorem window_cons (i m : Nat) (e : Entry Bytes) (him : i < m) (hm : m ≤ items.length) (he : items[i]? = some e) :
    (items.take m).drop i = e :: (items.take m).drop (i + 1) := by
  have hl : i < (items.take m).length := by simp; omega
  rw [List.drop_eq_getElem_cons hl]
  congr 1
  have : (items.take m)[i]? = some e := by rw [List.getElem?_take_of_lt him]; exact he
  rw [List.getElem?_eq_getElem hl] at this
  exact Option.some.inj this

theorem window_snoc (i m : Nat) (e : Entry Bytes) (him : i ≤ m) (hm : m + 1 ≤ items.length) (he : items[m]? = some e) :
    ((items.take (m + 1)).drop i).reverse = e :: ((items.take m).drop i).reverse := by
  rw [List.take_add_one, he]
  simp only [Option.toList_some]
  rw [List.drop_append_of_le_length (by simp; omega)]
  simp

/-- the double-ended decoder yields exactly what consuming the remaining window from both ends yields -/
theorem run_live (L : Layout data ri items off kOff d0) :
    ∀ (w : List Dir) (i m : Nat) (d : Dec), i ≤ m → m ≤ items.length → LInv data ri items off kOff d0 i m d →
      Iter.run { dec := d, front := none, back := none } w = some (bothEnds ((items.take m).drop i) w) := by
  intro w
  induction w with
  | nil => intro i m d _ _ _; rfl
  | cons a w ih =>
    intro i m d him hm hI
    by_cases heq : i = m
    · subst heq
      have hnil : (items.take i).drop i = [] := by
        apply List.drop_eq_nil_of_le; simp; omega
      rw [hnil]
      exact run_dead L (a :: w) d (LInv_dead L i d hm hI)
    · cases a with
      | F =>
        obtain ⟨d', x, hn, hx, hI'⟩ := next_live L i m d (by omega) hm hI
        rw [window_cons i m x.e (by omega) hm hx]
        simp only [Iter.run, Iter.next, hn, ih (i + 1) m d' (by omega) hm hI', Option.map_some, bothEnds]
      | B =>
        obtain ⟨m', rfl⟩ : ∃ m', m = m' + 1 := ⟨m - 1, by omega⟩
        obtain ⟨d', x, hn, hx, hI'⟩ := nextBack_step L m' d (off i) (remOf ri i) (loBaseOf kOff ri i) hm
          (off_le_of_le L m' i (by omega) (by omega)) hI
        simp only [Iter.run, Iter.nextBack, hn, ih i m' d' (by omega) (by omega) hI', Option.map_some, bothEnds,
          window_snoc i m' x.e (by omega) hm hx, List.reverse_reverse]

/-- pulls from both ends of a fresh iterator over a laid-out block -/
theorem run_of_layout (L : Layout data ri items off kOff d0) (w : List Dir) :
    (Iter.new data).bind (fun it => Iter.run it w) = some (bothEnds items w) := by
  unfold Iter.new
  rw [L.new]
  simp only [Option.map_some, Option.bind_some]
  have h := run_live L w 0 items.length d0 (Nat.zero_le _) (Nat.le_refl _) (by
    have := BInv_fresh L
    simpa [LInv, L.off_zero, remOf, loBaseOf] using this)
  simpa using h

end
end Lsm.CodecBack
