import LsmModel.Lemmas.ContentLemmas2
import LsmModel.Lemmas.StrategyLemmas
/-
  LsmModel.Lemmas.DropClearLemmas — what `drop_range` (`Op.drop`, `TreeState.dropCommit`) and `Tree::clear`
  (`Op.clear`, `TreeState.clear`) do to the per-key version history `keyHist` of the latest super version
  (step lemmas in the style of ContentLemmas2, used by Props/C15), and the guarded run `Reach15` that extends
  C01's alphabet by `drop` (chosen by `dropRangeChoose`) and `clear`.
-/
namespace Lsm
set_option linter.unusedSectionVars false
set_option linter.unusedVariables false
variable {K : Type} [LT K] [DecidableLT K] [DecidableEq K] [LE K] [Std.IsLinearOrder K] [Std.LawfulOrderLT K]

/-! ## generic list facts -/

theorem dropc_filter_flatMap_sublist {α β : Type} (p : α → Bool) (f : α → List β) (l : List α) :
    ((l.filter p).flatMap f).Sublist (l.flatMap f) := by
  induction l with
  | nil => exact List.Sublist.refl _
  | cons a l ih =>
    rw [List.filter_cons]
    split
    · rw [List.flatMap_cons, List.flatMap_cons]
      exact (List.Sublist.refl _).append ih
    · rw [List.flatMap_cons]
      exact List.Sublist.trans ih (List.sublist_append_right _ _)

theorem dropc_eq_of_map_nodup {α β : Type} (f : α → β) {l : List α} (h : (l.map f).Nodup) {a b : α}
    (ha : a ∈ l) (hb : b ∈ l) (hab : f a = f b) : a = b := by
  induction l with
  | nil => cases ha
  | cons x xs ih =>
    rw [List.map_cons, List.nodup_cons] at h
    rcases List.mem_cons.1 ha with rfl | ha' <;> rcases List.mem_cons.1 hb with rfl | hb'
    · rfl
    · exact absurd (List.mem_map.2 ⟨b, hb', hab.symm⟩) h.1
    · exact absurd (List.mem_map.2 ⟨a, ha', hab⟩) h.1
    · exact ih h.2 ha' hb'

/-! ## `with_dropped` and the table part of a key's history -/

theorem dropc_withDropped_length (v : Version K) (ids : List Nat) :
    (v.withDropped ids).levels.length = v.levels.length := by
  simp [Version.withDropped]

/-- the table part of the history of `k` after `with_dropped`: the dropped tables' versions disappear, nothing else
    changes and nothing is reordered -/
theorem dropc_tabHist_withDropped {v : Version K} (hv : v.WF) (ids : List Nat) (k : K) :
    tabHist (v.withDropped ids) k
      = ((keyTables v k).filter (fun t => !ids.contains t.id)).flatMap (fun t => keyOf k t.entries) := by
  rw [tabHist_eq_keyTables (withDropped_WF hv ids), withDropped_keyTables hv ids k]

theorem dropc_tabHist_sublist {v : Version K} (hv : v.WF) (ids : List Nat) (k : K) :
    (tabHist (v.withDropped ids) k).Sublist (tabHist v k) := by
  rw [dropc_tabHist_withDropped hv ids k, tabHist_eq_keyTables hv k]
  exact dropc_filter_flatMap_sublist _ _ _

/-- a table whose recorded range lies inside the bounds cannot hold a key outside the bounds -/
theorem dropc_contained_not_containsKey {lo hi : Bound K} {tb : TableM K} (hb : boundsContain lo hi tb = true)
    {k : K} (hk : inBounds lo hi k = false) : tb.containsKey k = false := by
  cases hc : tb.containsKey k with
  | false => rfl
  | true =>
    simp only [TableM.containsKey, Bool.and_eq_true, Bool.not_eq_true', decide_eq_false_iff_not] at hc
    have := boundsContain_sound' lo hi tb hb k (Std.not_lt.1 hc.1) (Std.not_lt.1 hc.2)
    rw [hk] at this
    cases this

/-- if every dropped table lies inside the bounds, the table history of a key OUTSIDE the bounds is untouched -/
theorem dropc_tabHist_outside {v : Version K} (hv : v.WF) (ids : List Nat) (lo hi : Bound K)
    (hc : ∀ tb ∈ v.tables, tb.id ∈ ids → boundsContain lo hi tb = true) (k : K) (hk : inBounds lo hi k = false) :
    tabHist (v.withDropped ids) k = tabHist v k := by
  rw [dropc_tabHist_withDropped hv ids k, tabHist_eq_keyTables hv k]
  congr 1
  rw [List.filter_eq_self]
  intro tb htb
  rw [keyTables, List.mem_filter] at htb
  cases hin : ids.contains tb.id with
  | false => rfl
  | true =>
    have := dropc_contained_not_containsKey (hc tb htb.1 (List.contains_iff_mem.1 hin)) hk
    rw [htb.2] at this
    cases this

/-- `drop_range::Strategy::choose` only picks tables whose key range lies inside the bounds (every table carrying a
    chosen id, since ids are pairwise distinct in a well-formed version) -/
theorem dropc_choose_contained {lo hi : Bound K} {v : Version K} (hv : v.WF) {hidden ids : List Nat}
    (hc : dropRangeChoose lo hi v hidden = .drop ids) :
    ∀ tb ∈ v.tables, tb.id ∈ ids → boundsContain lo hi tb = true := by
  intro tb htb hid
  obtain ⟨tb', htb', hid', hb⟩ := dropRange_ids_contained lo hi v hidden ids hc tb.id hid
  have : tb' = tb := dropc_eq_of_map_nodup (·.id) hv.nodup htb' htb hid'
  rw [← this]; exact hb

/-- an empty range (no key inside; in particular an inverted one) selects no table -/
theorem dropc_choose_empty_range {lo hi : Bound K} {v : Version K} (hv : v.WF) {hidden ids : List Nat}
    (hc : dropRangeChoose lo hi v hidden = .drop ids) (hempty : ∀ k, inBounds lo hi k = false) : ids = [] := by
  rw [List.eq_nil_iff_forall_not_mem]
  intro i hi'
  obtain ⟨tb, htb, _, hb⟩ := dropRange_ids_contained lo hi v hidden ids hc i hi'
  have h1 : tb.lo ≤ tb.hi := Std.not_lt.1 (hv.lo_le_hi htb)
  have := boundsContain_sound' lo hi tb hb tb.lo (Std.le_refl _) h1
  rw [hempty] at this
  cases this

/-! ## Step lemma: `dropCommit` -/

/-- `drop_tables`: the invariant is kept (for EVERY key: removing tables leaves a sublist of each key's history),
    and the new reads are the live heads of the histories with the dropped tables removed -/
theorem dropCommit_good {t t' : TreeState K} (h : Good t) {ids : List Nat} {wm : Nat}
    (hd : t.dropCommit ids wm = some t') :
    Good t' ∧ ∃ sv, t.latest? = some sv ∧
      ∀ k, readOf t' k = live (memHist t sv k ++ tabHist (sv.version.withDropped ids) k).head? := by
  obtain ⟨sv, hl, hg, hseq⟩ := h.sv
  simp only [TreeState.dropCommit, hl, Option.map_some, Option.some.injEq] at hd
  subst hd
  let sv' : SuperVersion K := { sv with version := sv.version.withDropped ids }
  have hk : ∀ k, keyHist t sv' k = memHist t sv k ++ tabHist (sv.version.withDropped ids) k := by
    intro k; rw [keyHist_eq]; rfl
  have hsub : ∀ k, (keyHist t sv' k).Sublist (keyHist t sv k) := by
    intro k
    rw [hk, keyHist_eq]
    exact (List.Sublist.refl _).append (dropc_tabHist_sublist hg.vwf ids k)
  have hg' : GoodSv t sv' := by
    apply hg.of_sublist hsub
    · exact withDropped_WF hg.vwf ids
    · simp only [sv']; rw [dropc_withDropped_length]; exact hg.lvl
    · exact hg.act
    · exact hg.nin
  obtain ⟨hgood, hread⟩ := install_good h.wf h.blob sv' wm hg'
  refine ⟨hgood, sv, hl, fun k => ?_⟩
  rw [hread k, hk]

/-- `drop_tables` of tables that all lie inside the bounds `(lo, hi)`: the invariant is kept and the read of every
    key OUTSIDE the bounds is unchanged -/
theorem dropCommit_good_outside {t t' : TreeState K} (h : Good t) {ids : List Nat} {wm : Nat}
    (hd : t.dropCommit ids wm = some t') (lo hi : Bound K)
    (hc : ∀ sv, t.latest? = some sv → ∀ tb ∈ sv.version.tables, tb.id ∈ ids → boundsContain lo hi tb = true) :
    Good t' ∧ ∀ k, inBounds lo hi k = false → readOf t' k = readOf t k := by
  obtain ⟨hgood, sv, hl, hread⟩ := dropCommit_good h hd
  refine ⟨hgood, fun k hk => ?_⟩
  obtain ⟨sv0, hl0, hg, _⟩ := h.sv
  have : sv0 = sv := Option.some.inj (hl0.symm.trans hl)
  subst this
  rw [hread k, readOf, hl0]
  simp only
  rw [keyHist_eq, dropc_tabHist_outside hg.vwf ids lo hi (hc sv0 hl0) k hk]

/-! ## Step lemma: `clear` -/

theorem dropc_clear_eq (t : TreeState K) (m : Nat) (sv : SuperVersion K) (hl : t.latest? = some sv) :
    t.clear m = some ((t.addMem m).install
      { active := m, sealed := [], version := Version.empty (sv.version.id + 1) t.levelCount, seqno := 0 } 0) := by
  simp only [TreeState.clear, hl, Option.map_some]
  rfl

/-- `Tree::clear`: the invariant is kept and every key reads "absent" -/
theorem clear_good {t t' : TreeState K} (h : Good t) {m : Nat} (hf : t.freshMem m = true)
    (hc : t.clear m = some t') : Good t' ∧ ∀ k, readOf t' k = none := by
  obtain ⟨sv, hl, hg, hseq⟩ := h.sv
  rw [dropc_clear_eq t m sv hl] at hc
  cases hc
  let svc : SuperVersion K :=
    { active := m, sealed := [], version := Version.empty (sv.version.id + 1) t.levelCount, seqno := 0 }
  have hk : ∀ k, keyHist (t.addMem m) svc k = [] := by
    intro k
    rw [keyHist_eq, memHist, tabHist]
    simp only [svc, addMem_mem, mem_fresh t m hf, version_empty_tables]
    rfl
  have hg' : GoodSv (t.addMem m) svc := by
    refine ⟨version_empty_WF _ _, ?_, ?_, ?_, ?_, ?_, ?_⟩
    · simp [svc, Version.empty, TreeState.addMem]
    · intro id hid
      simp only [svc, List.mem_cons, List.not_mem_nil, or_false] at hid
      subst hid
      exact ⟨_, List.mem_append_right _ List.mem_cons_self, rfl⟩
    · simp [svc]
    · intro k e he; rw [hk] at he; cases he
    · intro k e he; rw [hk] at he; cases he
    · intro k; rw [hk]; exact List.Pairwise.nil
  obtain ⟨hgood, hread⟩ := install_good (addMem_WF h.wf m hf) (show (t.addMem m).blobTh = none from h.blob) svc 0 hg'
  refine ⟨hgood, fun k => ?_⟩
  rw [hread k, hk]
  rfl

/-! ## the guarded run with `drop_range` and `clear` -/

/-- C01's alphabet extended by
    * `drop ids _`: allowed when `ids` is the choice of the drop_range strategy for some bounds `(lo, hi)` that contain
      no protected key (`P k → inBounds lo hi k = false`) on the latest version (any `hidden` set, i.e. the choice
      was not `DoNothing`);
    * `clear m`: allowed when `m` is a fresh memtable id.
    `P` is the set of *protected* keys: the keys that never lie inside a dropped range. -/
def okStep15 (P : K → Prop) (t : TreeState K) : Op K → Prop
  | .drop ids _ => ∃ lo hi hidden, (∀ k, P k → inBounds lo hi k = false) ∧
      ∀ sv, t.latest? = some sv → dropRangeChoose lo hi sv.version hidden = .drop ids
  | .clear m => t.freshMem m = true
  | op => okStep t op

/-- a run in which every operation satisfies `okStep15 P` on the state it is applied to -/
inductive Reach15 (P : K → Prop) : TreeState K → List (Op K) → TreeState K → Prop
  | refl (t : TreeState K) : Reach15 P t [] t
  | step {t t' t'' : TreeState K} {op : Op K} {ops : List (Op K)} :
      okStep15 P t op → t.applyOp op = some t' → Reach15 P t' ops t'' → Reach15 P t (op :: ops) t''

/-- what one operation does to the ordered-map value of key `k` (`r` = value before): `clear` resets the key to
    "absent", a `write` holding the key sets it (a tombstone = "absent"), everything else — including a `drop_range`
    whose range does not contain the key — is the identity -/
def Op.c15_effect (k : K) (r : Option (Entry K)) : Op K → Option (Entry K)
  | .clear _ => none
  | .write es => (match batchGet es k with
      | some e => live (some e)
      | none => r)
  | _ => r

/-- the ordered-map replay for one key, as a fold over the history (see `Op.c15_effect`) -/
def c15_replay (k : K) : List (Op K) → Option (Entry K) → Option (Entry K)
  | [], r => r
  | op :: ops, r => c15_replay k ops (op.c15_effect k r)

/-- the operation is a `clear` -/
def Op.c15_isClear : Op K → Bool
  | .clear _ => true
  | _ => false

/-- without `clear` the replay is C01's `lastWrite` -/
theorem c15_replay_noclear (k : K) (ops : List (Op K)) (hno : ∀ op ∈ ops, op.c15_isClear = false)
    (r : Option (Entry K)) :
    c15_replay k ops r = match lastWrite ops k with
      | some e => live (some e)
      | none => r := by
  induction ops generalizing r with
  | nil => rfl
  | cons op ops ih =>
    rw [c15_replay, ih (fun o ho => hno o (List.mem_cons_of_mem _ ho)), lastWrite]
    cases hlw : lastWrite ops k with
    | some e => rfl
    | none =>
      have hop := hno op List.mem_cons_self
      cases op <;> first | rfl | (simp [Op.c15_isClear] at hop)

/-- one step of the extended alphabet: the invariant is kept; the read of a protected key follows the replay -/
theorem applyOp_good15 {P : K → Prop} {t t' : TreeState K} {op : Op K} (h : Good t) (hok : okStep15 P t op)
    (ha : t.applyOp op = some t') :
    Good t' ∧ ∀ k, P k → readOf t' k = c15_replay k [op] (readOf t k) := by
  cases op with
  | drop ids wm =>
    obtain ⟨lo, hi, hidden, hP, hch⟩ := hok
    obtain ⟨sv, hl, hg, _⟩ := h.sv
    obtain ⟨hgood, hread⟩ := dropCommit_good_outside h ha lo hi
      (fun sv' hl' => by
        have : sv' = sv := Option.some.inj (hl'.symm.trans hl)
        subst this
        exact dropc_choose_contained hg.vwf (hch sv' hl'))
    exact ⟨hgood, fun k hk => hread k (hP k hk)⟩
  | clear m =>
    have hf : t.freshMem m = true := hok
    simp only [TreeState.applyOp, hf, if_true] at ha
    obtain ⟨hgood, hread⟩ := clear_good h hf ha
    exact ⟨hgood, fun k _ => hread k⟩
  | write es =>
    obtain ⟨hgood, hread⟩ := applyOp_good h (show okStep t (.write es) from hok) ha
    refine ⟨hgood, fun k _ => ?_⟩
    rw [hread k]; rfl
  | rotate m =>
    obtain ⟨hgood, hread⟩ := applyOp_good h (show okStep t (.rotate m) from hok) ha
    exact ⟨hgood, fun k _ => hread k⟩
  | flush wm m cuts =>
    obtain ⟨hgood, hread⟩ := applyOp_good h (show okStep t (.flush wm m cuts) from hok) ha
    exact ⟨hgood, fun k _ => hread k⟩
  | flushCommit ids wm cuts =>
    obtain ⟨hgood, hread⟩ := applyOp_good h (show okStep t (.flushCommit ids wm cuts) from hok) ha
    exact ⟨hgood, fun k _ => hread k⟩
  | merge ids dest wm f cuts =>
    obtain ⟨hgood, hread⟩ := applyOp_good h (show okStep t (.merge ids dest wm f cuts) from hok) ha
    exact ⟨hgood, fun k _ => hread k⟩
  | move ids dest wm =>
    obtain ⟨hgood, hread⟩ := applyOp_good h (show okStep t (.move ids dest wm) from hok) ha
    exact ⟨hgood, fun k _ => hread k⟩
  | ingest m fc items cuts => exact (show okStep t (.ingest m fc items cuts) from hok).elim
  | reopen =>
    obtain ⟨hgood, hread⟩ := applyOp_good h (show okStep t .reopen from hok) ha
    exact ⟨hgood, fun k _ => hread k⟩

theorem c15_replay_cons (k : K) (op : Op K) (ops : List (Op K)) (r : Option (Entry K)) :
    c15_replay k (op :: ops) r = c15_replay k ops (c15_replay k [op] r) := rfl

theorem reach15_good {P : K → Prop} {t t' : TreeState K} {ops : List (Op K)} (hr : Reach15 P t ops t')
    (h : Good t) : Good t' ∧ ∀ k, P k → readOf t' k = c15_replay k ops (readOf t k) := by
  induction hr with
  | refl t => exact ⟨h, fun _ _ => rfl⟩
  | step hok ha _ ih =>
    obtain ⟨h1, hr1⟩ := applyOp_good15 h hok ha
    obtain ⟨h2, hr2⟩ := ih h1
    refine ⟨h2, fun k hk => ?_⟩
    rw [hr2 k hk, hr1 k hk, ← c15_replay_cons]

/-- C01's alphabet is part of the extended one -/
theorem okStep15_of_okStep (P : K → Prop) {t : TreeState K} {op : Op K} (h : okStep t op) : okStep15 P t op := by
  cases op <;> first | exact h | exact h.elim

theorem reach15_of_reach (P : K → Prop) {t t' : TreeState K} {ops : List (Op K)} (h : Reach t ops t') :
    Reach15 P t ops t' := by
  induction h with
  | refl t => exact .refl t
  | step hok ha _ ih => exact .step (okStep15_of_okStep P hok) ha ih

theorem Reach15.append {P : K → Prop} {t t' t'' : TreeState K} {ops ops' : List (Op K)}
    (h : Reach15 P t ops t') (h' : Reach15 P t' ops' t'') : Reach15 P t (ops ++ ops') t'' := by
  induction h with
  | refl t => exact h'
  | step hok ha _ ih => exact .step hok ha (ih h')

end Lsm
