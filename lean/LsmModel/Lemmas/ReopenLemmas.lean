import LsmModel.Lemmas.ContentLemmas2
/-
  LsmModel.Lemmas.ReopenLemmas — what `TreeState.reopen` (drop + recover: `Tree::recover` / `recover_levels`) does to
  the per-key history and to guarded runs (lemma layer of C04).

  * `reopen_good_general`   — `reopen_good` without the "memtables are empty" premise: the invariant `Good` survives
                              any reopen, and afterwards a key reads the live head of the TABLE part of its history
                              (`tabHist`), i.e. exactly the flushed writes;
  * `c04_versionGet_eq_head`— above every stored seqno of the key, `versionGet` is the head of `tabHist`;
  * `c04_reopen_shape`      — the state after a reopen, field by field;
  * `Reach.append`, `c04_lastWrite_append`, `c04_reach_reopen` — guarded runs compose, also across a reopen.
-/
namespace Lsm
set_option linter.unusedSectionVars false
set_option linter.unusedVariables false
variable {K : Type} [LT K] [DecidableLT K] [DecidableEq K] [LE K] [Std.IsLinearOrder K] [Std.LawfulOrderLT K]

/-! ## the state after a reopen -/

/-- `reopen` unfolded on a state whose latest super version is `sv` -/
theorem c04_reopen_eq {t t' : TreeState K} {sv : SuperVersion K} (hl : t.latest? = some sv)
    (hr : t.reopen = some t') :
    t' = { t with hist := [{ active := 0, sealed := [], version := sv.version, seqno := 0 }],
                  mems := [{ id := 0, entries := [] }] } := by
  simp only [TreeState.reopen, hl, Option.map_some, Option.some.injEq] at hr
  exact hr.symm

/-- the shape of the reopened state: one history entry (seqno 0, the recovered version, a single empty active
    memtable with id 0, nothing sealed), all counters and the configuration kept -/
theorem c04_reopen_shape {t t' : TreeState K} {sv : SuperVersion K} (hl : t.latest? = some sv)
    (hr : t.reopen = some t') :
    t'.hist = [{ active := 0, sealed := [], version := sv.version, seqno := 0 }] ∧
    t'.mems = [{ id := 0, entries := [] }] ∧
    t'.latest? = some { active := 0, sealed := [], version := sv.version, seqno := 0 } ∧
    t'.seqCtr = t.seqCtr ∧ t'.visible = t.visible ∧ t'.levelCount = t.levelCount ∧ t'.blobTh = t.blobTh := by
  rw [c04_reopen_eq hl hr]
  exact ⟨rfl, rfl, rfl, rfl, rfl, rfl, rfl⟩

/-- a well-formed state can always be reopened (its history is never empty) -/
theorem c04_reopen_defined {t : TreeState K} (hwf : t.WF) : ∃ t', t.reopen = some t' := by
  cases hl : t.latest? with
  | some sv =>
    refine ⟨{ t with hist := [{ active := 0, sealed := [], version := sv.version, seqno := 0 }],
                     mems := [{ id := 0, entries := [] }] }, ?_⟩
    simp only [TreeState.reopen, hl, Option.map_some]
  | none => exact absurd (List.getLast?_eq_none_iff.1 hl) hwf.hist_ne

/-- after a reopen exactly the memtable id `0` is taken -/
theorem c04_reopen_freshMem {t t' : TreeState K} (hr : t.reopen = some t') (m : Nat) :
    t'.freshMem m = true ↔ m ≠ 0 := by
  simp only [TreeState.reopen, Option.map_eq_some_iff] at hr
  obtain ⟨sv, _, rfl⟩ := hr
  simp only [TreeState.freshMem, List.any_cons, List.any_nil, Bool.or_false, Bool.not_eq_true', beq_eq_false_iff_ne,
    ne_eq]
  constructor
  · intro h h0; exact h h0.symm
  · intro h h0; exact h h0.symm

/-! ## the history of a key after a reopen -/

/-- after a reopen the history of every key is the table part of its old history -/
theorem c04_reopen_keyHist {t t' : TreeState K} {sv : SuperVersion K} (hl : t.latest? = some sv)
    (hr : t.reopen = some t') (k : K) :
    keyHist t' { active := 0, sealed := [], version := sv.version, seqno := 0 } k = tabHist sv.version k := by
  have hmem0 : t'.mem 0 = [] := by rw [c04_reopen_eq hl hr]; rfl
  rw [keyHist_eq, memHist]
  simp [hmem0, keyOf_nil]

/-- the table part is a suffix, hence a sublist, of the whole history -/
theorem c04_tabHist_sublist (t : TreeState K) (sv : SuperVersion K) (k : K) :
    (tabHist sv.version k).Sublist (keyHist t sv k) := by
  rw [keyHist_eq]
  exact List.sublist_append_right _ _

/-- **`reopen_good` without the emptiness premise.** Any reopen of a `Good` state gives a `Good` state, and the
    newest-snapshot read of a key is the live head of the TABLE part of its old history: the writes still sitting in
    memtables (active or sealed) are gone, every flushed write is kept in place. -/
theorem reopen_good_general {t t' : TreeState K} {sv : SuperVersion K} (h : Good t) (hl : t.latest? = some sv)
    (hr : t.reopen = some t') :
    Good t' ∧ ∀ k, readOf t' k = live (tabHist sv.version k).head? := by
  obtain ⟨sv0, hl0, hg, hseq⟩ := h.sv
  obtain rfl : sv0 = sv := Option.some.inj (hl0.symm.trans hl)
  have hwf' := reopen_WF hr h.wf
  obtain ⟨hhist, hmems, hl', hctr, _, hlc, hblob⟩ := c04_reopen_shape hl hr
  have hk := c04_reopen_keyHist hl hr
  have hsub : ∀ k e, e ∈ keyHist t' { active := 0, sealed := [], version := sv0.version, seqno := 0 } k →
      e ∈ keyHist t sv0 k := by
    intro k e he
    rw [hk] at he
    exact (c04_tabHist_sublist t sv0 k).subset he
  refine ⟨⟨hwf', by rw [hblob]; exact h.blob, _, hl', ?_, ?_⟩, ?_⟩
  · refine ⟨hg.vwf, by rw [hlc]; exact hg.lvl, ?_, by simp, ?_, ?_, ?_⟩
    · intro id hid
      simp only [List.mem_cons, List.not_mem_nil, or_false] at hid
      subst hid
      rw [hmems]
      exact ⟨_, List.mem_cons_self, rfl⟩
    · intro k e he
      rw [hctr]
      exact hg.below k e (hsub k e he)
    · intro k e he
      exact hg.noweak k e (hsub k e he)
    · intro k
      rw [hk]
      exact (hg.ord k).sublist (c04_tabHist_sublist t sv0 k)
  · by_cases hc : t'.seqCtr = 0
    · right; exact ⟨hc, hhist⟩
    · left; show 0 < t'.seqCtr; omega
  · intro k
    rw [readOf, hl']
    simp only
    rw [hk]

/-- above every stored seqno of the key, the table lookup returns the head of the key's table history -/
theorem c04_versionGet_eq_head {v : Version K} (hv : v.WF) (k : K) (S : Nat)
    (hS : ∀ e ∈ tabHist v k, e.seqno < S) : versionGet v k S = (tabHist v k).head? := by
  rw [versionGet_eq_tables hv, tabHist, List.head?_flatMap]
  apply findSome?_congr'
  intro tb htb
  simp only [tableGet]
  apply newest_eq_head
  intro e he
  apply hS
  rw [mem_tabHist]
  rw [mem_keyOf] at he
  exact ⟨he.2, tb, htb, he.1⟩

/-- in a `Good` state, at or above the counter, the table lookup of the latest version is the head of `tabHist` -/
theorem c04_good_versionGet {t : TreeState K} {sv : SuperVersion K} (h : Good t) (hl : t.latest? = some sv)
    (k : K) (S : Nat) (hS : t.seqCtr ≤ S) : versionGet sv.version k S = (tabHist sv.version k).head? := by
  obtain ⟨sv0, hl0, hg, _⟩ := h.sv
  obtain rfl : sv0 = sv := Option.some.inj (hl0.symm.trans hl)
  apply c04_versionGet_eq_head hg.vwf
  intro e he
  exact Nat.lt_of_lt_of_le (hg.below k e ((c04_tabHist_sublist t sv0 k).subset he)) hS

/-- a key with nothing in the memtables reads the head of its table history already before the reopen -/
theorem c04_readOf_of_memHist_nil {t : TreeState K} {sv : SuperVersion K} (hl : t.latest? = some sv) (k : K)
    (hm : memHist t sv k = []) : readOf t k = live (tabHist sv.version k).head? := by
  rw [readOf, hl]
  simp only
  rw [keyHist_eq, hm, List.nil_append]

/-- every memtable of the super version is empty ⇒ no key has a memtable history -/
theorem c04_memHist_nil_of_empty {t : TreeState K} {sv : SuperVersion K}
    (hempty : ∀ id ∈ sv.active :: sv.sealed, t.mem id = []) (k : K) : memHist t sv k = [] := by
  rw [memHist, hempty _ List.mem_cons_self, keyOf_nil, List.nil_append, List.flatMap_eq_nil_iff]
  intro id hid
  rw [hempty id (List.mem_cons_of_mem _ (List.mem_reverse.1 hid))]
  rfl

/-! ## guarded runs compose (also across a reopen) -/

theorem Reach.append {t t' t'' : TreeState K} {ops ops' : List (Op K)} (h1 : Reach t ops t')
    (h2 : Reach t' ops' t'') : Reach t (ops ++ ops') t'' := by
  induction h1 with
  | refl t => exact h2
  | step hok ha _ ih => exact .step hok ha (ih h2)

/-- a single guarded step as a run -/
theorem c04_reach_single {t t' : TreeState K} {op : Op K} (hok : okStep t op) (ha : t.applyOp op = some t') :
    Reach t [op] t' := .step hok ha (.refl _)

/-- a guarded run, a guarded reopen, another guarded run: one guarded run -/
theorem c04_reach_reopen {t₀ t t' t'' : TreeState K} {ops₁ ops₂ : List (Op K)} (h1 : Reach t₀ ops₁ t)
    (hok : okStep t (.reopen : Op K)) (ha : t.applyOp .reopen = some t') (h2 : Reach t' ops₂ t'') :
    Reach t₀ (ops₁ ++ .reopen :: ops₂) t'' :=
  h1.append (.step hok ha h2)

/-- the ordered-map replay of a concatenated history: the later part wins -/
theorem c04_lastWrite_append (ops₁ ops₂ : List (Op K)) (k : K) :
    lastWrite (ops₁ ++ ops₂) k = match lastWrite ops₂ k with
      | some e => some e
      | none => lastWrite ops₁ k := by
  induction ops₁ with
  | nil =>
    rw [List.nil_append]
    cases lastWrite ops₂ k <;> rfl
  | cons op ops ih =>
    rw [List.cons_append, lastWrite, ih]
    cases h2 : lastWrite ops₂ k with
    | some e => rfl
    | none => simp only [lastWrite]

/-- a reopen writes nothing: the replay skips it -/
theorem c04_lastWrite_reopen (ops₁ ops₂ : List (Op K)) (k : K) :
    lastWrite (ops₁ ++ .reopen :: ops₂) k = match lastWrite ops₂ k with
      | some e => some e
      | none => lastWrite ops₁ k := by
  rw [c04_lastWrite_append]
  have : lastWrite ((.reopen : Op K) :: ops₂) k = lastWrite ops₂ k := by
    rw [lastWrite]
    cases lastWrite ops₂ k <;> rfl
  rw [this]

end Lsm
