import LsmModel.Tree.Super
/-
  LsmModel.Lemmas.SuperLemmas — facts about the history of super versions:
  `maintenance` (GC of old super versions below the watermark) and `getVersionForSnapshot`.
-/
namespace Lsm
variable {K : Type}

/-- history entries are ordered by (non-strictly) increasing seqno, oldest first -/
def SeqSorted (h : History K) : Prop := h.Pairwise (fun a b => a.seqno ≤ b.seqno)

/-! ### `rposition` -/

theorem rposition_eq_some {α : Type} {p : α → Bool} {l : List α} {n : Nat}
    (h : rposition p l = some n) :
    ∃ hn : n < l.length, p l[n] = true ∧ ∀ j (hj : j < l.length), n < j → p l[j] = false := by
  unfold rposition at h
  split at h
  · next i hi =>
    rw [List.findIdx?_eq_some_iff_getElem] at hi
    obtain ⟨hlt, hpi, hmin⟩ := hi
    simp only [List.length_reverse] at hlt
    simp only [Option.some.injEq] at h
    subst h
    refine ⟨by omega, ?_, ?_⟩
    · simpa [List.getElem_reverse] using hpi
    · intro j hj hnj
      have := hmin (l.length - 1 - j) (by omega)
      simp only [List.getElem_reverse] at this
      have e : l.length - 1 - (l.length - 1 - j) = j := by omega
      simpa [e] using this
  · cases h

theorem rposition_eq_none {α : Type} {p : α → Bool} {l : List α}
    (h : rposition p l = none) : ∀ x ∈ l, p x = false := by
  unfold rposition at h
  split at h
  · cases h
  · next hn =>
    intro x hx
    rw [List.findIdx?_eq_none_iff] at hn
    simpa using hn x (by simpa using hx)

/-- the cut index of `maintenance`: how many of the oldest entries are removed -/
def maintenanceCut (h : History K) (wm : Nat) : Nat :=
  if wm = 0 then 0
  else if h.length - 1 < 1 then 0
  else (rposition (fun sv : SuperVersion K => decide (sv.seqno < wm)) h).getD 0

theorem maintenance_eq_cut (h : History K) (wm : Nat) :
    maintenance h wm = (h.drop (maintenanceCut h wm), (h.take (maintenanceCut h wm)).map (·.version.id)) := by
  unfold maintenance maintenanceCut
  split
  · simp
  · split
    · simp
    · split <;> simp_all

theorem maintenanceCut_lt (h : History K) (wm : Nat) (hne : h ≠ []) : maintenanceCut h wm < h.length := by
  have hl : 0 < h.length := List.length_pos_iff.mpr hne
  unfold maintenanceCut
  split
  · exact hl
  · split
    · exact hl
    · cases hr : rposition (fun sv : SuperVersion K => decide (sv.seqno < wm)) h with
      | none => simpa using hl
      | some n => obtain ⟨hn, _⟩ := rposition_eq_some hr; simpa using hn

/-- the entry at the cut is below the watermark, unless nothing is cut -/
theorem maintenanceCut_spec (h : History K) (wm : Nat) :
    (∀ j (hj : j < h.length), maintenanceCut h wm < j → ¬ (h[j]).seqno < wm) ∧
    (0 < maintenanceCut h wm →
      ∃ hn : maintenanceCut h wm < h.length, (h[maintenanceCut h wm]).seqno < wm) := by
  unfold maintenanceCut
  split
  · next h0 => subst h0; simp
  · split
    · next hl =>
      refine ⟨?_, by simp⟩
      intro j hj hlt; omega
    · cases hr : rposition (fun sv : SuperVersion K => decide (sv.seqno < wm)) h with
      | none =>
        have := rposition_eq_none hr
        refine ⟨?_, by simp⟩
        intro j hj _
        simpa using this h[j] (List.getElem_mem hj)
      | some n =>
        obtain ⟨hn, hp, hmax⟩ := rposition_eq_some hr
        simp only [Option.getD_some]
        refine ⟨?_, fun _ => ⟨hn, by simpa using hp⟩⟩
        intro j hj hlt
        simpa using hmax j hj hlt

/-! ### (a) -/

theorem maintenance_suffix (h : History K) (wm : Nat) :
    ∃ n, (maintenance h wm).1 = h.drop n ∧ (maintenance h wm).2 = (h.take n).map (·.version.id) :=
  ⟨maintenanceCut h wm, by rw [maintenance_eq_cut]; exact ⟨rfl, rfl⟩⟩

/-! ### (c) -/

theorem maintenance_nonempty (h : History K) (wm : Nat) (hne : h ≠ []) : (maintenance h wm).1 ≠ [] := by
  have := maintenanceCut_lt h wm hne
  rw [maintenance_eq_cut]
  simp only [ne_eq, List.drop_eq_nil_iff]
  omega

theorem maintenance_latest (h : History K) (wm : Nat) (hne : h ≠ []) :
    latest (maintenance h wm).1 = latest h := by
  have := maintenanceCut_lt h wm hne
  rw [maintenance_eq_cut]
  simp only [latest, List.getLast?_drop]
  rw [if_neg (by omega)]

/-! ### (b) -/

theorem find?_reverse_drop {α : Type} (p : α → Bool) (l : List α) (n : Nat) (hn : n < l.length)
    (hp : p l[n] = true) : (l.drop n).reverse.find? p = l.reverse.find? p := by
  have hsplit : l.reverse = (l.drop n).reverse ++ (l.take n).reverse := by
    rw [← List.reverse_append, List.take_append_drop]
  have hmem : l[n] ∈ (l.drop n).reverse := by
    rw [List.mem_reverse, List.mem_drop_iff_getElem]
    exact ⟨0, by simpa using hn, by simp⟩
  rw [hsplit, List.find?_append]
  cases hf : (l.drop n).reverse.find? p with
  | some x => simp
  | none =>
    rw [List.find?_eq_none] at hf
    exact absurd hp (hf _ hmem)

/-- (b), strong form: `SeqSorted` is not needed -/
theorem maintenance_keeps_newest_below' (h : History K) (wm : Nat) (S : Nat) (hwS : wm ≤ S)
    (hwm : 0 < wm) : getVersionForSnapshot (maintenance h wm).1 S = getVersionForSnapshot h S := by
  rw [maintenance_eq_cut]
  unfold getVersionForSnapshot
  rw [if_neg (by omega), if_neg (by omega)]
  by_cases h0 : maintenanceCut h wm = 0
  · simp [h0]
  · obtain ⟨hn, hlt⟩ := (maintenanceCut_spec h wm).2 (by omega)
    exact find?_reverse_drop _ h _ hn (by simp; omega)

/-- (b): a snapshot at or above the GC watermark keeps resolving to the same super version -/
theorem maintenance_keeps_newest_below (h : History K) (wm : Nat) (_hs : SeqSorted h) :
    ∀ S, wm ≤ S → 0 < wm →
      getVersionForSnapshot (maintenance h wm).1 S = getVersionForSnapshot h S :=
  fun S hwS hwm => maintenance_keeps_newest_below' h wm S hwS hwm

/-! ### (d) -/

/-- (d), strong form: holds without any hypothesis on `h` and `wm` -/
theorem maintenance_exact' (h : History K) (wm : Nat) :
    ∃ n, (maintenance h wm).1 = h.drop n ∧ (maintenance h wm).2 = (h.take n).map (·.version.id) ∧
      ∀ i (_ : i < h.length),
        n ≤ i ↔ ¬ ∃ j, i < j ∧ ∃ hj : j < h.length, (h[j]).seqno < wm := by
  refine ⟨maintenanceCut h wm, by rw [maintenance_eq_cut], by rw [maintenance_eq_cut], ?_⟩
  intro i hi
  obtain ⟨hmax, hat⟩ := maintenanceCut_spec h wm
  constructor
  · rintro hle ⟨j, hij, hj, hlt⟩
    exact hmax j hj (by omega) hlt
  · intro hno
    apply Nat.le_of_not_lt
    intro hlt
    obtain ⟨hn, hs⟩ := hat (by omega)
    exact hno ⟨_, hlt, hn, hs⟩

/-- (d): the removed entries are exactly those strictly older (by position) than the last entry whose
    seqno is below the watermark -/
theorem maintenance_exact (h : History K) (wm : Nat) (_hs : SeqSorted h) (_hwm : 0 < wm)
    (_hlen : 2 ≤ h.length) :
    ∃ n, (maintenance h wm).1 = h.drop n ∧ (maintenance h wm).2 = (h.take n).map (·.version.id) ∧
      ∀ i (_ : i < h.length),
        n ≤ i ↔ ¬ ∃ j, i < j ∧ ∃ hj : j < h.length, (h[j]).seqno < wm :=
  maintenance_exact' h wm

/-- (d), corollary: if no entry is below the watermark nothing is removed -/
theorem maintenance_none_below (h : History K) (wm : Nat) (hno : ∀ e ∈ h, ¬ e.seqno < wm) :
    maintenance h wm = (h, []) := by
  have h0 : maintenanceCut h wm = 0 := by
    apply Nat.eq_zero_of_not_pos
    intro hpos
    obtain ⟨hn, hlt⟩ := (maintenanceCut_spec h wm).2 hpos
    exact hno _ (List.getElem_mem hn) hlt
  rw [maintenance_eq_cut, h0]
  simp

/-- the witness of (a) is unique among cuts that leave something (and `maintenance` always does) -/
theorem drop_cut_unique {α : Type} (l : List α) (n m : Nat) (hn : n < l.length)
    (e : l.drop n = l.drop m) : n = m := by
  have := congrArg List.length e
  simp only [List.length_drop] at this
  omega

/-! ### (e) -/

theorem resolve_append (h : History K) (sv : SuperVersion K) (S : Nat) (hS : S ≤ sv.seqno)
    (hpos : 0 < S) : getVersionForSnapshot (h ++ [sv]) S = getVersionForSnapshot h S := by
  unfold getVersionForSnapshot
  rw [if_neg (by omega), if_neg (by omega)]
  simp only [List.reverse_append, List.reverse_cons, List.reverse_nil, List.nil_append,
    List.cons_append, List.find?_cons]
  have : decide (sv.seqno < S) = false := by simp; omega
  rw [this]

/-! ### (f) -/

theorem find?_desc_max {α : Type} (f : α → Nat) (p : α → Bool) (l : List α)
    (hs : l.Pairwise (fun a b => f b ≤ f a)) (x : α) (hf : l.find? p = some x) :
    ∀ e ∈ l, p e = true → f e ≤ f x := by
  induction l with
  | nil => simp at hf
  | cons a t ih =>
    rw [List.pairwise_cons] at hs
    rw [List.find?_cons] at hf
    cases hpa : p a with
    | true =>
      rw [hpa] at hf
      simp only [Option.some.injEq] at hf
      subst hf
      intro e he _
      rcases List.mem_cons.mp he with rfl | he
      · exact Nat.le_refl _
      · exact hs.1 e he
    | false =>
      rw [hpa] at hf
      intro e he hpe
      rcases List.mem_cons.mp he with rfl | he
      · rw [hpa] at hpe; cases hpe
      · exact ih hs.2 hf e he hpe

theorem resolve_newest (h : History K) (S : Nat) (hs : SeqSorted h) (hpos : 0 < S)
    (sv : SuperVersion K) (hr : getVersionForSnapshot h S = some sv) :
    sv.seqno < S ∧ ∀ e ∈ h, e.seqno < S → e.seqno ≤ sv.seqno := by
  unfold getVersionForSnapshot at hr
  rw [if_neg (by omega)] at hr
  constructor
  · simpa using List.find?_some hr
  · intro e he hlt
    have hs' : h.reverse.Pairwise (fun a b => b.seqno ≤ a.seqno) := by
      rw [List.pairwise_reverse]; exact hs
    exact find?_desc_max (fun s : SuperVersion K => s.seqno) _ _ hs' sv hr e (by simpa using he)
      (by simpa using hlt)

/-! ### a concrete history -/

/-- seqnos `[0,3,3,7]`, version ids `[10,11,12,13]` -/
def exHistory : History Nat :=
  [⟨0, [], ⟨10, []⟩, 0⟩, ⟨1, [0], ⟨11, []⟩, 3⟩, ⟨2, [0, 1], ⟨12, []⟩, 3⟩, ⟨3, [0, 1, 2], ⟨13, []⟩, 7⟩]

/-- the hypotheses of (b), (d), (f) are satisfiable: the history is sorted, `0 < wm = 5 ≤ S = 6`, length ≥ 2 -/
example : SeqSorted exHistory := by simp [SeqSorted, exHistory]

/-- `maintenance` at watermark 5 cuts before the LAST entry with seqno < 5 (index 2: the second `3`);
    the version files 10 and 11 are unlinked; snapshot 6 resolves to that entry (version 12) before and after -/
example :
    ((maintenance exHistory 5).1.map (fun sv => (sv.seqno, sv.version.id)), (maintenance exHistory 5).2)
      = ([(3, 12), (7, 13)], [10, 11])
    ∧ (getVersionForSnapshot exHistory 6).map (fun sv => (sv.seqno, sv.version.id)) = some (3, 12)
    ∧ (getVersionForSnapshot (maintenance exHistory 5).1 6).map (fun sv => (sv.seqno, sv.version.id))
        = some (3, 12)
    ∧ (latest (maintenance exHistory 5).1).map (·.version.id) = some 13 := by decide

#print axioms maintenance_suffix
#print axioms maintenance_keeps_newest_below
#print axioms maintenance_keeps_newest_below'
#print axioms maintenance_nonempty
#print axioms maintenance_latest
#print axioms maintenance_exact
#print axioms maintenance_exact'
#print axioms maintenance_none_below
#print axioms resolve_append
#print axioms resolve_newest

end Lsm
