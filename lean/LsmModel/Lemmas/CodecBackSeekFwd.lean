import LsmModel.Lemmas.CodecBackSeek
/-
  LsmModel.Lemmas.CodecBackSeekFwd — `Iter::seek k` followed by forward iteration yields the suffix of items with key ≥ k.
-/
namespace Lsm.CodecBack
open Lsm Lsm.Codec

section
variable {data : Bytes} {ri : Nat} {items : List (Entry Bytes)} {off kOff : Nat → Nat} {d0 : Dec}

/-- one successful `next` from a restart point, whatever the stale `loBase` -/
theorem next_front_restart (L : Layout data ri items off kOff d0) (i : Nat) (hi : i < items.length) (h0 : i % ri = 0)
    (lb : Option Nat) (ho : Nat)
    (p : Option Nat) (st : List Nat) (hb : Option Nat) (hgo : ¬ (hb.isSome = true ∧ off i ≥ ho)) :
    ∃ x, items[i]? = some x.e ∧
      (St data ri d0.step (nRof ri items) d0.binOff (off i) 0 lb ho p st hb).next =
        some (St data ri d0.step (nRof ri items) d0.binOff (off (i + 1)) (remOf ri (i + 1)) (loBaseOf kOff ri (i + 1))
          ho p st hb, some x) := by
  have hri := L.ri_pos
  obtain ⟨e, he⟩ : ∃ e, items[i]? = some e := ⟨items[i], by simp [hi]⟩
  have e1 : off i + (off (i + 1) - off i) = off (i + 1) := by have := L.off_mono i hi; omega
  have e2 : loBaseOf kOff ri (i + 1) = some (kOff (i / ri)) := by simp [loBaseOf]
  have hp := L.full i e he h0
  have e3 : remOf ri (i + 1) = ri - 1 := by rw [remOf_succ ri i hri, if_pos h0]
  have hr0 : ¬ ri = 0 := by omega
  refine ⟨⟨e, kOff (i / ri), off (i + 1) - off i⟩, he, ?_⟩
  rw [e2, e3]
  simp only [Dec.next, St, hgo, ↓reduceIte, hr0]
  rw [hp]
  simp only [e1]

/-- forward-only invariant (fresh back end): front consumed `i` items -/
def FInv (data : Bytes) (ri : Nat) (items : List (Entry Bytes)) (off kOff : Nat → Nat) (d0 : Dec) (i : Nat) (d : Dec) : Prop :=
  ∃ lr lb, d = St data ri d0.step (nRof ri items) d0.binOff (off i) lr lb 0 (some (nRof ri items)) [] none ∧
    ((i % ri = 0 ∧ lr = 0) ∨ (lr = remOf ri i ∧ lb = loBaseOf kOff ri i))

theorem fnext (L : Layout data ri items off kOff d0) (i : Nat) (d : Dec) (hi : i < items.length)
    (hI : FInv data ri items off kOff d0 i d) :
    ∃ d' x, d.next = some (d', some x) ∧ items[i]? = some x.e ∧ FInv data ri items off kOff d0 (i + 1) d' := by
  obtain ⟨lr, lb, rfl, h | h⟩ := hI
  · obtain ⟨h0, rfl⟩ := h
    obtain ⟨x, hx, hn⟩ := next_front_restart L i hi h0 lb 0 (some (nRof ri items)) [] none (by simp)
    exact ⟨_, x, hn, hx, _, _, rfl, Or.inr ⟨rfl, rfl⟩⟩
  · obtain ⟨rfl, rfl⟩ := h
    obtain ⟨x, hx, hn⟩ := next_front L i hi 0 (some (nRof ri items)) [] none (by simp)
    exact ⟨_, x, hn, hx, _, _, rfl, Or.inr ⟨rfl, rfl⟩⟩

theorem fend (L : Layout data ri items off kOff d0) (d : Dec)
    (hI : FInv data ri items off kOff d0 items.length d) :
    ∃ d', d.next = some (d', none) := by
  have hri := L.ri_pos
  have hr0 : ¬ ri = 0 := by omega
  have hn : 0 < items.length := List.length_pos_iff.mpr L.nonempty
  obtain ⟨lr, lb, rfl, h | h⟩ := hI
  · obtain ⟨h0, rfl⟩ := h
    refine ⟨St data ri d0.step (nRof ri items) d0.binOff (off items.length) (ri - 1) lb 0 (some (nRof ri items)) [] none, ?_⟩
    simp only [Dec.next, St, Option.isSome_none, Bool.false_eq_true, false_and, ↓reduceIte, hr0]
    rw [L.endFull]
  · obtain ⟨rfl, rfl⟩ := h
    have hb : loBaseOf kOff ri items.length = some (kOff ((items.length - 1) / ri)) := by
      simp only [loBaseOf]; rw [if_neg (by omega)]
    rw [hb]
    by_cases hz : remOf ri items.length = 0
    · refine ⟨St data ri d0.step (nRof ri items) d0.binOff (off items.length) (ri - 1) (some (kOff ((items.length - 1) / ri))) 0 (some (nRof ri items)) [] none, ?_⟩
      rw [hz]
      simp only [Dec.next, St, Option.isSome_none, Bool.false_eq_true, false_and, ↓reduceIte, hr0]
      rw [L.endFull]
    · refine ⟨St data ri d0.step (nRof ri items) d0.binOff (off items.length) (remOf ri items.length - 1) (some (kOff ((items.length - 1) / ri))) 0 (some (nRof ri items)) [] none, ?_⟩
      simp only [Dec.next, St, Option.isSome_none, Bool.false_eq_true, false_and, ↓reduceIte, hz]
      rw [L.endTrunc]

theorem drop_cons_of_get (i : Nat) (e : Entry Bytes) (he : items[i]? = some e) :
    items.drop i = e :: items.drop (i + 1) := by
  have hl : i < items.length := by
    rcases Nat.lt_or_ge i items.length with h | h
    · exact h
    · rw [List.getElem?_eq_none h] at he; cases he
  rw [List.drop_eq_getElem_cons hl]
  congr 1
  rw [List.getElem?_eq_getElem hl] at he
  exact Option.some.inj he

/-- plain forward drain from a forward-canonical state -/
theorem drain_F (L : Layout data ri items off kOff d0) :
    ∀ (f i : Nat) (d : Dec), i ≤ items.length → items.length - i < f → FInv data ri items off kOff d0 i d →
      Iter.drainFwd f { dec := d, front := none, back := none } = some (items.drop i) := by
  intro f
  induction f with
  | zero => intro i d _ h; omega
  | succ f ih =>
    intro i d hi hf hI
    by_cases heq : i = items.length
    · subst heq
      obtain ⟨d', hn⟩ := fend L d hI
      simp only [Iter.drainFwd, Iter.next, hn, peekedValue, List.drop_length]
    · obtain ⟨d', x, hn, hx, hI'⟩ := fnext L i d (by omega) hI
      rw [drop_cons_of_get i x.e hx]
      simp only [Iter.drainFwd, Iter.next, hn, ih (i + 1) d' (by omega) (by omega) hI', Option.map_some]

/-- the result of `seek` on the remaining items -/
abbrev restOf (needle : Bytes) (l : List (Entry Bytes)) : List (Entry Bytes) :=
  l.dropWhile (fun e => decide (e.key < needle))

abbrev flagOf (needle : Bytes) (l : List (Entry Bytes)) : Bool :=
  ((restOf needle l).head?.map (fun e => decide (e.key = needle))).getD false

theorem bytes_irrefl (a : Bytes) : ¬ a < a := List.lt_irrefl a

/-- the forward linear scan of `seek` from a forward-canonical state -/
theorem scan_F (L : Layout data ri items off kOff d0) (needle : Bytes) :
    ∀ (f i : Nat) (d : Dec), i ≤ items.length → items.length - i < f → FInv data ri items off kOff d0 i d →
      ∃ it' b, Iter.scanFwd needle false f { dec := d, front := none, back := none } = some (it', b) ∧
        (∀ g, items.length + 1 < g → Iter.drainFwd g it' = some (restOf needle (items.drop i))) ∧
        b = flagOf needle (items.drop i) := by
  intro f
  induction f with
  | zero => intro i d _ h; omega
  | succ f ih =>
    intro i d hi hf hI
    by_cases heq : i = items.length
    · subst heq
      obtain ⟨d', hn⟩ := fend L d hI
      refine ⟨{ dec := d', front := some none, back := none }, false, ?_, ?_, ?_⟩
      · simp only [Iter.scanFwd, Iter.peek, hn, peekedValue]
      · intro g hg
        obtain ⟨g', rfl⟩ : ∃ g', g = g' + 1 := ⟨g - 1, by omega⟩
        simp only [Iter.drainFwd, Iter.next, peekedValue, List.drop_length, restOf, List.dropWhile_nil]
      · simp [flagOf, restOf]
    · obtain ⟨d', x, hn, hx, hI'⟩ := fnext L i d (by omega) hI
      have hdrain : ∀ g, items.length + 1 < g →
          Iter.drainFwd g { dec := d', front := some (some x), back := none } = some (items.drop i) := by
        intro g hg
        obtain ⟨g', rfl⟩ : ∃ g', g = g' + 1 := ⟨g - 1, by omega⟩
        rw [drop_cons_of_get i x.e hx]
        simp only [Iter.drainFwd, Iter.next, drain_F L g' (i + 1) d' (by omega) (by omega) hI', Option.map_some]
      rw [drop_cons_of_get i x.e hx] at hdrain ⊢
      by_cases hlt : x.e.key < needle
      · obtain ⟨it', b, h1, h2, h3⟩ := ih (i + 1) d' (by omega) (by omega) hI'
        refine ⟨it', b, ?_, ?_, ?_⟩
        · simp only [Iter.scanFwd, Iter.peek, hn, cmpKey, hlt, if_true, Iter.next]
          exact h1
        · intro g hg
          rw [h2 g hg]
          simp [restOf, hlt]
        · rw [h3]
          simp [flagOf, restOf, hlt]
      · by_cases he : x.e.key = needle
        · refine ⟨{ dec := d', front := some (some x), back := none }, true, ?_, ?_, ?_⟩
          · have hc : cmpKey x.e.key needle = .eq := by unfold cmpKey; rw [if_neg hlt, if_pos he]
            simp only [Iter.scanFwd, Iter.peek, hn, hc]
          · intro g hg
            rw [hdrain g hg]
            simp [restOf, hlt]
          · simp [flagOf, restOf, he]
        · refine ⟨{ dec := d', front := some (some x), back := none }, false, ?_, ?_, ?_⟩
          · have hc : cmpKey x.e.key needle = .gt := by unfold cmpKey; rw [if_neg hlt, if_neg he]
            simp only [Iter.scanFwd, Iter.peek, hn, hc]
          · intro g hg
            rw [hdrain g hg]
            simp [restOf, hlt]
          · simp [flagOf, restOf, hlt, he]

theorem bytes_le_lt (a b c : Bytes) (h1 : ¬ b < a) (h2 : b < c) : a < c :=
  List.lt_of_le_of_lt (List.not_lt.mp h1) h2

theorem dropWhile_drop (p : Entry Bytes → Bool) : ∀ (m : Nat) (l : List (Entry Bytes)),
    (∀ a e, a < m → l[a]? = some e → p e = true) → l.dropWhile p = (l.drop m).dropWhile p
  | 0, l, _ => by simp
  | m + 1, [], _ => by simp
  | m + 1, x :: l, h => by
    have hx := h 0 x (by omega) (by simp)
    rw [List.dropWhile_cons, if_pos hx, List.drop_succ_cons]
    exact dropWhile_drop p m l (fun a e ha he => h (a + 1) e (by omega) (by simpa using he))

/-- `seek k` then forward iteration yields exactly the items with user key ≥ `k` -/
theorem seek_forward (L : Layout data ri items off kOff d0)
    (hs : ∀ (a b : Nat) (ea eb : Entry Bytes), a ≤ b → items[a]? = some ea → items[b]? = some eb → ¬ eb.key < ea.key) (needle : Bytes) :
    ∃ it' b, (Iter.new data).bind (fun it => it.seek needle false) = some (it', b) ∧
      Iter.drainFwd (data.length + 2) it' = some (items.dropWhile (fun e => decide (e.key < needle))) ∧
      b = ((items.dropWhile (fun e => decide (e.key < needle))).head?.map (fun e => decide (e.key = needle))).getD false := by
  have hri := L.ri_pos
  have hlen := length_le_data L
  have hmono : HeadMono ri items (fun k _ => decide (k < needle)) := by
    intro a b ea eb hab ha hb hp
    simp only [decide_eq_true_eq] at hp ⊢
    exact bytes_le_lt _ _ _ (hs (a * ri) (b * ri) ea eb (Nat.mul_le_mul_right ri hab) ha hb) hp
  obtain ⟨left, j, hseek, hj, hle, hjn, hT, hTj, hF, hF0⟩ :=
    seek_spec L _ hmono 0 0 none 0 (some (nRof ri items)) [] none
  rw [← d0_St L] at hseek
  have hI : FInv data ri items off kOff d0 (j * ri)
      (St data ri d0.step (nRof ri items) d0.binOff (off (j * ri)) 0 none 0 (some (nRof ri items)) [] none) :=
    ⟨0, none, rfl, Or.inl ⟨by simp, rfl⟩⟩
  obtain ⟨it', b, h1, h2, h3⟩ := scan_F L needle (data.length + 1) (j * ri) _ (by omega) (by omega) hI
  have hpre : items.dropWhile (fun e => decide (e.key < needle)) = restOf needle (items.drop (j * ri)) := by
    apply dropWhile_drop
    intro a e ha he
    rcases hTj with h0 | hTj
    · subst h0; subst hj; simp at ha
    · obtain ⟨ej, hej⟩ : ∃ ej, items[j * ri]? = some ej := ⟨items[j * ri], by simp [hjn]⟩
      have := hTj ej hej
      simp only [decide_eq_true_eq] at this ⊢
      exact bytes_le_lt _ _ _ (hs a (j * ri) e ej (Nat.le_of_lt ha) he hej) this
  refine ⟨it', b, ?_, ?_, ?_⟩
  · unfold Iter.new
    rw [L.new]
    simp only [Option.map_some, Option.bind_some, Iter.seek]
    rw [hseek]
    simp only [St]
    exact h1
  · rw [hpre]; exact h2 _ (by omega)
  · rw [hpre]; exact h3

end
end Lsm.CodecBack

#print axioms Lsm.CodecBack.next_front_restart
#print axioms Lsm.CodecBack.drain_F
#print axioms Lsm.CodecBack.scan_F
#print axioms Lsm.CodecBack.seek_forward
