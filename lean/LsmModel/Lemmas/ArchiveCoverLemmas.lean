import LsmModel.Lemmas.ArchiveLemmas
/-!
  Region-wise corruption coverage of an sfa archive image (`Lsm.Archive.image`): which alterations the reader
  reports, which it cannot see, and that an unseen alteration never changes the entries returned.
-/
namespace Lsm.Archive
open Lsm.Frame
set_option linter.unusedSectionVars false

/-- a successful ToC read hashed SOME prefix of its input to the expected checksum -/
theorem readTocTrace_ok {h128 : Bytes → Bytes} {t ck : Bytes} {a : Option Nat} {es : List Entry}
    (h : readTocTrace h128 t ck = (a, .ok es)) : ∃ k, k ≤ t.length ∧ h128 (t.take k) = ck := by
  unfold readTocTrace at h
  split at h
  · simp at h
  · split at h
    · simp at h
    · dsimp only at h
      split at h
      · simp at h
      · simp only [Prod.mk.injEq] at h
        obtain ⟨_, h⟩ := h
        split at h
        · simp at h
        · rename_i es' rest _
          split at h
          · simp at h
          · rename_i hne
            exact ⟨t.length - rest.length, by omega, by simpa using hne⟩

/-- the ToC reader is determined by its input up to the end of a well-formed ToC found at the front -/
theorem readTocTrace_of_take {h128 : Bytes → Bytes} {es : List Entry} (hv : ∀ e ∈ es, e.Valid)
    (hn : es.length < 2 ^ 32) {t : Bytes} (ck : Bytes) (ht : t.take (encodeToc es).length = encodeToc es) :
    readTocTrace h128 t ck =
      (some es.length, if h128 (encodeToc es) ≠ ck then .error .checksumMismatch else .ok es) := by
  have : t = encodeToc es ++ t.drop (encodeToc es).length := by
    conv => lhs; rw [← List.take_append_drop (encodeToc es).length t, ht]
  rw [this, readTocTrace_encode h128 hv hn]

section regions
variable {H : Bytes → Bytes} (hH : ∀ x, (H x).length = 16) {body : Bytes} {es : List Entry}
  (hv : ∀ e ∈ es, e.Valid) (hn : es.length < 2 ^ 32) (hb : body.length < 2 ^ 64)
include hH hv hn hb

/-- payload bytes are invisible to the archive reader -/
theorem body_change (tl : Nat) {body' : Bytes} (hl : body'.length = body.length) :
    decodeArchiveTrace H (body' ++ encodeToc es ++ encodeTrailer (H (encodeToc es)) body.length tl)
      = (some es.length, .ok es) := by
  have := decodeArchiveTrace_image hH (body := body') hv hn (by omega) tl
  unfold image at this
  rw [hl] at this
  exact this

/-- any rewrite of the ToC region (same length) is reported, or exhibits a 128-bit collision -/
theorem toc_change (tl : Nat) {toc' : Bytes} (hl : toc'.length = (encodeToc es).length) (hne : toc' ≠ encodeToc es)
    {es' : List Entry}
    (hd : decodeArchive H (body ++ toc' ++ encodeTrailer (H (encodeToc es)) body.length tl) = .ok es') :
    Collision128 H := by
  unfold decodeArchive decodeArchiveTrace at hd
  rw [readTrailer_encode (hH _) hb] at hd
  simp only at hd
  rw [List.append_assoc, List.drop_left' rfl] at hd
  obtain ⟨k, hk, hh⟩ := readTocTrace_ok (a := (readTocTrace H _ _).1) (es := es') (by rw [← hd])
  refine ⟨_, _, ?_, hh⟩
  intro e
  apply hne
  have hlen : k = (encodeToc es).length := by
    have := congrArg List.length e
    simp only [List.length_take] at this
    omega
  rw [hlen, ← hl, List.take_left' rfl] at e
  exact e

/-- a wrong stored checksum is always reported (no collision clause) -/
theorem checksum_change (tl : Nat) {ck' : Bytes} (hl : ck'.length = 16) (hne : ck' ≠ H (encodeToc es)) :
    decodeArchive H (body ++ encodeToc es ++ encodeTrailer ck' body.length tl) = .error .checksumMismatch := by
  unfold decodeArchive decodeArchiveTrace
  rw [readTrailer_encode hl hb]
  simp only
  rw [List.append_assoc, List.drop_left' rfl, readTocTrace_encode H hv hn]
  simp only
  rw [if_pos (fun e => hne e.symm)]

/-- a wrong `toc_pos`: reported, or a collision, or the very same entries (a verbatim copy of the ToC at the other place) -/
theorem tocpos_change (tl : Nat) (pos' : Nat) (hp : pos' < 2 ^ 64) {es' : List Entry}
    (hd : decodeArchive H (body ++ encodeToc es ++ encodeTrailer (H (encodeToc es)) pos' tl) = .ok es') :
    es' = es ∨ Collision128 H := by
  unfold decodeArchive decodeArchiveTrace at hd
  rw [readTrailer_encode (hH _) hp] at hd
  simp only at hd
  generalize ht : (body ++ encodeToc es ++ encodeTrailer (H (encodeToc es)) pos' tl).drop pos' = t at hd
  obtain ⟨k, hk, hh⟩ := readTocTrace_ok (a := (readTocTrace H _ _).1) (es := es') (by rw [← hd])
  by_cases e : t.take k = encodeToc es
  · left
    have hlen : k = (encodeToc es).length := by
      have := congrArg List.length e
      simp only [List.length_take] at this
      omega
    rw [hlen] at e
    rw [readTocTrace_of_take hv hn _ e] at hd
    simp at hd
    exact hd.symm
  · right
    exact ⟨_, _, e, hh⟩

/-- the `toc_len` field is never read -/
theorem toclen_change (tl tl' : Nat) :
    decodeArchiveTrace H (body ++ encodeToc es ++ encodeTrailer (H (encodeToc es)) body.length tl')
      = decodeArchiveTrace H (body ++ encodeToc es ++ encodeTrailer (H (encodeToc es)) body.length tl) := by
  have h1 := decodeArchiveTrace_image hH hv hn hb tl
  have h2 := decodeArchiveTrace_image hH hv hn hb tl'
  unfold image at h1 h2
  rw [h1, h2]

end regions

/-- trailer magic / version / checksum-type bytes are compared literally -/
theorem trailer_head_change {h128 : Bytes → Bytes} (pre : Bytes) {tr : Bytes} (hl : tr.length = 38)
    (hne : tr.take 6 ≠ trailerMagic ++ [1, 0]) :
    decodeArchive h128 (pre ++ tr) = .error .invalidHeader ∨ decodeArchive h128 (pre ++ tr) = .error .invalidVersion ∨
      decodeArchive h128 (pre ++ tr) = .error .unsupportedChecksumType := by
  have hd : (pre ++ tr).drop ((pre ++ tr).length - 38) = tr := by apply List.drop_left'; simp [hl]
  unfold decodeArchive decodeArchiveTrace readTrailer trailerLen
  rw [if_neg (by simp [hl])]
  simp only [hd]
  by_cases h1 : tr.take 4 = trailerMagic
  · by_cases h2 : (tr.drop 4).take 1 = [1]
    · by_cases h3 : (tr.drop 5).take 1 = [0]
      · exfalso
        apply hne
        have e6 : tr.take 6 = tr.take 4 ++ ((tr.drop 4).take 1 ++ (tr.drop 5).take 1) := by
          have a : tr.take 6 = tr.take 4 ++ (tr.drop 4).take 2 := by
            have : (6 : Nat) = 4 + 2 := rfl
            rw [this, List.take_add]
          have b : (tr.drop 4).take 2 = (tr.drop 4).take 1 ++ ((tr.drop 4).drop 1).take 1 := by
            have : (2 : Nat) = 1 + 1 := rfl
            rw [this, List.take_add]
          rw [a, b, List.drop_drop]
        rw [e6, h1, h2, h3]; rfl
      · right; right; simp [h1, h2, h3]
    · right; left; simp [h1, h2]
  · left; simp [h1]

end Lsm.Archive
