-- throwaway feasibility probe (not part of /verif)
inductive VT | value | tomb | weak | indir
deriving DecidableEq, Repr

structure Entry where
  key : Nat
  seqno : Nat
  vt : VT
  val : Nat
deriving DecidableEq, Repr

def Entry.isTomb (e : Entry) : Bool := e.vt == .tomb || e.vt == .weak

/-- drain_key: drop the leading entries that carry `k` -/
def drainKey (k : Nat) : List Entry → List Entry
  | [] => []
  | e :: es => if e.key = k then drainKey k es else e :: es

theorem drainKey_length_le (k : Nat) (l : List Entry) : (drainKey k l).length ≤ l.length := by
  induction l with
  | nil => simp [drainKey]
  | cons e es ih => unfold drainKey; split <;> simp <;> omega

/-- CompactionStream::next unrolled over the whole input, no filter, no zeroing -/
def cstream (wm : Nat) (evict : Bool) : List Entry → List Entry
  | [] => []
  | [head] => if head.isTomb && evict then [] else [head]
  | head :: peeked :: tl =>
      if peeked.key > head.key then
        if head.isTomb && evict then cstream wm evict (peeked :: tl)
        else head :: cstream wm evict (peeked :: tl)
      else if peeked.seqno < wm then
        if head.vt = .tomb && evict then cstream wm evict (drainKey head.key (peeked :: tl))
        else if peeked.vt = .value && head.vt = .weak then
          cstream wm evict (drainKey head.key (peeked :: tl))
        else head :: cstream wm evict (drainKey head.key (peeked :: tl))
      else head :: cstream wm evict (peeked :: tl)
termination_by l => l.length
decreasing_by
  all_goals simp_wf
  all_goals first
    | omega
    | (have := drainKey_length_le head.key (peeked :: tl); simp at this; omega)

#eval cstream 10 false [⟨1,9,.weak,0⟩, ⟨1,5,.value,7⟩, ⟨1,3,.weak,0⟩, ⟨2,1,.value,1⟩]
#eval cstream 4 false [⟨1,9,.weak,0⟩, ⟨1,5,.value,7⟩, ⟨1,3,.weak,0⟩, ⟨2,1,.value,1⟩]

/-! ### calibration: read-equivalence of the GC stream (evict = false) -/

def firstOf (k : Nat) : List Entry → Option Entry
  | [] => none
  | e :: es => if e.key = k then some e else firstOf k es

def readVal : Option Entry → Option Nat
  | some e => if e.isTomb then none else some e.val
  | none => none

/-- keys ascending (weakly) — what the merged input satisfies w.r.t. user keys -/
def KeysSorted : List Entry → Prop
  | [] => True
  | [_] => True
  | a :: b :: tl => a.key ≤ b.key ∧ KeysSorted (b :: tl)

theorem KeysSorted.tail {a : Entry} {l : List Entry} (h : KeysSorted (a :: l)) : KeysSorted l := by
  cases l with
  | nil => trivial
  | cons b tl => exact h.2

theorem KeysSorted.head_le {a : Entry} {l : List Entry} (h : KeysSorted (a :: l)) :
    ∀ e ∈ l, a.key ≤ e.key := by
  induction l generalizing a with
  | nil => intro e he; cases he
  | cons b tl ih =>
    intro e he
    rcases List.mem_cons.mp he with rfl | he
    · exact h.1
    · exact Nat.le_trans h.1 (ih h.2 e he)

theorem firstOf_drainKey_ne (k k' : Nat) (l : List Entry) (hne : k' ≠ k) :
    firstOf k' (drainKey k l) = firstOf k' l := by
  induction l with
  | nil => rfl
  | cons e es ih =>
    unfold drainKey
    split
    · rename_i h; simp [firstOf, h, ih]; intro h'; exact absurd (h'.symm) (by omega)
    · rfl

theorem drainKey_sorted (k : Nat) (l : List Entry) (h : KeysSorted l) : KeysSorted (drainKey k l) := by
  induction l with
  | nil => trivial
  | cons e es ih =>
    unfold drainKey
    split
    · exact ih h.tail
    · exact h

theorem firstOf_none_of_forall_ne (k : Nat) (l : List Entry) (h : ∀ x ∈ l, x.key ≠ k) :
    firstOf k l = none := by
  induction l with
  | nil => rfl
  | cons y ys ih =>
    simp [firstOf, h y List.mem_cons_self]
    exact ih (fun x hx => h x (List.mem_cons_of_mem _ hx))

/-- after draining `k` from a key-sorted list whose head key is ≥ k, no entry of `k` remains -/
theorem firstOf_drainKey_self (k : Nat) (l : List Entry) (h : KeysSorted l)
    (hge : ∀ e ∈ l, k ≤ e.key) : firstOf k (drainKey k l) = none := by
  induction l with
  | nil => rfl
  | cons e es ih =>
    unfold drainKey
    split
    · exact ih h.tail (fun x hx => hge x (List.mem_cons_of_mem _ hx))
    · rename_i hne
      have hlt : k < e.key := by
        have := hge e (List.mem_cons_self); omega
      have : ∀ x ∈ e :: es, x.key ≠ k := by
        intro x hx
        rcases List.mem_cons.mp hx with rfl | hx
        · omega
        · have := h.head_le x hx; omega
      exact firstOf_none_of_forall_ne k (e :: es) this

theorem firstOf_cons (k : Nat) (e : Entry) (l : List Entry) :
    firstOf k (e :: l) = if e.key = k then some e else firstOf k l := rfl

/-- the central GC-stream lemma for `evict = false`, for EVERY watermark:
    the value a reader above all seqnos sees for any key is unchanged. -/
theorem cstream_read_eq (wm : Nat) (l : List Entry) (hs : KeysSorted l) (k : Nat) :
    readVal (firstOf k (cstream wm false l)) = readVal (firstOf k l) := by
  fun_induction cstream wm false l with
  | case1 => rfl
  | case2 head hev => simp at hev
  | case3 head hev => rfl
  | case4 head peeked tl hgt hev ih => simp at hev
  | case5 head peeked tl hgt hev ih =>
    rw [firstOf_cons, firstOf_cons (e := head)]
    split
    · rfl
    · exact ih hs.tail
  | case6 head peeked tl hgt hlt htomb ih => simp at htomb
  | case7 head peeked tl hgt hlt htomb hweak ih =>
    -- weak tombstone + value below the watermark: both (and the rest of the key) vanish
    have hsd : KeysSorted (drainKey head.key (peeked :: tl)) := drainKey_sorted _ _ hs.tail
    rw [ih hsd, firstOf_cons (e := head)]
    by_cases hk : head.key = k
    · subst hk
      have : firstOf head.key (drainKey head.key (peeked :: tl)) = none :=
        firstOf_drainKey_self _ _ hs.tail (hs.head_le)
      simp at hweak
      simp [this, readVal, Entry.isTomb, hweak.2]
    · simp [hk, firstOf_drainKey_ne head.key k (peeked :: tl) (fun h => hk h.symm)]
  | case8 head peeked tl hgt hlt htomb hweak ih =>
    have hsd : KeysSorted (drainKey head.key (peeked :: tl)) := drainKey_sorted _ _ hs.tail
    rw [firstOf_cons, firstOf_cons (e := head)]
    split
    · rfl
    · rename_i hk
      rw [ih hsd, firstOf_drainKey_ne head.key k (peeked :: tl) (fun h => hk h.symm)]
  | case9 head peeked tl hgt hlt ih =>
    rw [firstOf_cons, firstOf_cons (e := head)]
    split
    · rfl
    · exact ih hs.tail

#print axioms cstream_read_eq
