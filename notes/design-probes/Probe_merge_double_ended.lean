-- throwaway feasibility probe: double-ended k-way merge (model of merge.rs `Merger`), front side
namespace MergeProbe

def upd (f : Nat → List Nat) (k : Nat) (v : List Nat) : Nat → List Nat := fun j => if j = k then v else f j

structure M where
  n      : Nat
  srcs   : Nat → List Nat          -- remaining items of each source (consumed from both ends)
  heap   : List (Nat × Nat)        -- (source index, item)
  initLo : Bool
  initHi : Bool

/-- initialize_lo: pull the front item of sources 0..k-1 into the heap -/
def pushFronts (m : M) : Nat → M
  | 0 => m
  | k + 1 =>
    let m' := pushFronts m k
    match m'.srcs k with
    | [] => m'
    | x :: xs => { m' with heap := (k, x) :: m'.heap, srcs := upd m'.srcs k xs }

def minOf : List (Nat × Nat) → Option (Nat × Nat)
  | [] => none
  | a :: as =>
    match minOf as with
    | none => some a
    | some b => if a.2 < b.2 then some a else some b

def ensureLo (m : M) : M := if m.initLo then m else { pushFronts m m.n with initLo := true }

def next (m : M) : Option Nat × M :=
  let m := ensureLo m
  match minOf m.heap with
  | none => (none, m)
  | some (i, x) =>
    let heap' := m.heap.erase (i, x)
    match m.srcs i with
    | [] => (some x, { m with heap := heap' })
    | y :: ys => (some x, { m with heap := (i, y) :: heap', srcs := upd m.srcs i ys })

/-- strictly ascending -/
def Asc : List Nat → Prop
  | [] => True
  | [_] => True
  | a :: b :: t => a < b ∧ Asc (b :: t)

theorem Asc.tail {a : Nat} {l : List Nat} (h : Asc (a :: l)) : Asc l := by
  cases l with
  | nil => trivial
  | cons b t => exact h.2

theorem Asc.head_lt {a : Nat} {l : List Nat} (h : Asc (a :: l)) : ∀ y ∈ l, a < y := by
  induction l generalizing a with
  | nil => intro y hy; cases hy
  | cons b t ih =>
    intro y hy
    rcases List.mem_cons.mp hy with rfl | hy
    · exact h.1
    · exact Nat.lt_trans h.1 (ih h.2 y hy)

/-- an item is still to be emitted -/
def Rem (m : M) (z : Nat) : Prop := (∃ i, (i, z) ∈ m.heap) ∨ (∃ i, z ∈ m.srcs i)

/-- invariants: sources ascending; heap indices in range; front guard when initLo -/
structure Inv (m : M) : Prop where
  asc   : ∀ i, Asc (m.srcs i)
  idx   : ∀ i x, (i, x) ∈ m.heap → i < m.n
  out   : ∀ i, m.n ≤ i → m.srcs i = []
  front : m.initLo = true → ∀ i, i < m.n → ∀ y ∈ m.srcs i, ∃ f, (i, f) ∈ m.heap ∧ f < y

theorem minOf_mem : ∀ (l : List (Nat × Nat)) (a : Nat × Nat), minOf l = some a → a ∈ l := by
  intro l
  induction l with
  | nil => intro a h; simp [minOf] at h
  | cons b bs ih =>
    intro a h
    unfold minOf at h
    cases hm : minOf bs with
    | none => simp [hm] at h; subst h; exact List.mem_cons_self
    | some c =>
      simp only [hm] at h
      split at h
      · cases h; exact List.mem_cons_self
      · cases h; exact List.mem_cons_of_mem _ (ih _ hm)

theorem minOf_le : ∀ (l : List (Nat × Nat)) (a : Nat × Nat), minOf l = some a → ∀ b ∈ l, a.2 ≤ b.2 := by
  intro l
  induction l with
  | nil => intro a h; simp [minOf] at h
  | cons c cs ih =>
    intro a h b hb
    unfold minOf at h
    cases hm : minOf cs with
    | none =>
      simp [hm] at h; subst h
      rcases List.mem_cons.mp hb with rfl | hb
      · exact Nat.le_refl _
      · cases cs with
        | nil => cases hb
        | cons d ds =>
          exfalso
          unfold minOf at hm
          cases h2 : minOf ds with
          | none => simp [h2] at hm
          | some e => simp [h2] at hm; split at hm <;> cases hm
    | some m0 =>
      simp only [hm] at h
      split at h
      · rename_i hlt
        cases h
        rcases List.mem_cons.mp hb with rfl | hb
        · exact Nat.le_refl _
        · have := ih m0 hm b hb; omega
      · rename_i hnlt
        cases h
        rcases List.mem_cons.mp hb with rfl | hb
        · omega
        · exact ih a hm b hb

theorem minOf_none : ∀ (l : List (Nat × Nat)), minOf l = none → l = [] := by
  intro l h
  cases l with
  | nil => rfl
  | cons a as =>
    unfold minOf at h
    cases hm : minOf as with
    | none => simp [hm] at h
    | some b => simp [hm] at h; split at h <;> cases h


/-! ### initialize_lo establishes the front guard and neither loses nor invents items -/

theorem upd_same (f : Nat → List Nat) (k : Nat) (v : List Nat) : upd f k v k = v := by simp [upd]
theorem upd_other (f : Nat → List Nat) (k j : Nat) (v : List Nat) (h : j ≠ k) : upd f k v j = f j := by simp [upd, h]

theorem pushFronts_spec (m : M) (hasc : ∀ i, Asc (m.srcs i)) :
    ∀ k, let m' := pushFronts m k
      m'.n = m.n ∧ m'.initLo = m.initLo ∧ m'.initHi = m.initHi ∧
      (∀ i, Asc (m'.srcs i)) ∧
      (∀ i, i < k → ∀ y ∈ m'.srcs i, ∃ f, (i, f) ∈ m'.heap ∧ f < y) ∧
      (∀ i, k ≤ i → m'.srcs i = m.srcs i) ∧
      (∀ e, e ∈ m.heap → e ∈ m'.heap) ∧
      (∀ i x, (i, x) ∈ m'.heap → (i, x) ∈ m.heap ∨ i < k) ∧
      (∀ z, ((∃ i, (i, z) ∈ m'.heap) ∨ (∃ i, z ∈ m'.srcs i)) ↔ ((∃ i, (i, z) ∈ m.heap) ∨ (∃ i, z ∈ m.srcs i))) := by
  intro k
  induction k with
  | zero =>
    refine ⟨rfl, rfl, rfl, hasc, ?_, fun _ _ => rfl, fun _ h => h, fun _ _ h => Or.inl h, fun _ => Iff.rfl⟩
    intro i hi; omega
  | succ k ih =>
    obtain ⟨hn, hlo, hhi, hasc', hguard, hsame, hsub, hidx, hrem⟩ := ih
    simp only [pushFronts]
    cases hk : (pushFronts m k).srcs k with
    | nil =>
      simp only [hk]
      refine ⟨hn, hlo, hhi, hasc', ?_, fun i hi => hsame i (by omega), hsub, fun i x h => ?_, hrem⟩
      · intro i hi y hy
        by_cases hik : i = k
        · subst hik; rw [hk] at hy; cases hy
        · exact hguard i (by omega) y hy
      · rcases hidx i x h with h | h
        · exact Or.inl h
        · exact Or.inr (by omega)
    | cons x xs =>
      simp only [hk]
      have hax : Asc (x :: xs) := hk ▸ hasc' k
      refine ⟨hn, hlo, hhi, ?_, ?_, ?_, ?_, ?_, ?_⟩
      · intro i
        by_cases hik : i = k
        · subst hik; rw [upd_same]; exact hax.tail
        · rw [upd_other _ _ _ _ hik]; exact hasc' i
      · intro i hi y hy
        by_cases hik : i = k
        · subst hik
          rw [upd_same] at hy
          exact ⟨x, List.mem_cons_self, hax.head_lt y hy⟩
        · rw [upd_other _ _ _ _ hik] at hy
          obtain ⟨f, hf, hlt⟩ := hguard i (by omega) y hy
          exact ⟨f, List.mem_cons_of_mem _ hf, hlt⟩
      · intro i hi
        have : i ≠ k := by omega
        rw [upd_other _ _ _ _ this]; exact hsame i (by omega)
      · intro e he; exact List.mem_cons_of_mem _ (hsub e he)
      · intro i y h
        rcases List.mem_cons.mp h with h | h
        · cases h; exact Or.inr (by omega)
        · rcases hidx i y h with h | h
          · exact Or.inl h
          · exact Or.inr (by omega)
      · intro z
        rw [← hrem z]
        constructor
        · rintro (⟨i, h⟩ | ⟨i, h⟩)
          · rcases List.mem_cons.mp h with h | h
            · cases h; exact Or.inr ⟨k, by rw [hk]; exact List.mem_cons_self⟩
            · exact Or.inl ⟨i, h⟩
          · by_cases hik : i = k
            · subst hik; rw [upd_same] at h; exact Or.inr ⟨i, by rw [hk]; exact List.mem_cons_of_mem _ h⟩
            · rw [upd_other _ _ _ _ hik] at h; exact Or.inr ⟨i, h⟩
        · rintro (⟨i, h⟩ | ⟨i, h⟩)
          · exact Or.inl ⟨i, List.mem_cons_of_mem _ h⟩
          · by_cases hik : i = k
            · subst hik
              rw [hk] at h
              rcases List.mem_cons.mp h with h | h
              · subst h; exact Or.inl ⟨i, List.mem_cons_self⟩
              · exact Or.inr ⟨i, by rw [upd_same]; exact h⟩
            · exact Or.inr ⟨i, by rw [upd_other _ _ _ _ hik]; exact h⟩


theorem ensureLo_spec (m : M) (hi : Inv m) :
    Inv (ensureLo m) ∧ (ensureLo m).initLo = true ∧ ∀ z, Rem (ensureLo m) z ↔ Rem m z := by
  unfold ensureLo
  by_cases hlo : m.initLo = true
  · simp [hlo]; exact hi
  · simp only [hlo]
    obtain ⟨hn, _, _, hasc, hguard, hsame, _, hidx, hrem⟩ := pushFronts_spec m hi.asc m.n
    refine ⟨⟨hasc, ?_, ?_, ?_⟩, rfl, hrem⟩
    · intro i x h
      show i < (pushFronts m m.n).n
      rw [hn]
      rcases hidx i x h with h | h
      · exact hi.idx i x h
      · exact h
    · intro i h
      show (pushFronts m m.n).srcs i = []
      have h' : m.n ≤ i := by simpa [hn] using h
      rw [hsame i h']; exact hi.out i h'
    · intro _ i hin y hy
      have hin' : i < m.n := by simpa [hn] using hin
      exact hguard i hin' y hy

theorem next_spec (m : M) (hi : Inv m) :
    match next m with
    | (none, _) => ∀ z, ¬ Rem m z
    | (some x, m') => Rem m x ∧ (∀ z, Rem m z → x ≤ z) ∧ Inv m' ∧ m'.initLo = true ∧
                      (∀ z, Rem m' z → Rem m z) ∧ (∀ z, Rem m z → z = x ∨ Rem m' z) := by
  obtain ⟨hi1, hlo1, hrem1⟩ := ensureLo_spec m hi
  unfold next
  generalize ensureLo m = m1 at hi1 hlo1 hrem1
  simp only
  cases hmin : minOf m1.heap with
  | none =>
    simp only
    have hnil := minOf_none _ hmin
    intro z hz
    rcases (hrem1 z).mpr hz with ⟨i, h⟩ | ⟨i, h⟩
    · rw [hnil] at h; cases h
    · by_cases hin : i < m1.n
      · obtain ⟨f, hf, _⟩ := hi1.front hlo1 i hin z h
        rw [hnil] at hf; cases hf
      · rw [hi1.out i (by omega)] at h; cases h
  | some ix =>
    obtain ⟨i, x⟩ := ix
    have hmem := minOf_mem _ _ hmin
    have hle := minOf_le _ _ hmin
    have hin : i < m1.n := hi1.idx i x hmem
    have hminAll : ∀ z, Rem m1 z → x ≤ z := by
      intro z hz
      rcases hz with ⟨j, h⟩ | ⟨j, h⟩
      · exact hle (j, z) h
      · by_cases hjn : j < m1.n
        · obtain ⟨f, hf, hlt⟩ := hi1.front hlo1 j hjn z h
          have := hle (j, f) hf
          simp at this; omega
        · rw [hi1.out j (by omega)] at h; cases h
    simp only
    cases hs : m1.srcs i with
    | nil =>
      simp only
      refine ⟨(hrem1 x).mp (Or.inl ⟨i, hmem⟩), fun z hz => hminAll z ((hrem1 z).mpr hz), ⟨hi1.asc, ?_, hi1.out, ?_⟩, hlo1, ?_, ?_⟩
      · intro j y h; exact hi1.idx j y (List.mem_of_mem_erase h)
      · intro _ j hj y hy
        obtain ⟨f, hf, hlt⟩ := hi1.front hlo1 j hj y hy
        refine ⟨f, ?_, hlt⟩
        have hne : (j, f) ≠ (i, x) := by
          intro he; cases he; rw [hs] at hy; cases hy
        exact (List.mem_erase_of_ne hne).mpr hf
      · intro z hz
        refine (hrem1 z).mp ?_
        rcases hz with ⟨j, h⟩ | ⟨j, h⟩
        · exact Or.inl ⟨j, List.mem_of_mem_erase h⟩
        · exact Or.inr ⟨j, h⟩
      · intro z hz
        rcases (hrem1 z).mpr hz with ⟨j, h⟩ | ⟨j, h⟩
        · by_cases he : (j, z) = (i, x)
          · cases he; exact Or.inl rfl
          · exact Or.inr (Or.inl ⟨j, (List.mem_erase_of_ne he).mpr h⟩)
        · exact Or.inr (Or.inr ⟨j, h⟩)
    | cons y0 ys =>
      simp only
      have hasc0 : Asc (y0 :: ys) := hs ▸ hi1.asc i
      refine ⟨(hrem1 x).mp (Or.inl ⟨i, hmem⟩), fun z hz => hminAll z ((hrem1 z).mpr hz), ⟨?_, ?_, ?_, ?_⟩, hlo1, ?_, ?_⟩
      · intro j
        by_cases hji : j = i
        · subst hji; show Asc (upd m1.srcs j ys j); rw [upd_same]; exact hasc0.tail
        · show Asc (upd m1.srcs i ys j); rw [upd_other _ _ _ _ hji]; exact hi1.asc j
      · intro j y h
        rcases List.mem_cons.mp h with h | h
        · cases h; exact hin
        · exact hi1.idx j y (List.mem_of_mem_erase h)
      · intro j hj
        have hj' : m1.n ≤ j := hj
        have : j ≠ i := by omega
        show upd m1.srcs i ys j = []
        rw [upd_other _ _ _ _ this]; exact hi1.out j hj'
      · intro _ j hj y hy
        by_cases hji : j = i
        · subst hji
          have hy' : y ∈ ys := by simpa [upd_same] using hy
          exact ⟨y0, List.mem_cons_self, hasc0.head_lt y hy'⟩
        · have hy' : y ∈ m1.srcs j := by
            have : upd m1.srcs i ys j = m1.srcs j := upd_other _ _ _ _ hji
            simpa [this] using hy
          obtain ⟨f, hf, hlt⟩ := hi1.front hlo1 j hj y hy'
          have hne : (j, f) ≠ (i, x) := by intro he; cases he; exact hji rfl
          exact ⟨f, List.mem_cons_of_mem _ ((List.mem_erase_of_ne hne).mpr hf), hlt⟩
      · intro z hz
        refine (hrem1 z).mp ?_
        rcases hz with ⟨j, h⟩ | ⟨j, h⟩
        · rcases List.mem_cons.mp h with h | h
          · cases h; exact Or.inr ⟨i, by rw [hs]; exact List.mem_cons_self⟩
          · exact Or.inl ⟨j, List.mem_of_mem_erase h⟩
        · by_cases hji : j = i
          · subst hji
            have : z ∈ ys := by simpa [upd_same] using h
            exact Or.inr ⟨j, by rw [hs]; exact List.mem_cons_of_mem _ this⟩
          · have : upd m1.srcs i ys j = m1.srcs j := upd_other _ _ _ _ hji
            exact Or.inr ⟨j, by simpa [this] using h⟩
      · intro z hz
        rcases (hrem1 z).mpr hz with ⟨j, h⟩ | ⟨j, h⟩
        · by_cases he : (j, z) = (i, x)
          · cases he; exact Or.inl rfl
          · exact Or.inr (Or.inl ⟨j, List.mem_cons_of_mem _ ((List.mem_erase_of_ne he).mpr h)⟩)
        · by_cases hji : j = i
          · subst hji
            rw [hs] at h
            rcases List.mem_cons.mp h with h | h
            · subst h; exact Or.inr (Or.inl ⟨j, List.mem_cons_self⟩)
            · exact Or.inr (Or.inr ⟨j, by show z ∈ upd m1.srcs j ys j; rw [upd_same]; exact h⟩)
          · exact Or.inr (Or.inr ⟨j, by show z ∈ upd m1.srcs i ys j; rw [upd_other _ _ _ _ hji]; exact h⟩)

#print axioms next_spec

end MergeProbe
