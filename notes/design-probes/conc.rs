// throw-away design-time probe for C06: free-running threads, single writer, readers at published snapshots
use lsm_tree::{AbstractTree, Config, Guard, SeqNo, SequenceNumberCounter, config::BlockSizePolicy};
use std::sync::atomic::{AtomicBool, AtomicU64, Ordering};
use std::sync::{Arc, RwLock};

pub fn main() {
    let secs: u64 = std::env::args().nth(2).map(|s| s.parse().unwrap()).unwrap_or(10);
    let rounds: u64 = std::env::args().nth(3).map(|s| s.parse().unwrap()).unwrap_or(3);
    let mut total_bad = 0;
    for round in 0..rounds {
        let dir = tempfile::tempdir().unwrap();
        let (seqno, vis) = (SequenceNumberCounter::default(), SequenceNumberCounter::default());
        let tree = Config::new(dir.path(), seqno.clone(), vis.clone()).data_block_size_policy(BlockSizePolicy::all(64)).open().unwrap();
        let nkeys = 40u64;
        let log: Arc<RwLock<Vec<(SeqNo, u64, Option<u64>)>>> = Arc::new(RwLock::new(vec![]));
        let published = Arc::new(AtomicU64::new(0));
        let stop = Arc::new(AtomicBool::new(false));
        let bad = Arc::new(AtomicU64::new(0));
        let reads = Arc::new(AtomicU64::new(0));
        let mut hs = vec![];
        {
            let (tree, seqno, vis, log, published, stop) = (tree.clone(), seqno.clone(), vis.clone(), log.clone(), published.clone(), stop.clone());
            hs.push(std::thread::spawn(move || { let mut x = 88172645463325252u64 ^ round; let mut n = 0u64;
                while !stop.load(Ordering::Relaxed) { x ^= x << 13; x ^= x >> 7; x ^= x << 17; let k = x % nkeys; let s = seqno.next();
                    if x % 5 == 0 { tree.remove(format!("k{k:03}"), s); log.write().unwrap().push((s, k, None)); } else { tree.insert(format!("k{k:03}"), format!("v{s}"), s); log.write().unwrap().push((s, k, Some(s))); }
                    vis.fetch_max(s + 1); published.store(s + 1, Ordering::Release); n += 1; if n % 64 == 0 { std::thread::yield_now(); } }
                n }));
        }
        for r in 0..3u64 {
            let (tree, log, published, stop, bad, reads) = (tree.clone(), log.clone(), published.clone(), stop.clone(), bad.clone(), reads.clone());
            hs.push(std::thread::spawn(move || { let mut x = 0x9E3779B97F4A7C15u64 ^ r; let mut n = 0;
                while !stop.load(Ordering::Relaxed) { x ^= x << 13; x ^= x >> 7; x ^= x << 17;
                    let s = published.load(Ordering::Acquire); if s == 0 { continue; }
                    let want_of = |k: u64| -> Option<u64> { let l = log.read().unwrap(); let mut cur = None; for (q, kk, v) in l.iter() { if *q >= s { break; } if *kk == k { cur = *v; } } cur };
                    if x % 8 != 0 { let k = x % nkeys; let got = tree.get(format!("k{k:03}"), s).unwrap().map(|v| String::from_utf8_lossy(&v).to_string()); let want = want_of(k).map(|q| format!("v{q}"));
                        if got != want { bad.fetch_add(1, Ordering::Relaxed); eprintln!("READ MISMATCH S={s} k{k:03} got={got:?} want={want:?}"); } }
                    else { let got: Vec<(String, String)> = tree.iter(s, None).map(|g| { let (k, v) = g.into_inner().unwrap(); (String::from_utf8_lossy(&k).to_string(), String::from_utf8_lossy(&v).to_string()) }).collect();
                        let want: Vec<(String, String)> = (0..nkeys).filter_map(|k| want_of(k).map(|q| (format!("k{k:03}"), format!("v{q}")))).collect();
                        if got != want { bad.fetch_add(1, Ordering::Relaxed); eprintln!("SCAN MISMATCH S={s} got={} want={}", got.len(), want.len()); } }
                    reads.fetch_add(1, Ordering::Relaxed); n += 1; }
                n }));
        }
        { let (tree, stop) = (tree.clone(), stop.clone());
            hs.push(std::thread::spawn(move || { let mut n = 0; while !stop.load(Ordering::Relaxed) { tree.flush_active_memtable(0).unwrap(); n += 1; std::thread::sleep(std::time::Duration::from_micros(300)); } n })); }
        for c in 0..3u64 { let (tree, stop) = (tree.clone(), stop.clone());
            hs.push(std::thread::spawn(move || { let mut n = 0; while !stop.load(Ordering::Relaxed) {
                if c == 2 && n % 50 == 49 { tree.major_compact(256, 0).unwrap(); } else { tree.compact(Arc::new(lsm_tree::compaction::Leveled::default().with_l0_threshold(2).with_table_target_size(256).with_level_ratio_policy(vec![2.0])), 0).unwrap(); }
                n += 1; std::thread::sleep(std::time::Duration::from_micros(200)); } n })); }
        std::thread::sleep(std::time::Duration::from_secs(secs));
        stop.store(true, Ordering::Relaxed);
        let counts: Vec<u64> = hs.into_iter().map(|h| h.join().expect("thread panicked")).collect();
        let s = vis.get(); let l = log.read().unwrap();
        let mut fin_bad = 0;
        for k in 0..nkeys { let mut cur = None; for (_, kk, v) in l.iter() { if *kk == k { cur = *v; } }
            let got = tree.get(format!("k{k:03}"), s).unwrap().map(|v| String::from_utf8_lossy(&v).to_string()); if got != cur.map(|q| format!("v{q}")) { fin_bad += 1; eprintln!("FINAL MISMATCH k{k:03}"); } }
        tree.flush_active_memtable(0).unwrap();
        let tables = tree.table_count(); let l0 = tree.l0_run_count();
        drop(tree);
        let t2 = Config::new(dir.path(), seqno.clone(), vis.clone()).open().unwrap();
        for k in 0..nkeys { let mut cur = None; for (_, kk, v) in l.iter() { if *kk == k { cur = *v; } }
            let got = t2.get(format!("k{k:03}"), s).unwrap().map(|v| String::from_utf8_lossy(&v).to_string()); if got != cur.map(|q| format!("v{q}")) { fin_bad += 1; eprintln!("REOPEN MISMATCH k{k:03}"); } }
        println!("round {round}: writes={} reads={} flushes={} compactions={:?} read-mismatches={} final-mismatches={fin_bad} tables={tables} l0runs={l0}", counts[0], reads.load(Ordering::Relaxed), counts[4], &counts[5..], bad.load(Ordering::Relaxed));
        total_bad += bad.load(Ordering::Relaxed) + fin_bad;
    }
    println!("total_bad={total_bad}");
}
