mod conc;
mod tbl;
mod cfg;
mod crash;
mod fifo;
mod flip;
// throw-away design-time campaign: real tree vs versioned oracle (snapshots, clear, drop_range, ingest, weak deletes, audit)
use lsm_tree::{AbstractTree, AnyTree, Config, Guard, KvSeparationOptions, SeqNo, SequenceNumberCounter, config::BlockSizePolicy};
use std::collections::{BTreeMap, BTreeSet};
use std::ops::Bound;
use std::sync::Arc;

struct Rng(u64);
impl Rng {
    fn next(&mut self) -> u64 { self.0 = self.0.wrapping_add(0x9E3779B97F4A7C15); let mut z = self.0; z = (z ^ (z >> 30)).wrapping_mul(0xBF58476D1CE4E5B9); z = (z ^ (z >> 27)).wrapping_mul(0x94D049BB133111EB); z ^ (z >> 31) }
    fn below(&mut self, n: u64) -> u64 { self.next() % n }
    fn pick<'a, T>(&mut self, v: &'a [T]) -> &'a T { &v[self.below(v.len() as u64) as usize] }
}
type K = Vec<u8>;
#[derive(Clone, Debug)]
enum Ev { Put(SeqNo, K, Vec<u8>), Del(SeqNo, K), Clear(SeqNo), Forget(SeqNo, K) /* drop_range made key unknown from this seqno on */ }
#[derive(Default)]
struct Oracle { evs: Vec<Ev> }
impl Oracle {
    // Some(Some(v)) value, Some(None) absent, None = unknown (inside a dropped range)
    fn get(&self, s: SeqNo, k: &K) -> Option<Option<Vec<u8>>> {
        let mut cur: Option<Option<Vec<u8>>> = Some(None);
        for e in &self.evs { match e {
            Ev::Put(q, kk, v) if *q < s && kk == k => cur = Some(Some(v.clone())),
            Ev::Del(q, kk) if *q < s && kk == k => cur = Some(None),
            Ev::Clear(q) if *q < s => cur = Some(None),
            Ev::Forget(q, kk) if *q < s && kk == k => cur = None,
            _ => {} } }
        cur
    }
}
use lsm_tree::compaction::{CompactionFilter, Factory, ItemAccessor, Verdict};
use std::sync::Mutex;
type FLog = Arc<Mutex<Vec<(K, Vec<u8>, u8, Vec<u8>)>>>; // key, shown value, verdict code, replacement
struct Fac { log: FLog, once: Arc<Vec<K>>, seed: u64 }
struct Fil { log: FLog, once: Arc<Vec<K>>, seed: u64 }
impl std::panic::RefUnwindSafe for Fac {}
impl Factory for Fac { fn name(&self) -> &str { "scratch" } fn make_filter(&self, _ctx: &lsm_tree::compaction::filter::Context) -> Box<dyn CompactionFilter> { Box::new(Fil { log: self.log.clone(), once: self.once.clone(), seed: self.seed }) } }
impl CompactionFilter for Fil {
    fn filter_item(&mut self, item: ItemAccessor<'_>, _ctx: &lsm_tree::compaction::filter::Context) -> lsm_tree::Result<Verdict> {
        let k = item.key().to_vec(); let v = item.value()?.to_vec();
        let mut h = self.seed; for b in k.iter().chain(v.iter()) { h = (h ^ (*b as u64)).wrapping_mul(0x100000001b3); }
        let once = self.once.contains(&k);
        let code = if once { (h >> 17) % 8 } else { (h >> 17) % 6 } as u8; // 0..2 keep, 3 remove, 4/5 replace, 6 destroy, 7 removeweak
        let mut rep = vec![];
        let verdict = match code { 0 | 1 | 2 => Verdict::Keep, 3 => Verdict::Remove,
            4 => { rep = format!("R{:x}", h).into_bytes(); Verdict::ReplaceValue(rep.clone().into()) }
            5 => { rep = format!("R{:x}{}", h, ".".repeat(30)).into_bytes(); Verdict::ReplaceValue(rep.clone().into()) }
            6 => Verdict::Destroy, _ => Verdict::RemoveWeak };
        self.log.lock().unwrap().push((k, v, code, rep));
        Ok(verdict)
    }
}
fn hex(k: &[u8]) -> String { k.iter().map(|b| format!("{b:02x}")).collect() }
fn keyset(rng: &mut Rng) -> Vec<K> {
    let alpha = [0x00u8, 0x01, 0x61, 0x62, 0xfe, 0xff];
    let n = 6 + rng.below(10) as usize;
    let mut ks = BTreeSet::new();
    while ks.len() < n { let len = 1 + rng.below(3) as usize; ks.insert((0..len).map(|_| *rng.pick(&alpha)).collect::<Vec<u8>>()); }
    ks.into_iter().collect()
}
fn open(dir: &std::path::Path, seqno: &SequenceNumberCounter, vis: &SequenceNumberCounter, bs: u32, blob: Option<u32>, fac: Option<Arc<Fac>>) -> AnyTree {
    let mut c = Config::new(dir, seqno.clone(), vis.clone()).data_block_size_policy(BlockSizePolicy::all(bs));
    if let Some(th) = blob { c = c.with_kv_separation(Some(KvSeparationOptions::default().separation_threshold(th).file_target_size(64).staleness_threshold(0.3).age_cutoff(1.0).compression(lsm_tree::CompressionType::None))); }
    if let Some(f) = fac { c = c.with_compaction_filter_factory(Some(f)); }
    c.open().unwrap()
}
fn audit(tree: &AnyTree) -> Result<(), String> {
    let v = tree.current_version();
    let mut order: Vec<(usize, usize, u64, Vec<(K, SeqNo)>)> = vec![]; // (level, run, table id, entries)
    let mut max_seq: Option<SeqNo> = None;
    for (li, lvl) in v.iter_levels().enumerate() { for (ri, run) in lvl.iter().enumerate() {
        let mut prev_max: Option<K> = None;
        for t in run.iter() {
            let items: Vec<_> = t.iter().map(|x| x.unwrap()).collect();
            if items.is_empty() { return Err(format!("empty table {}", t.id())); }
            let ents: Vec<(K, SeqNo)> = items.iter().map(|i| (i.key.user_key.to_vec(), i.key.seqno)).collect();
            for w in ents.windows(2) { if !(w[0].0 < w[1].0 || (w[0].0 == w[1].0 && w[0].1 > w[1].1)) { return Err(format!("table {} not sorted", t.id())); } }
            let kr = &t.metadata.key_range;
            if kr.min().to_vec() != ents[0].0 || kr.max().to_vec() != ents.last().unwrap().0 { return Err(format!("table {} key range meta mismatch", t.id())); }
            if t.metadata.item_count as usize != ents.len() { return Err(format!("table {} item_count", t.id())); }
            let tomb = items.iter().filter(|i| i.key.is_tombstone()).count();
            if t.metadata.tombstone_count as usize != tomb { return Err(format!("table {} tombstone_count", t.id())); }
            let (mn, mx) = (ents.iter().map(|e| e.1).min().unwrap(), ents.iter().map(|e| e.1).max().unwrap());
            let _ = mn; if t.get_highest_seqno() != mx { return Err(format!("table {} highest seqno meta={} real={mx}", t.id(), t.get_highest_seqno())); }
            max_seq = max_seq.max(Some(mx));
            if let Some(pm) = &prev_max { if !(pm < &ents[0].0) { return Err(format!("L{li} run{ri}: table {} overlaps/unsorted vs previous", t.id())); } }
            prev_max = Some(ents.last().unwrap().0.clone());
            order.push((li, ri, t.id(), ents));
        } } }
    // ORD: earlier source must hold only newer seqnos for shared keys
    for i in 0..order.len() { for j in (i + 1)..order.len() {
        if order[i].0 == order[j].0 && order[i].1 == order[j].1 { continue; }
        let mut newest_later: BTreeMap<&K, SeqNo> = BTreeMap::new();
        for (k, s) in &order[j].3 { let e = newest_later.entry(k).or_insert(*s); if *s > *e { *e = *s; } }
        for (k, s) in &order[i].3 { if let Some(m) = newest_later.get(k) { if !(s > m) { return Err(format!("ORD: key {} seq {s} in table {} (L{} r{}) not newer than seq {m} in table {} (L{} r{})", hex(k), order[i].2, order[i].0, order[i].1, order[j].2, order[j].0, order[j].1)); } } }
    } }
    if tree.get_highest_persisted_seqno() != max_seq { return Err(format!("C18 persisted hwm {:?} vs real {:?}", tree.get_highest_persisted_seqno(), max_seq)); }
    Ok(())
}

type VSnap = Vec<(usize, usize, u64, BTreeSet<K>)>; // level, run, table id, user keys
fn vsnap(tree: &AnyTree) -> VSnap {
    let v = tree.current_version(); let mut out = vec![];
    for (li, lvl) in v.iter_levels().enumerate() { for (ri, run) in lvl.iter().enumerate() { for t in run.iter() {
        out.push((li, ri, t.id(), t.iter().map(|x| x.unwrap().key.user_key.to_vec()).collect())); } } }
    out
}
/// key-level admissibility of the observed step (DESIGN.md section 4)
fn admissible(before: &VSnap, after: &VSnap) -> Result<Option<&'static str>, String> {
    let bid: BTreeSet<u64> = before.iter().map(|t| t.2).collect(); let aid: BTreeSet<u64> = after.iter().map(|t| t.2).collect();
    let removed: Vec<&(usize, usize, u64, BTreeSet<K>)> = before.iter().filter(|t| !aid.contains(&t.2)).collect();
    let added: Vec<&(usize, usize, u64, BTreeSet<K>)> = after.iter().filter(|t| !bid.contains(&t.2)).collect();
    let moved: Vec<&(usize, usize, u64, BTreeSet<K>)> = before.iter().filter(|t| after.iter().any(|a| a.2 == t.2 && a.0 != t.0)).collect();
    let (inputs, dest, kind): (Vec<&(usize, usize, u64, BTreeSet<K>)>, usize, &'static str) =
        if !removed.is_empty() && !added.is_empty() { let d = added[0].0; if added.iter().any(|a| a.0 != d) { return Err("outputs in several levels".into()); } (removed, d, "merge") }
        else if !moved.is_empty() { let d = after.iter().find(|a| a.2 == moved[0].2).unwrap().0; (moved, d, "move") }
        else { return Ok(None) };
    for t in &inputs { for x in before.iter() { if inputs.iter().any(|i| i.2 == x.2) { continue; }
        if t.3.is_disjoint(&x.3) { continue; }
        let x_before_t = (x.0, x.1) < (t.0, t.1);
        let ok = if kind == "merge" && dest == 6 { x_before_t && x.0 < dest } else { (x_before_t && x.0 < dest) || (!x_before_t && x.0 >= dest) };
        if !ok { return Err(format!("{kind} into L{dest}: input table {} (L{} r{}) shares keys with non-input table {} (L{} r{})", t.2, t.0, t.1, x.2, x.0, x.1)); } } }
    Ok(Some(kind))
}
fn scan(tree: &AnyTree, s: SeqNo, lo: Bound<K>, hi: Bound<K>, rev: bool) -> Vec<(K, Vec<u8>)> {
    let it = tree.range::<K, _>((lo, hi), s, None);
    let f = |g: lsm_tree::IterGuardImpl| { let (k, v) = g.into_inner().unwrap(); (k.to_vec(), v.to_vec()) };
    if rev { it.rev().map(f).collect() } else { it.map(f).collect() }
}
fn check_at(tree: &AnyTree, or: &Oracle, keys: &[K], s: SeqNo, tag: &str) -> Result<(), String> {
    let sc = scan(tree, s, Bound::Unbounded, Bound::Unbounded, false);
    let mut rs = scan(tree, s, Bound::Unbounded, Bound::Unbounded, true); rs.reverse();
    if sc != rs { return Err(format!("{tag} S={s}: forward/backward scan differ")); }
    for w in sc.windows(2) { if !(w[0].0 < w[1].0) { return Err(format!("{tag} S={s}: scan not ascending")); } }
    let scm: BTreeMap<K, Vec<u8>> = sc.into_iter().collect();
    for k in keys {
        let got = tree.get(k, s).unwrap().map(|v| v.to_vec());
        let in_scan = scm.get(k).cloned();
        match or.get(s, k) {
            Some(want) => { if got != want { return Err(format!("{tag} S={s}: get({}) = {:?} want {:?}", hex(k), got.map(|v| String::from_utf8_lossy(&v).to_string()), want.map(|v| String::from_utf8_lossy(&v).to_string()))); }
                            if in_scan != want { return Err(format!("{tag} S={s}: scan has {:?} for {} want {:?}", in_scan.map(|v| String::from_utf8_lossy(&v).to_string()), hex(k), want.map(|v| String::from_utf8_lossy(&v).to_string()))); } }
            None => { if got != in_scan { return Err(format!("{tag} S={s}: point/scan disagree on unknown key {}", hex(k))); } }
        }
    }
    for k in scm.keys() { if !keys.contains(k) { return Err(format!("{tag}: scan invented key {}", hex(k))); } }
    Ok(())
}
fn main() {
    if std::env::args().nth(1).as_deref() == Some("conc") { conc::main(); return; }
    if std::env::args().nth(1).as_deref() == Some("tbl") { tbl::main(); return; }
    if std::env::args().nth(1).as_deref() == Some("cfg") { cfg::main(); return; }
    if std::env::args().nth(1).as_deref() == Some("crash") { crash::main(); return; }
    if std::env::args().nth(1).as_deref() == Some("fifo") { fifo::main(); return; }
    if std::env::args().nth(1).as_deref() == Some("flip") { flip::main(); return; }
    let seed0: u64 = std::env::args().nth(1).map(|s| s.parse().unwrap()).unwrap_or(1);
    let cases: u64 = std::env::args().nth(2).map(|s| s.parse().unwrap()).unwrap_or(100);
    let feats: String = std::env::args().nth(3).unwrap_or_else(|| "snap,clear,droprange,ingest,weak,blob,movedown,filter".into());
    let on = |f: &str| feats.split(',').any(|x| x == f);
    let mut bad = 0; let mut ops_total = 0u64; let mut stats: BTreeMap<&'static str, u64> = BTreeMap::new();
    for case in 0..cases {
        let mut rng = Rng(seed0.wrapping_mul(1000003).wrapping_add(case));
        let dir = tempfile::tempdir().unwrap();
        let (seqno, vis) = (SequenceNumberCounter::default(), SequenceNumberCounter::default());
        let bs = *rng.pick(&[1u32, 16, 64, 4096]);
        let blob = if on("blob") && rng.below(2) == 0 { Some(*rng.pick(&[1u32, 8, 1000])) } else { None };
        let keys = keyset(&mut rng);
        let once_keys: Vec<K> = if on("filter") { keys.iter().rev().take(2).cloned().collect() } else { vec![] };
        let flog: FLog = Arc::new(Mutex::new(vec![]));
        let fac = if on("filter") { Some(Arc::new(Fac { log: flog.clone(), once: Arc::new(once_keys.clone()), seed: rng.next() })) } else { None };
        let mut once_written: BTreeSet<K> = BTreeSet::new();
        let mut tree = open(dir.path(), &seqno, &vis, bs, blob, fac.clone());
        let weak_keys: Vec<K> = if on("weak") { keys.iter().take(2).cloned().collect() } else { vec![] };
        let mut weak_state: BTreeMap<K, bool> = weak_keys.iter().map(|k| (k.clone(), false)).collect(); // true = currently inserted
        let mut or = Oracle::default();
        let mut snaps: Vec<SeqNo> = vec![];
        let mut log = vec![format!("bs={bs} blob={blob:?} keys={:?}", keys.iter().map(|k| hex(k)).collect::<Vec<_>>())];
        let nops = 20 + rng.below(60);
        let mut err: Option<String> = None;
        for _ in 0..nops {
            ops_total += 1;
            let wm = |rng: &mut Rng, snaps: &Vec<SeqNo>, vis: &SequenceNumberCounter| -> SeqNo { let top = snaps.iter().copied().min().unwrap_or(vis.get()); *rng.pick(&[0, top, top / 2]) };
            let r = rng.below(100);
            let what: String;
            if r < 35 {
                let k = rng.pick(&keys).clone();
                if once_keys.contains(&k) { if once_written.contains(&k) { continue; } once_written.insert(k.clone()); }
                if let Some(st) = weak_state.get_mut(&k) { let s = seqno.next();
                    if *st { tree.remove_weak(k.clone(), s); or.evs.push(Ev::Del(s, k.clone())); *st = false; what = format!("remove_weak {}@{s}", hex(&k)); *stats.entry("weak").or_default() += 1; }
                    else { let v = format!("{}@{s}", hex(&k)).into_bytes(); tree.insert(k.clone(), v.clone(), s); or.evs.push(Ev::Put(s, k.clone(), v)); *st = true; what = format!("insert(w) {}@{s}", hex(&k)); }
                    vis.fetch_max(s + 1);
                } else { let s = seqno.next(); let pad = *rng.pick(&[0usize, 0, 6, 40]); let mut v = format!("{}@{s}", hex(&k)).into_bytes(); v.extend(std::iter::repeat(b'.').take(pad));
                    tree.insert(k.clone(), v.clone(), s); vis.fetch_max(s + 1); or.evs.push(Ev::Put(s, k.clone(), v)); what = format!("insert {}@{s}", hex(&k)); }
            } else if r < 45 {
                let k = rng.pick(&keys).clone(); if weak_state.contains_key(&k) || once_keys.contains(&k) { continue; }
                let s = seqno.next(); tree.remove(k.clone(), s); vis.fetch_max(s + 1); or.evs.push(Ev::Del(s, k.clone())); what = format!("remove {}@{s}", hex(&k));
            } else if r < 58 { let w = wm(&mut rng, &snaps, &vis); tree.flush_active_memtable(w).unwrap(); what = format!("flush wm={w}");
            } else if r < 72 { let w = wm(&mut rng, &snaps, &vis); let l0 = *rng.pick(&[1u8, 2, 4]); let ts = *rng.pick(&[1u64, 64, 4096]);
                let bsnap = vsnap(&tree); tree.compact(Arc::new(lsm_tree::compaction::Leveled::default().with_l0_threshold(l0).with_table_target_size(ts)), w).unwrap(); what = format!("leveled l0={l0} ts={ts} wm={w}"); match admissible(&bsnap, &vsnap(&tree)) { Ok(Some(k)) => { *stats.entry(if k == "merge" { "adm-merge" } else { "adm-move" }).or_default() += 1; } Ok(None) => {} Err(e) => { println!("INADMISSIBLE case {case}: {e}"); *stats.entry("INADMISSIBLE").or_default() += 1; } }
            } else if r < 76 { let w = wm(&mut rng, &snaps, &vis); let ts = *rng.pick(&[1u64, 64, u64::MAX]); tree.major_compact(ts, w).unwrap(); what = format!("major ts={ts} wm={w}");
            } else if r < 80 { tree.flush_active_memtable(0).unwrap(); drop(tree); tree = open(dir.path(), &seqno, &vis, bs, blob, fac.clone()); snaps.clear(); what = "flush+reopen (snapshots released)".into();
            } else if r < 86 && on("snap") { if snaps.len() < 3 { let s = vis.get(); snaps.push(s); what = format!("snapshot S={s}"); *stats.entry("snap").or_default() += 1; } else { let i = rng.below(snaps.len() as u64) as usize; let s = snaps.remove(i); what = format!("release S={s}"); }
            } else if r < 89 && on("clear") { let c = seqno.get(); tree.clear().unwrap(); or.evs.push(Ev::Clear(c)); for st in weak_state.values_mut() { *st = false; } what = format!("clear @{c}"); *stats.entry("clear").or_default() += 1;
            } else if r < 93 && on("droprange") {
                let a = rng.pick(&keys).clone(); let b = rng.pick(&keys).clone();
                let lo = match rng.below(3) { 0 => Bound::Included(a.clone()), 1 => Bound::Excluded(a.clone()), _ => Bound::Unbounded };
                let hi = match rng.below(3) { 0 => Bound::Included(b.clone()), 1 => Bound::Excluded(b.clone()), _ => Bound::Unbounded };
                let c = seqno.get();
                tree.drop_range::<K, _>((lo.clone(), hi.clone())).unwrap();
                let inside = |k: &K| (match &lo { Bound::Included(x) => k >= x, Bound::Excluded(x) => k > x, Bound::Unbounded => true }) && (match &hi { Bound::Included(x) => k <= x, Bound::Excluded(x) => k < x, Bound::Unbounded => true });
                for k in &keys { if inside(k) { or.evs.push(Ev::Forget(c, k.clone())); } }
                // keys inside R: resync oracle from the tree at the newest snapshot
                for k in &keys { if inside(k) { let s2 = seqno.get(); let _ = s2; match tree.get(k, SeqNo::MAX).unwrap() { Some(v) => or.evs.push(Ev::Put(c, k.clone(), v.to_vec())), None => or.evs.push(Ev::Del(c, k.clone())) } } }
                for (k, st) in weak_state.iter_mut() { if inside(k) { *st = tree.get(k, SeqNo::MAX).unwrap().is_some(); } }
                what = format!("drop_range {:?}..{:?} @{c}", lo.as_ref().map(|x| hex(x)), hi.as_ref().map(|x| hex(x))); *stats.entry("droprange").or_default() += 1;
            } else if r < 96 && on("ingest") {
                let mut ks: Vec<K> = keys.iter().filter(|k| !weak_state.contains_key(*k) && !once_keys.contains(*k)).filter(|_| rng.below(3) == 0).cloned().collect(); ks.sort();
                if ks.is_empty() { continue; }
                let mut ing = tree.ingestion().unwrap(); let mut items = vec![];
                for k in &ks { if rng.below(4) == 0 { ing.write_tombstone(k.clone()).unwrap(); items.push((k.clone(), None)); } else { let v = format!("{}@ingest", hex(k)).into_bytes(); ing.write(k.clone(), v.clone()).unwrap(); items.push((k.clone(), Some(v))); } }
                ing.finish().unwrap(); let g = vis.get() - 1;
                for (k, v) in items { match v { Some(v) => or.evs.push(Ev::Put(g, k, v)), None => or.evs.push(Ev::Del(g, k)) } }
                what = format!("ingest {} keys @{g}", ks.len()); *stats.entry("ingest").or_default() += 1;
            } else if r < 98 && on("movedown") { let src = rng.below(6) as u8; let v = tree.current_version();
                let empty_between = (src as usize + 1..6).all(|i| v.level(i).unwrap().is_empty());
                if !empty_between { continue; } tree.compact(Arc::new(lsm_tree::compaction::MoveDown(src, 6)), 0).unwrap(); what = format!("movedown {src}->6"); *stats.entry("movedown").or_default() += 1;
            } else { continue; }
            log.push(what.clone());
            { let mut fl = flog.lock().unwrap(); let c = seqno.get().saturating_sub(1);
              for (k, v, code, rep) in fl.drain(..) { *stats.entry("filter-shown").or_default() += 1; log.push(format!("     filter saw {} = {:?} -> verdict {code} (oracle newest = {:?})", hex(&k), String::from_utf8_lossy(&v), or.get(SeqNo::MAX, &k).map(|x| x.map(|y| String::from_utf8_lossy(&y).to_string()))));
                if or.get(SeqNo::MAX, &k) == Some(Some(v.clone())) { *stats.entry("filter-newest").or_default() += 1;
                  match code { 0 | 1 | 2 => {}, 3 | 6 | 7 => or.evs.push(Ev::Del(c, k.clone())), _ => or.evs.push(Ev::Put(c, k.clone(), rep.clone())) } } } }
            let res = (|| -> Result<(), String> { check_at(&tree, &or, &keys, vis.get(), &what)?; for s in &snaps { check_at(&tree, &or, &keys, *s, &what)?; } audit(&tree) })();
            if let Err(e) = res { err = Some(e); break; }
        }
        if let Some(e) = err { bad += 1; println!("FAIL case {case} seed0 {seed0}: {e}\n   {}", log.join("\n   ")); if bad >= 2 { break; } }
    }
    println!("cases={cases} bad={bad} ops={ops_total} stats={stats:?} feats={feats}");
}
