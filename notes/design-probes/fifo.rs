// throw-away design-time probe for C19: append-only histories + FIFO compaction
use lsm_tree::{AbstractTree, Config, KvSeparationOptions, SeqNo, SequenceNumberCounter};
use std::collections::BTreeMap;
use std::sync::Arc;
struct Rng(u64);
impl Rng { fn next(&mut self) -> u64 { self.0 = self.0.wrapping_add(0x9E3779B97F4A7C15); let mut z = self.0; z = (z ^ (z >> 30)).wrapping_mul(0xBF58476D1CE4E5B9); z = (z ^ (z >> 27)).wrapping_mul(0x94D049BB133111EB); z ^ (z >> 31) } fn below(&mut self, n: u64) -> u64 { self.next() % n } }
pub fn main() {
    let seed0: u64 = std::env::args().nth(2).map(|s| s.parse().unwrap()).unwrap_or(1);
    let cases: u64 = std::env::args().nth(3).map(|s| s.parse().unwrap()).unwrap_or(100);
    let (mut bad, mut drops, mut noops) = (0, 0u64, 0u64);
    'case: for case in 0..cases {
        let mut rng = Rng(seed0.wrapping_mul(31337).wrapping_add(case));
        let dir = tempfile::tempdir().unwrap();
        let (seqno, vis) = (SequenceNumberCounter::default(), SequenceNumberCounter::default());
        let blob = rng.below(3) == 0;
        let mk = |seqno: &SequenceNumberCounter, vis: &SequenceNumberCounter| { let c = Config::new(dir.path(), seqno.clone(), vis.clone()); if blob { c.with_kv_separation(Some(KvSeparationOptions::default().separation_threshold(16).compression(lsm_tree::CompressionType::None))).open().unwrap() } else { c.open().unwrap() } };
        let mut tree = mk(&seqno, &vis);
        let mut next_key = 0u64; let mut model: BTreeMap<Vec<u8>, (Vec<u8>, u64)> = BTreeMap::new(); // key -> (value, table id it was flushed into)
        let mut pending: Vec<Vec<u8>> = vec![];
        for _ in 0..(10 + rng.below(30)) {
            let r = rng.below(100);
            if r < 55 { let k = format!("{next_key:08}").into_bytes(); next_key += 1; let s: SeqNo = seqno.next(); let v = vec![b'x'; [1usize, 10, 40, 200][rng.below(4) as usize]]; tree.insert(k.clone(), v.clone(), s); vis.fetch_max(s + 1); model.insert(k.clone(), (v, u64::MAX)); pending.push(k); }
            else if r < 80 { let before: Vec<u64> = tree.current_version().iter_tables().map(|t| t.id()).collect(); tree.flush_active_memtable(0).unwrap(); let after: Vec<u64> = tree.current_version().iter_tables().map(|t| t.id()).collect();
                let new: Vec<u64> = after.iter().filter(|i| !before.contains(i)).copied().collect(); if let Some(id) = new.first() { for k in pending.drain(..) { model.get_mut(&k).unwrap().1 = *id; } } }
            else if r < 95 {
                let v = tree.current_version();
                let tabs: Vec<(u64, u128, u64)> = v.iter_tables().map(|t| (t.id(), *t.metadata.created_at, t.metadata.file_size + t.referenced_blob_bytes().unwrap())).collect();
                let total: u64 = v.iter_tables().map(|t| t.metadata.file_size).sum::<u64>() + tree.disk_space().saturating_sub(v.iter_tables().map(|t| t.metadata.file_size).sum::<u64>());
                let limit = match rng.below(4) { 0 => 1, 1 => total / 2, 2 => total, _ => total * 2 + 1 };
                drop(v);
                tree.compact(Arc::new(lsm_tree::compaction::Fifo::new(limit, None)), 0).unwrap();
                let after: Vec<u64> = tree.current_version().iter_tables().map(|t| t.id()).collect();
                let dropped: Vec<&(u64, u128, u64)> = tabs.iter().filter(|t| !after.contains(&t.0)).collect();
                let kept: Vec<&(u64, u128, u64)> = tabs.iter().filter(|t| after.contains(&t.0)).collect();
                if dropped.is_empty() { noops += 1 } else { drops += 1 }
                if total <= limit && !dropped.is_empty() { println!("case {case}: dropped although within limit (total {total} limit {limit})"); bad += 1; continue 'case; }
                for d in &dropped { for k in &kept { if d.1 > k.1 { println!("case {case}: dropped table {} newer than kept {}", d.0, k.0); bad += 1; continue 'case; } } }
                let dropped_ids: Vec<u64> = dropped.iter().map(|d| d.0).collect();
                model.retain(|_, (_, tid)| !dropped_ids.contains(tid));
            } else { tree.flush_active_memtable(0).unwrap(); let before: Vec<u64> = vec![]; let _ = before; for k in pending.drain(..) { let id = tree.current_version().iter_tables().map(|t| t.id()).max().unwrap_or(0); model.get_mut(&k).unwrap().1 = id; } drop(tree); tree = mk(&seqno, &vis); }
            // every retained key readable with its value
            for (k, (v, _)) in &model { let got = tree.get(k, vis.get()).unwrap().map(|x| x.to_vec()); if got.as_ref() != Some(v) { println!("case {case}: key {} lost/wrong", String::from_utf8_lossy(k)); bad += 1; continue 'case; } }
        }
    }
    println!("fifo cases={cases} bad={bad} compactions-with-drops={drops} noop={noops}");
}
