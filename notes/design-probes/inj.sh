#!/bin/bash
# usage: inj.sh <op> <syscall-set> <errno>
op=$1; set=$2; err=$3
# count syscalls of the set inside the op window
rm -rf /tmp/fi; strace -f -o /tmp/fi.log -e trace=$set,statx ./target/release/scratch /tmp/fi $op >/dev/null 2>&1
start=$(awk '/op:begin"/{print NR; exit}' /tmp/fi.log); end=$(awk '/op:end"/{print NR; exit}' /tmp/fi.log)
before=$(head -n $start /tmp/fi.log | grep -v statx | grep -c -E "^[0-9]+ +($(echo $set | tr , '|'))\(")
inwin=$(sed -n "${start},${end}p" /tmp/fi.log | grep -v statx | grep -c -E "^[0-9]+ +($(echo $set | tr , '|'))\(")
echo "# op=$op set=$set before=$before in-window=$inwin"
for i in $(seq 1 $inwin); do
  n=$((before+i))
  rm -rf /tmp/fi
  out=$(timeout 60 strace -f -o /tmp/fi.log -e trace=$set -e inject=$set:error=$err:when=$n ./target/release/scratch /tmp/fi $op 2>&1 | tail -1)
  what=$(grep INJECTED /tmp/fi.log | head -1 | cut -c1-110)
  echo "$i: $out   <= $what"
done
