// throw-away design-time probe for C11: N trees, same history, different physical configs, ONE shared cache + fd table
use lsm_tree::{AbstractTree, AnyTree, Cache, Config, DescriptorTable, Guard, KvSeparationOptions, SequenceNumberCounter};
use lsm_tree::config::{BlockSizePolicy, CompressionPolicy, FilterPolicy, FilterPolicyEntry, PinningPolicy, RestartIntervalPolicy, HashRatioPolicy};
use std::collections::BTreeMap;
use std::sync::Arc;

struct Rng(u64);
impl Rng {
    fn next(&mut self) -> u64 { self.0 = self.0.wrapping_add(0x9E3779B97F4A7C15); let mut z = self.0; z = (z ^ (z >> 30)).wrapping_mul(0xBF58476D1CE4E5B9); z = (z ^ (z >> 27)).wrapping_mul(0x94D049BB133111EB); z ^ (z >> 31) }
    fn below(&mut self, n: u64) -> u64 { self.next() % n }
    fn pick<'a, T>(&mut self, v: &'a [T]) -> &'a T { &v[self.below(v.len() as u64) as usize] }
}
struct T { dir: tempfile::TempDir, seqno: SequenceNumberCounter, vis: SequenceNumberCounter, tree: Option<AnyTree>, cfg: (u32, u8, f32, bool, bool, bool, bool, u8, Option<u32>, bool), desc: String }
fn open(t: &T, cache: &Arc<Cache>, fds: &Option<Arc<DescriptorTable>>) -> AnyTree {
    let (bs, ri, hr, pi, pf, pini, pinf, bloom, blob, eprh) = t.cfg;
    let mut c = Config::new(t.dir.path(), t.seqno.clone(), t.vis.clone()).use_cache(cache.clone()).use_descriptor_table(fds.clone())
        .data_block_size_policy(BlockSizePolicy::all(bs)).data_block_restart_interval_policy(RestartIntervalPolicy::all(ri)).data_block_hash_ratio_policy(HashRatioPolicy::all(hr))
        .index_block_partitioning_policy(PinningPolicy::all(pi)).filter_block_partitioning_policy(PinningPolicy::all(pf))
        .index_block_pinning_policy(PinningPolicy::all(pini)).filter_block_pinning_policy(PinningPolicy::all(pinf))
        .data_block_compression_policy(CompressionPolicy::all(lsm_tree::CompressionType::None)).index_block_compression_policy(CompressionPolicy::all(lsm_tree::CompressionType::None))
        .expect_point_read_hits(eprh)
        .filter_policy(match bloom { 0 => FilterPolicy::all(FilterPolicyEntry::None), 1 => FilterPolicy::all(FilterPolicyEntry::Bloom(lsm_tree::config::BloomConstructionPolicy::BitsPerKey(10.0))), _ => FilterPolicy::all(FilterPolicyEntry::Bloom(lsm_tree::config::BloomConstructionPolicy::FalsePositiveRate(0.01))) });
    if let Some(th) = blob { c = c.with_kv_separation(Some(KvSeparationOptions::default().separation_threshold(th).file_target_size(128).compression(lsm_tree::CompressionType::None))); }
    c.open().unwrap()
}
pub fn main() {
    let seed0: u64 = std::env::args().nth(2).map(|s| s.parse().unwrap()).unwrap_or(1);
    let cases: u64 = std::env::args().nth(3).map(|s| s.parse().unwrap()).unwrap_or(100);
    let mut bad = 0; let mut ops = 0u64;
    'case: for case in 0..cases {
        let mut rng = Rng(seed0.wrapping_mul(104729).wrapping_add(case));
        let cache = Arc::new(Cache::with_capacity_bytes(*rng.pick(&[0u64, 300, 4096, 8_000_000])));
        let fds = match rng.below(3) { 0 => None, 1 => Some(Arc::new(DescriptorTable::new(1))), _ => Some(Arc::new(DescriptorTable::new(3))) };
        let ntrees = 2 + rng.below(3) as usize;
        let mut trees: Vec<T> = (0..ntrees).map(|_| { let cfg = (*rng.pick(&[1u32, 16, 64, 4096]), *rng.pick(&[1u8, 2, 16]), *rng.pick(&[0.0f32, 0.75, 8.0]), rng.below(2) == 0, rng.below(2) == 0, rng.below(2) == 0, rng.below(2) == 0, rng.below(3) as u8, *rng.pick(&[None, None, Some(1u32), Some(8)]), rng.below(4) == 0);
            T { dir: tempfile::tempdir().unwrap(), seqno: SequenceNumberCounter::default(), vis: SequenceNumberCounter::default(), tree: None, cfg, desc: format!("{cfg:?}") } }).collect();
        for t in trees.iter_mut() { let tr = open(t, &cache, &fds); t.tree = Some(tr); }
        let keys: Vec<Vec<u8>> = (0..(6 + rng.below(12))).map(|i| format!("k{:02}{}", i, if i % 3 == 0 { "\u{ff}" } else { "" }).into_bytes()).collect();
        let mut model: BTreeMap<Vec<u8>, Vec<u8>> = BTreeMap::new();
        let mut log = vec![format!("cache={} fds={:?} trees={:?}", cache.capacity(), fds.is_some(), trees.iter().map(|t| t.desc.clone()).collect::<Vec<_>>())];
        for _ in 0..(20 + rng.below(50)) {
            ops += 1; let r = rng.below(100); let what;
            if r < 50 { let k = rng.pick(&keys).clone(); let pad = *rng.pick(&[0usize, 5, 40]); let mut v = format!("v{}", rng.next() % 1000).into_bytes(); v.extend(std::iter::repeat(b'.').take(pad));
                for t in &trees { let s = t.seqno.next(); t.tree.as_ref().unwrap().insert(k.clone(), v.clone(), s); t.vis.fetch_max(s + 1); } model.insert(k.clone(), v); what = format!("insert {:?}", String::from_utf8_lossy(&k)); }
            else if r < 62 { let k = rng.pick(&keys).clone(); for t in &trees { let s = t.seqno.next(); t.tree.as_ref().unwrap().remove(k.clone(), s); t.vis.fetch_max(s + 1); } model.remove(&k); what = format!("remove {:?}", String::from_utf8_lossy(&k)); }
            else if r < 76 { for t in &trees { t.tree.as_ref().unwrap().flush_active_memtable(0).unwrap(); } what = "flush".into(); }
            else if r < 90 { let l0 = *rng.pick(&[1u8, 2, 4]); let ts = *rng.pick(&[1u64, 64, 4096]); for t in &trees { let w = t.vis.get(); t.tree.as_ref().unwrap().compact(Arc::new(lsm_tree::compaction::Leveled::default().with_l0_threshold(l0).with_table_target_size(ts)), w).unwrap(); } what = format!("leveled {l0} {ts}"); }
            else if r < 95 { for t in &trees { let w = t.vis.get(); t.tree.as_ref().unwrap().major_compact(*[1u64, u64::MAX].get((r % 2) as usize).unwrap(), w).unwrap(); } what = "major".into(); }
            else { let i = rng.below(ntrees as u64) as usize; trees[i].tree.as_ref().unwrap().flush_active_memtable(0).unwrap(); trees[i].tree = None; let tr = open(&trees[i], &cache, &fds); trees[i].tree = Some(tr);
                for (j, t) in trees.iter().enumerate() { if j != i { t.tree.as_ref().unwrap().flush_active_memtable(0).unwrap(); } } what = format!("reopen tree {i}"); }
            log.push(what.clone());
            let want: Vec<(Vec<u8>, Vec<u8>)> = model.iter().map(|(k, v)| (k.clone(), v.clone())).collect();
            for (i, t) in trees.iter().enumerate() { let tr = t.tree.as_ref().unwrap(); let s = t.vis.get();
                let sc: Vec<(Vec<u8>, Vec<u8>)> = tr.iter(s, None).map(|g| { let (k, v) = g.into_inner().unwrap(); (k.to_vec(), v.to_vec()) }).collect();
                let mut ok = sc == want; for k in &keys { if tr.get(k, s).unwrap().map(|v| v.to_vec()) != model.get(k).cloned() { ok = false; } if tr.size_of(k, s).unwrap() != model.get(k).map(|v| v.len() as u32) { ok = false; } }
                if tr.len(s, None).unwrap() != want.len() { ok = false; }
                if !ok { bad += 1; println!("MISMATCH tree {i} after {what}\n  {}", log.join("\n  ")); continue 'case; } }
        }
    }
    println!("cfg cases={cases} bad={bad} ops={ops}");
}
