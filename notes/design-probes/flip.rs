// throw-away design-time probe for C10: single-bit flips in every byte of every persisted file (standard or blob tree)
use lsm_tree::{AbstractTree, Config, Guard, KvSeparationOptions, SeqNo, SequenceNumberCounter};
use std::path::Path;
fn cfg(p: &Path, blob: bool, a: u64) -> Config { let c = Config::new(p, SequenceNumberCounter::new(a), SequenceNumberCounter::new(a)); if blob { c.with_kv_separation(Some(KvSeparationOptions::default().separation_threshold(4).compression(lsm_tree::CompressionType::None))) } else { c } }
fn dump(p: &Path, blob: bool, s: SeqNo) -> Result<Vec<(Vec<u8>, Vec<u8>)>, String> {
    let r = std::panic::catch_unwind(|| -> Result<Vec<(Vec<u8>, Vec<u8>)>, String> {
        let t = cfg(p, blob, s).open().map_err(|e| format!("open:{e:?}"))?;
        let mut out = vec![];
        for g in t.iter(s, None) { let (k, v) = g.into_inner().map_err(|e| format!("scan:{e:?}"))?; out.push((k.to_vec(), v.to_vec())); }
        let mut rev = vec![]; for g in t.iter(s, None).rev() { let (k, v) = g.into_inner().map_err(|e| format!("rscan:{e:?}"))?; rev.push((k.to_vec(), v.to_vec())); } rev.reverse();
        if rev != out { return Ok(vec![(b"REV-DIFFERS".to_vec(), vec![])]); }
        for k in [&b"a"[..], b"b", b"c", b"d", b"e", b"f"] { let got = t.get(k, s).map_err(|e| format!("get:{e:?}"))?.map(|v| v.to_vec()); let want = out.iter().find(|(kk, _)| kk == k).map(|(_, v)| v.clone()); if got != want { return Ok(vec![(b"POINT-DIFFERS".to_vec(), k.to_vec())]); } }
        Ok(out) });
    match r { Ok(x) => x, Err(_) => Err("panic".into()) }
}
fn copy_dir(src: &Path, dst: &Path) { std::fs::create_dir_all(dst).unwrap(); for e in std::fs::read_dir(src).unwrap() { let e = e.unwrap(); let (p, d) = (e.path(), dst.join(e.file_name())); if p.is_dir() { copy_dir(&p, &d) } else { std::fs::copy(&p, &d).unwrap(); } } }
pub fn main() {
    let blob = std::env::args().nth(2).as_deref() == Some("blob");
    std::panic::set_hook(Box::new(|_| {}));
    let dir = tempfile::tempdir().unwrap();
    let (seqno, vis) = (SequenceNumberCounter::default(), SequenceNumberCounter::default());
    { let c = Config::new(dir.path(), seqno.clone(), vis.clone()); let c = if blob { c.with_kv_separation(Some(KvSeparationOptions::default().separation_threshold(4).compression(lsm_tree::CompressionType::None))) } else { c };
      let tree = c.open().unwrap(); let w = |f: &dyn Fn(SeqNo)| { let s = seqno.next(); f(s); vis.fetch_max(s + 1); };
      w(&|s| { tree.insert("a", "small", s); }); w(&|s| { tree.insert("b", "bbbbbbbbbbbb", s); }); w(&|s| { tree.insert("c", "cc", s); });
      tree.flush_active_memtable(0).unwrap();
      w(&|s| { tree.insert("b", "BBBBBBBBBBBBBBBB", s); }); w(&|s| { tree.remove("a", s); }); w(&|s| { tree.insert("d", "dddddddd", s); });
      tree.flush_active_memtable(0).unwrap();
      w(&|s| { tree.insert("e", "eeeeeeeeeeeeeeeeeeee", s); }); tree.flush_active_memtable(0).unwrap();
      tree.compact(std::sync::Arc::new(lsm_tree::compaction::Leveled::default().with_l0_threshold(2)), 0).unwrap(); }
    let s = vis.get();
    let orig = dump(dir.path(), blob, s).unwrap();
    println!("blob={blob} original: {:?}", orig.iter().map(|(k, v)| (String::from_utf8_lossy(k).to_string(), v.len())).collect::<Vec<_>>());
    let mut files = vec![];
    for sub in ["", "tables", "blobs"] { if let Ok(rd) = std::fs::read_dir(dir.path().join(sub)) { for e in rd { let p = e.unwrap().path(); if p.is_file() { files.push(p.strip_prefix(dir.path()).unwrap().to_path_buf()); } } } }
    files.sort();
    // only files still referenced matter; old v files are orphans
    for rel in files {
        let bytes = std::fs::read(dir.path().join(&rel)).unwrap();
        let (mut same, mut err, mut silent, mut panic) = (0, 0, 0, 0); let mut at = vec![];
        for i in 0..bytes.len() { let img = tempfile::tempdir().unwrap(); copy_dir(dir.path(), img.path()); let mut b = bytes.clone(); b[i] ^= 0x01; std::fs::write(img.path().join(&rel), &b).unwrap();
            match dump(img.path(), blob, s) { Ok(d) if d == orig => same += 1, Ok(d) => { silent += 1; if at.len() < 5 { at.push((i, d.first().map(|x| String::from_utf8_lossy(&x.0).to_string()))); } } Err(e) if e == "panic" => panic += 1, Err(_) => err += 1 } }
        println!("{:<12} len={:<5} same={:<5} error={:<5} panic={:<4} SILENT-DIFF={} {:?}", rel.display(), bytes.len(), same, err, panic, silent, at);
    }
}
