use lsm_tree::{AbstractTree, Config, KvSeparationOptions, SequenceNumberCounter, SeqNo, Guard, config::BlockSizePolicy};
fn ls(p: &std::path::Path) -> Vec<String> { let mut v: Vec<String> = std::fs::read_dir(p).map(|rd| rd.map(|e| e.unwrap().file_name().to_string_lossy().to_string()).collect()).unwrap_or_default(); v.sort(); v }
pub fn main() {
    // F2
    { let dir = tempfile::tempdir().unwrap(); let (seqno, vis) = (SequenceNumberCounter::default(), SequenceNumberCounter::default());
      let tree = Config::new(dir.path(), seqno.clone(), vis.clone()).data_block_size_policy(BlockSizePolicy::all(1)).with_kv_separation(Some(KvSeparationOptions::default().separation_threshold(1).compression(lsm_tree::CompressionType::None))).open().unwrap();
      let w = |f: &dyn Fn(SeqNo)| { let s = seqno.next(); f(s); vis.fetch_max(s + 1); };
      for k in ["a", "b", "c"] { w(&|s| { tree.insert(k, "xxxx", s); }); }
      tree.flush_active_memtable(0).unwrap(); tree.major_compact(1, 0).unwrap();
      tree.drop_range("a"..="a").unwrap(); tree.drop_range("b"..="b").unwrap();
      println!("F2: gc={:?} stale={} (want on_disk 8)", tree.current_version().gc_stats(), tree.stale_blob_bytes()); }
    // F4
    { let dir = tempfile::tempdir().unwrap(); let (seqno, vis) = (SequenceNumberCounter::default(), SequenceNumberCounter::default());
      let tree = Config::new(dir.path(), seqno.clone(), vis.clone()).with_kv_separation(Some(KvSeparationOptions::default().separation_threshold(1).compression(lsm_tree::CompressionType::None))).open().unwrap();
      let w = |f: &dyn Fn(SeqNo)| { let s = seqno.next(); f(s); vis.fetch_max(s + 1); };
      w(&|s| { tree.insert("a", "aaaa", s); }); tree.flush_active_memtable(0).unwrap();
      let snap = vis.get();
      tree.clear().unwrap();
      println!("F4: snapshot before clear still reads {:?}; new snapshot reads {:?}", tree.get("a", snap).unwrap().map(|v| String::from_utf8_lossy(&v).to_string()), tree.get("a", vis.get()).unwrap());
      w(&|s| { tree.insert("z", "zzzz", s); }); tree.flush_active_memtable(vis.get()).unwrap(); tree.major_compact(u64::MAX, vis.get()).unwrap();
      w(&|s| { tree.insert("y", "yyyy", s); }); tree.flush_active_memtable(vis.get()).unwrap(); tree.major_compact(u64::MAX, vis.get()).unwrap();
      println!("F4: free_list={} tables on disk {:?} named {:?}; blobs on disk {:?}", tree.version_free_list_len(), ls(&dir.path().join("tables")), tree.current_version().iter_tables().map(|t| t.id()).collect::<Vec<_>>(), ls(&dir.path().join("blobs"))); }
    // F1
    { let dir = tempfile::tempdir().unwrap(); let (seqno, vis) = (SequenceNumberCounter::default(), SequenceNumberCounter::default());
      { let tree = Config::new(dir.path(), seqno.clone(), vis.clone()).open().unwrap(); let w = |f: &dyn Fn(SeqNo)| { let s = seqno.next(); f(s); vis.fetch_max(s + 1); };
        w(&|s| { tree.insert("a", "1", s); }); w(&|s| { tree.insert("b", "2", s); }); tree.flush_active_memtable(0).unwrap(); w(&|s| { tree.insert("b", "3", s); }); tree.flush_active_memtable(0).unwrap(); }
      let s = vis.get(); let vf = ls(dir.path()).into_iter().filter(|n| n.starts_with('v')).last().unwrap(); let bytes = std::fs::read(dir.path().join(&vf)).unwrap();
      let dump = |p: &std::path::Path| -> Result<Vec<String>, String> { std::panic::catch_unwind(|| { let t = Config::new(p, SequenceNumberCounter::new(s), SequenceNumberCounter::new(s)).open().map_err(|e| format!("{e:?}"))?; Ok(t.iter(s, None).map(|g| String::from_utf8_lossy(&g.key().unwrap()).to_string()).collect()) }).unwrap_or(Err("panic".into())) };
      let orig = dump(dir.path()).unwrap(); let (mut same, mut err, mut silent) = (0, 0, 0);
      std::panic::set_hook(Box::new(|_| {}));
      for i in 0..bytes.len() { let mut b = bytes.clone(); b[i] ^= 1; std::fs::write(dir.path().join(&vf), &b).unwrap(); match dump(dir.path()) { Ok(d) if d == orig => same += 1, Ok(_) => silent += 1, Err(_) => err += 1 } }
      std::fs::write(dir.path().join(&vf), &bytes).unwrap();
      println!("F1: {vf} len={} same={same} error={err} SILENT={silent}; restored reads {:?}", bytes.len(), dump(dir.path())); }
}
