-- throwaway feasibility probe for optimize_runs (not part of /verif)
structure Tab where
  id : Nat
  lo : Nat
  hi : Nat
deriving DecidableEq, Repr

def Tab.overlaps (a b : Tab) : Bool := a.hi ≥ b.lo && a.lo ≤ b.hi   -- KeyRange::overlaps_with_key_range

/-- Run::push : append, then sort by min key (modelled as ordered insertion) -/
def insertByLo (t : Tab) : List Tab → List Tab
  | [] => [t]
  | x :: xs => if t.lo < x.lo then t :: x :: xs else x :: insertByLo t xs

def runOverlaps (t : Tab) (r : List Tab) : Bool := r.any (fun x => t.overlaps x)

/-- number of leading runs up to and including the last one that overlaps `t`
    (0 = no run overlaps); this is `rposition(..).map(|i| i+1).unwrap_or(0)` -/
def afterLastOverlap (t : Tab) : List (List Tab) → Nat
  | [] => 0
  | r :: rs =>
    let n := afterLastOverlap t rs
    if n > 0 then n + 1 else if runOverlaps t r then 1 else 0

/-- insert into run `i`, or open a new run at the end if there is no run `i` -/
def placeAt (t : Tab) : Nat → List (List Tab) → List (List Tab)
  | _, [] => [[t]]
  | 0, r :: rs => insertByLo t r :: rs
  | i + 1, r :: rs => r :: placeAt t i rs

def place (runs : List (List Tab)) (t : Tab) : List (List Tab) :=
  placeAt t (afterLastOverlap t runs) runs

def optimizeRuns (runs : List (List Tab)) : List (List Tab) :=
  if runs.length ≤ 1 then runs else runs.flatten.foldl place []

#eval optimizeRuns [[⟨2,12,15⟩],[⟨1,0,25⟩],[⟨0,0,2⟩]]
#eval optimizeRuns [[⟨1,3,5⟩],[⟨0,0,2⟩]]

/-- index of the run holding `t` -/
def runIdx (t : Tab) : List (List Tab) → Option Nat
  | [] => none
  | r :: rs => if t ∈ r then some 0 else (runIdx t rs).map (· + 1)

theorem mem_insertByLo (t x : Tab) (r : List Tab) : x ∈ insertByLo t r ↔ x = t ∨ x ∈ r := by
  induction r with
  | nil => simp [insertByLo]
  | cons y ys ih =>
    unfold insertByLo
    split
    · simp
    · simp [ih]; constructor
      · rintro (h | h | h) <;> simp [h]
      · rintro (h | h | h) <;> simp [h]

/-- no run at index ≥ afterLastOverlap overlaps t -/
theorem no_overlap_from (t : Tab) (runs : List (List Tab)) :
    ∀ i, afterLastOverlap t runs ≤ i → ∀ r, runs[i]? = some r → runOverlaps t r = false := by
  induction runs with
  | nil => intro i _ r h; simp at h
  | cons r0 rs ih =>
    intro i hi r hr
    unfold afterLastOverlap at hi
    simp only at hi
    split at hi
    · -- tail has an overlap; index shifts
      cases i with
      | zero => omega
      | succ j =>
        simp at hr
        exact ih j (by omega) r hr
    · rename_i hn
      have hn0 : afterLastOverlap t rs = 0 := by omega
      cases i with
      | zero =>
        simp at hr; subst hr
        split at hi
        · omega
        · rename_i h; simpa using h
      | succ j =>
        simp at hr
        exact ih j (by omega) r hr

/-- placing `t` puts it strictly after every run that overlaps it -/
theorem placeAt_mem (t : Tab) (i : Nat) (runs : List (List Tab)) :
    ∃ j, (placeAt t i runs)[j]? = some (match runs[j]? with | some r => if j = min i runs.length then insertByLo t r else r | none => [t])
      ∧ j = min i runs.length := by
  refine ⟨min i runs.length, ?_, rfl⟩
  induction runs generalizing i with
  | nil => simp [placeAt]
  | cons r rs ih =>
    cases i with
    | zero => simp [placeAt]
    | succ k =>
      have := ih k
      simp only [placeAt, List.length_cons]
      have hmin : min (k + 1) (rs.length + 1) = min k rs.length + 1 := by omega
      rw [hmin]
      simp only [List.getElem?_cons_succ]
      rw [this]
      cases h : rs[min k rs.length]? <;> simp
