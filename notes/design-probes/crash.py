#!/usr/bin/env python3
# throw-away design-time probe: crash images at every mutating-syscall boundary, adversarial persistence outcomes
import os, re, shutil, subprocess, sys
BIN = "/tmp/scratch/target/release/scratch"
ROOT = "/tmp/crash"
MODE = sys.argv[1] if len(sys.argv) > 1 else "std"          # std | blob
SET = "openat,write,fsync,renameat,unlink,mkdir"
TREE = f"{ROOT}/t"

def run(cmd, **kw): return subprocess.run(cmd, capture_output=True, text=True, **kw)

def trace(dirpath, kill_at=None, log=None):
    shutil.rmtree(dirpath, ignore_errors=True)
    cmd = ["strace", "-f", "-y", "-o", log or f"{ROOT}/log", "-e", f"trace={SET},statx"]
    if kill_at is not None:
        name, ordinal = ORD[kill_at]
        cmd += ["-e", f"inject={name}:signal=SIGKILL:when={ordinal}"]
    cmd += [BIN, "crash", "run", dirpath] + (["blob"] if MODE == "blob" else [])
    run(cmd)

line_re = re.compile(r"^\d+\s+(\w+)\((.*)$")
ORD = {}
def parse(logpath, treedir):
    per = {}
    evs = []  # (idx among SET syscalls (1-based), kind, path, extra)
    n = 0; op = None
    for line in open(logpath, errors="replace"):
        m = line_re.match(line)
        if not m: continue
        name, rest = m.group(1), m.group(2)
        if name == "statx":
            mm = re.search(r'"/lsmverif/op:(\w+):(begin|end)"', rest)
            if mm: evs.append((n, "marker", mm.group(1), mm.group(2)))
            continue
        if name not in SET.split(","): continue
        n += 1
        per[name] = per.get(name, 0) + 1
        ORD[n] = (name, per[name])
        if "= ?" in rest and "killed" not in rest: pass
        def relp(p): return os.path.relpath(p, treedir) if p.startswith(treedir) else None
        if name == "openat":
            mm = re.search(r'"([^"]+)", ([A-Z_|]+)', rest)
            path, flags = mm.group(1), mm.group(2)
            r = relp(path)
            if r is None: continue
            if "O_CREAT" in flags: evs.append((n, "create", r, "trunc" if "O_TRUNC" in flags else ""))
        elif name == "write":
            mm = re.match(r'\d+<([^>]+)>', rest)
            if mm and relp(mm.group(1)) is not None:
                size = int(rest.rsplit("=", 1)[1].strip().split()[0]) if "=" in rest else 0
                evs.append((n, "write", relp(mm.group(1)), size))
        elif name == "fsync":
            mm = re.match(r'\d+<([^>]+)>', rest)
            if mm and relp(mm.group(1)) is not None: evs.append((n, "fsync", relp(mm.group(1)), ""))
        elif name == "renameat":
            mm = re.findall(r'"([^"]+)"', rest)
            evs.append((n, "rename", relp(mm[0]), relp(mm[1])))
        elif name == "unlink":
            mm = re.search(r'"([^"]+)"', rest)
            if relp(mm.group(1)) is not None: evs.append((n, "unlink", relp(mm.group(1)), ""))
        elif name == "mkdir":
            mm = re.search(r'"([^"]+)"', rest)
            if relp(mm.group(1)) is not None: evs.append((n, "mkdir", relp(mm.group(1)), ""))
    return evs, n

def dump(d):
    out = run([BIN, "crash", "dump", d] + (["blob"] if MODE == "blob" else [])).stdout.strip()
    return out or "NOOUTPUT"

os.makedirs(ROOT, exist_ok=True)
trace(TREE, log=f"{ROOT}/full.log")
evs, total = parse(f"{ROOT}/full.log", TREE)
print(f"mode={MODE} total syscalls in set={total} tree events={len([e for e in evs if e[1]!='marker'])}")
# op windows: state after each op (from a clean full run, process-crash semantic at op end)
ops = []  # (name, begin_n, end_n)
cur = {}
for (n, kind, a, b) in evs:
    if kind == "marker":
        if b == "begin": cur[a] = n
        else: ops.append((a, cur[a], n))
# images at each point k: state after k syscalls of SET completed  (kill when = k+1)
first = ops[0][1]; last = ops[-1][2]
states = {}   # op name -> dump at op end
imgs = {}
for k in range(first, last + 1):
    d = f"{ROOT}/img_{k}"
    if k + 1 in ORD: trace(d, kill_at=k + 1, log=f"{ROOT}/k.log")
    else: trace(d, log=f"{ROOT}/k.log")
    os.makedirs(d, exist_ok=True)
    imgs[k] = d
for (name, b, e) in ops: states[name] = dump_state = dump(imgs[e]) if e in imgs else None
print("op end states:", states)
order = [o[0] for o in ops]
def allowed(k):
    # which logical states are allowed at crash point k
    prev = "ERR-or-empty"
    res = set()
    for i, (name, b, e) in enumerate(ops):
        before = states[order[i - 1]] if i > 0 else None
        if b <= k < e: return {before, states[name]}, name, "during"
        if k == e: return {states[name]}, name, "after"
        if i + 1 < len(ops) and e < k < ops[i + 1][1]: return {states[name]}, name, "between"
    return {states[order[-1]]}, order[-1], "after"

def outcomes(k):
    """adversarial persistence outcomes for the image after k syscalls"""
    synced_size = {}; size = {}; dir_pending = []   # dir_pending: (kind, path, extra, n)
    for (n, kind, a, b) in evs:
        if kind == "marker" or n > k: continue
        if kind == "create": size[a] = 0 if (b == "trunc" or a not in size) else size[a]; synced_size.setdefault(a, 0); dir_pending.append(("create", a, None, n));
        elif kind == "write": size[a] = size.get(a, 0) + b
        elif kind == "fsync":
            if a in size: synced_size[a] = size[a]
            else:  # directory fsync: entries directly inside it become durable
                dir_pending = [p for p in dir_pending if os.path.dirname(p[1]) != (a if a != "." else "")]
        elif kind == "rename": dir_pending.append(("rename", b, a, n)); size[b] = size.get(a, 0); synced_size[b] = synced_size.get(a, 0)
        elif kind == "unlink": dir_pending.append(("unlink", a, None, n))
        elif kind == "mkdir": dir_pending.append(("mkdir", a, None, n))
    unsynced = {p for p in size if size[p] != synced_size.get(p, 0)}
    return unsynced, synced_size, dir_pending

bad = 0; checked = 0; kinds = {}
for k in range(first, last + 1):
    allow, opname, phase = allowed(k)
    unsynced, synced_size, pending = outcomes(k)
    variants = [("as-is", None)]
    if unsynced: variants.append(("drop-unsynced-data", "data"))
    if pending: variants.append(("drop-unsynced-dirents", "dir"))
    if unsynced and pending: variants.append(("drop-both", "both"))
    for vname, v in variants:
        d = f"{ROOT}/work"; shutil.rmtree(d, ignore_errors=True); shutil.copytree(imgs[k], d)
        if v in ("data", "both"):
            for p in unsynced:
                fp = os.path.join(d, p)
                if os.path.isfile(fp): os.truncate(fp, synced_size.get(p, 0))
        if v in ("dir", "both"):
            for (kind, p, extra, n) in reversed(pending):
                fp = os.path.join(d, p)
                if kind == "create" and os.path.isfile(fp): os.remove(fp)
                elif kind == "rename":   # undo: destination gets its content from just before the rename
                    src = os.path.join(imgs[n - 1], p)
                    if os.path.exists(src): shutil.copy(src, fp)
                    elif os.path.exists(fp): os.remove(fp)
                elif kind == "unlink":
                    src = os.path.join(imgs[n - 1], p)
                    if os.path.exists(src): shutil.copy(src, fp)
                elif kind == "mkdir" and os.path.isdir(fp):
                    if p == ".": shutil.rmtree(d, ignore_errors=True)
                    else: shutil.rmtree(fp)
        if not os.path.isdir(d) or not os.path.exists(os.path.join(d, "current")) and opname != "create":
            pass
        got = dump(d)
        checked += 1
        ok = got in allow or (opname == "create" and got in (states["create"], None))
        if not ok:
            bad += 1
            key = (opname, phase, vname, got[:40])
            kinds[key] = kinds.get(key, 0) + 1
            if kinds[key] == 1:
                print(f"VIOLATION at k={k} op={opname}/{phase} variant={vname}: got {got!r} allowed {allow}  unsynced={sorted(unsynced)} pending={[ (x[0],x[1]) for x in pending]}")
print(f"checked={checked} bad={bad}")
for kk, c in kinds.items(): print("  ", c, kk)
