// throw-away prototype of I-D: cooperative scheduler over lsm-tree scheduling points
use lsm_tree::{AbstractTree, AnyTree, Config, Guard, SeqNo, SequenceNumberCounter, config::BlockSizePolicy};
use std::cell::Cell;
use std::collections::BTreeMap;
use std::sync::{Arc, Condvar, Mutex};

#[derive(Default)]
struct SchedState { current: Option<usize>, waiting: Vec<Option<&'static str>>, done: Vec<bool>, held: Vec<Option<&'static str>>, trace: Vec<(usize, &'static str)> }
struct Sched { st: Mutex<SchedState>, cv: Condvar }
thread_local! { static TID: Cell<Option<usize>> = Cell::new(None); }
static SCHED: std::sync::OnceLock<Arc<Sched>> = std::sync::OnceLock::new();

fn point(name: &'static str) {
    let Some(tid) = TID.with(|t| t.get()) else { return };           // threads not under control run freely
    let s = SCHED.get().unwrap();
    let mut g = s.st.lock().unwrap();
    g.waiting[tid] = Some(name); g.current = None; s.cv.notify_all();
    while g.current != Some(tid) { g = s.cv.wait(g).unwrap(); }
    g.waiting[tid] = None; g.trace.push((tid, name));
}
struct Rng(u64);
impl Rng { fn next(&mut self) -> u64 { self.0 = self.0.wrapping_add(0x9E3779B97F4A7C15); let mut z = self.0; z = (z ^ (z >> 30)).wrapping_mul(0xBF58476D1CE4E5B9); z = (z ^ (z >> 27)).wrapping_mul(0x94D049BB133111EB); z ^ (z >> 31) } fn below(&mut self, n: u64) -> u64 { self.next() % n } }

fn main() {
    let seed0: u64 = std::env::args().nth(1).map(|s| s.parse().unwrap()).unwrap_or(1);
    let cases: u64 = std::env::args().nth(2).map(|s| s.parse().unwrap()).unwrap_or(50);
    let sched = Arc::new(Sched { st: Mutex::new(SchedState::default()), cv: Condvar::new() });
    SCHED.set(sched.clone()).ok().unwrap();
    lsm_tree::verif::HOOK.set(Box::new(point)).ok().unwrap();
    let mut bad = 0; let mut distinct = std::collections::BTreeSet::new(); let mut steps_total = 0usize;
    for case in 0..cases {
        let mut rng = Rng(seed0.wrapping_mul(65537).wrapping_add(case));
        let dir = tempfile::tempdir().unwrap();
        let (seqno, vis) = (SequenceNumberCounter::default(), SequenceNumberCounter::default());
        let tree = Config::new(dir.path(), seqno.clone(), vis.clone()).data_block_size_policy(BlockSizePolicy::all(64)).open().unwrap();
        let nthreads = 5usize; // 0 writer, 1 flusher, 2,3 compactors, 4 reader
        { let mut g = sched.st.lock().unwrap(); *g = SchedState { current: None, waiting: vec![None; nthreads], done: vec![false; nthreads], held: vec![None; nthreads], trace: vec![] }; }
        let log: Arc<Mutex<Vec<(SeqNo, u8, Option<SeqNo>)>>> = Arc::new(Mutex::new(vec![]));
        let published = Arc::new(std::sync::atomic::AtomicU64::new(0));
        let inflight: Arc<Mutex<Option<SeqNo>>> = Arc::new(Mutex::new(None)); // seqno allocated by the writer but not yet inserted
        let errors: Arc<Mutex<Vec<String>>> = Arc::new(Mutex::new(vec![]));
        let mut hs = vec![];
        let spawn = |tid: usize, f: Box<dyn FnOnce() + Send>| { let sched = sched.clone(); std::thread::spawn(move || { TID.with(|t| t.set(Some(tid))); point("start"); f(); let mut g = sched.st.lock().unwrap(); g.done[tid] = true; g.current = None; g.waiting[tid] = None; sched.cv.notify_all(); }) };
        { let (tree, seqno, vis, log, published, inflight) = (tree.clone(), seqno.clone(), vis.clone(), log.clone(), published.clone(), inflight.clone());
          hs.push(spawn(0, Box::new(move || { for i in 0..24u64 { let k = (i * 7 % 5) as u8; let s = seqno.next(); *inflight.lock().unwrap() = Some(s); if i % 6 == 5 { tree.remove(vec![b'k', k], s); log.lock().unwrap().push((s, k, None)); } else { tree.insert(vec![b'k', k], format!("v{s}"), s); log.lock().unwrap().push((s, k, Some(s))); } *inflight.lock().unwrap() = None; vis.fetch_max(s + 1); published.store(s + 1, std::sync::atomic::Ordering::SeqCst); } }))); }
        { let (tree, errors) = (tree.clone(), errors.clone()); hs.push(spawn(1, Box::new(move || { for _ in 0..7 { if let Err(e) = tree.flush_active_memtable(0) { errors.lock().unwrap().push(format!("flush {e:?}")); } } }))); }
        for c in 2..4usize { let (tree, errors) = (tree.clone(), errors.clone()); hs.push(spawn(c, Box::new(move || { for _ in 0..14 { if let Err(e) = tree.compact(Arc::new(lsm_tree::compaction::Leveled::default().with_l0_threshold(1).with_table_target_size(64)), 0) { errors.lock().unwrap().push(format!("compact {e:?}")); } } }))); }
        { let (tree, log, published, errors, vis2, inflight) = (tree.clone(), log.clone(), published.clone(), errors.clone(), vis.clone(), inflight.clone());
          hs.push(spawn(4, Box::new(move || { for i in 0..10u64 { let mode = std::env::var("SNAPMODE").unwrap_or_default(); let s = if mode == "writer" { published.load(std::sync::atomic::Ordering::SeqCst) } else { vis2.get() }; if mode != "writer" { if let Some(f) = *inflight.lock().unwrap() { if f < s { continue; } } } let k = (i % 5) as u8; let got = tree.get(vec![b'k', k], s).unwrap().map(|v| String::from_utf8_lossy(&v).to_string());
              let mut want = None; for (q, kk, v) in log.lock().unwrap().iter() { if *q < s && *kk == k { want = v.map(|x| format!("v{x}")); } }
              if got != want { let again = tree.get(vec![b'k', k], s).unwrap().map(|v| String::from_utf8_lossy(&v).to_string()); let atmax = tree.get(vec![b'k', k], SeqNo::MAX).unwrap().map(|v| String::from_utf8_lossy(&v).to_string()); let pubnow = published.load(std::sync::atomic::Ordering::SeqCst);
                  errors.lock().unwrap().push(format!("read k{k}@{s}: got {got:?} want {want:?}; again={again:?} atmax={atmax:?} published-now={pubnow} log={:?}", log.lock().unwrap().iter().filter(|e| e.1 == k).collect::<Vec<_>>())); } } }))); }
        // controller
        let mut steps = 0usize;
        loop {
            let mut g = sched.st.lock().unwrap();
            while g.current.is_some() { g = sched.cv.wait(g).unwrap(); }
            if g.done.iter().all(|d| *d) { break; }
            let runnable: Vec<usize> = (0..nthreads).filter(|t| !g.done[*t] && g.waiting[*t].is_some()).collect();
            if runnable.is_empty() { drop(g); std::thread::yield_now(); continue; }   // threads still starting up
            // all live threads must be parked before we choose (determinism)
            if (0..nthreads).any(|t| !g.done[t] && g.waiting[t].is_none()) { let _g = sched.cv.wait_timeout(g, std::time::Duration::from_millis(1)).unwrap(); continue; }
            let pick = runnable[rng.below(runnable.len() as u64) as usize];
            g.current = Some(pick); steps += 1; sched.cv.notify_all();
        }
        for h in hs { h.join().unwrap(); }
        steps_total += steps;
        let trace: Vec<(usize, &'static str)> = sched.st.lock().unwrap().trace.clone();
        distinct.insert(trace.iter().map(|(t, n)| format!("{t}{}", &n[..1.min(n.len())])).collect::<String>());
        // final checks
        let s = vis.get(); let mut want: BTreeMap<u8, Option<SeqNo>> = BTreeMap::new(); for (_, k, v) in log.lock().unwrap().iter() { want.insert(*k, *v); }
        let mut errs = errors.lock().unwrap().clone();
        for (k, v) in &want { let got = tree.get(vec![b'k', *k], s).unwrap().map(|x| String::from_utf8_lossy(&x).to_string()); if got != v.map(|x| format!("v{x}")) { errs.push(format!("final k{k}: got {got:?} want {v:?}")); } }
        let sc: Vec<String> = tree.iter(s, None).map(|g| String::from_utf8_lossy(&g.key().unwrap()).to_string()).collect();
        if sc.len() != want.values().filter(|v| v.is_some()).count() { errs.push(format!("final scan has {} keys", sc.len())); }
        if let AnyTree::Standard(t) = &tree { if t.is_compacting() { errs.push("hidden set not empty".into()); } }
        if !errs.is_empty() { bad += 1; if bad <= 2 { println!("case {case}: {errs:?}\n  trace: {}", trace.iter().map(|(t, n)| format!("{t}:{n}")).collect::<Vec<_>>().join(" ")); } }
    }
    println!("sched cases={cases} bad={bad} distinct-schedules={} avg-steps={}", distinct.len(), steps_total / cases as usize);
}
