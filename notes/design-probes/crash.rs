// throw-away design-time probe for C05: workload under strace; `crash run` = workload, `crash dump <dir>` = reopen + logical dump
use lsm_tree::{AbstractTree, Config, Guard, KvSeparationOptions, SeqNo, SequenceNumberCounter};
fn marker(s: &str) { let _ = std::fs::metadata(format!("/lsmverif/{s}")); }
fn cfg(dir: &std::path::Path, blob: bool, seqno: &SequenceNumberCounter, vis: &SequenceNumberCounter) -> Config {
    let c = Config::new(dir, seqno.clone(), vis.clone());
    if blob { c.with_kv_separation(Some(KvSeparationOptions::default().separation_threshold(1).compression(lsm_tree::CompressionType::None))) } else { c }
}
pub fn main() {
    let mode = std::env::args().nth(2).unwrap();
    let dir = std::path::PathBuf::from(std::env::args().nth(3).unwrap());
    let blob = std::env::args().nth(4).as_deref() == Some("blob");
    if mode == "run" {
        let (seqno, vis) = (SequenceNumberCounter::default(), SequenceNumberCounter::default());
        marker("op:create:begin");
        let tree = cfg(&dir, blob, &seqno, &vis).open().unwrap();
        marker("op:create:end");
        let w = |f: &dyn Fn(SeqNo)| { let s = seqno.next(); f(s); vis.fetch_max(s + 1); };
        for k in ["a", "b", "c"] { w(&|s| { tree.insert(k, "one", s); }); }
        marker("op:flush1:begin"); tree.flush_active_memtable(0).unwrap(); marker("op:flush1:end");
        for k in ["b", "d"] { w(&|s| { tree.insert(k, "two", s); }); }
        w(&|s| { tree.remove("a", s); });
        marker("op:flush2:begin"); tree.flush_active_memtable(0).unwrap(); marker("op:flush2:end");
        marker("op:major:begin"); tree.major_compact(u64::MAX, vis.get()).unwrap(); marker("op:major:end");
        w(&|s| { tree.insert("e", "three", s); });
        marker("op:flush3:begin"); tree.flush_active_memtable(0).unwrap(); marker("op:flush3:end");
    } else {
        let r = std::panic::catch_unwind(|| -> Result<String, String> {
            let t = cfg(&dir, blob, &SequenceNumberCounter::new(1000), &SequenceNumberCounter::new(1000)).open().map_err(|e| format!("open:{e:?}"))?;
            let mut out = vec![];
            for g in t.iter(1000, None) { let (k, v) = g.into_inner().map_err(|e| format!("scan:{e:?}"))?; out.push(format!("{}={}", String::from_utf8_lossy(&k), String::from_utf8_lossy(&v))); }
            Ok(out.join(","))
        });
        match r { Ok(Ok(s)) => println!("OK {s}"), Ok(Err(e)) => println!("ERR {e}"), Err(_) => println!("PANIC") }
    }
}
