// throw-away design-time probe for C12: random sorted multi-version streams through the real table writer + all read paths
use lsm_tree::{InternalValue, SeqNo, ValueType, Cache, Table, UserKey};
use lsm_tree::table::Writer;
use std::ops::Bound;
use std::sync::Arc;

struct Rng(u64);
impl Rng {
    fn next(&mut self) -> u64 { self.0 = self.0.wrapping_add(0x9E3779B97F4A7C15); let mut z = self.0; z = (z ^ (z >> 30)).wrapping_mul(0xBF58476D1CE4E5B9); z = (z ^ (z >> 27)).wrapping_mul(0x94D049BB133111EB); z ^ (z >> 31) }
    fn below(&mut self, n: u64) -> u64 { self.next() % n }
    fn pick<'a, T>(&mut self, v: &'a [T]) -> &'a T { &v[self.below(v.len() as u64) as usize] }
}
type E = (Vec<u8>, SeqNo, u8, Vec<u8>);
fn ent(i: &InternalValue) -> E { (i.key.user_key.to_vec(), i.key.seqno, u8::from(i.key.value_type), i.value.to_vec()) }

pub fn main() {
    let seed0: u64 = std::env::args().nth(2).map(|s| s.parse().unwrap()).unwrap_or(1);
    let cases: u64 = std::env::args().nth(3).map(|s| s.parse().unwrap()).unwrap_or(200);
    let mut bad = 0; let mut probes = 0u64; let mut multiblock = 0u64;
    'case: for case in 0..cases {
        let mut rng = Rng(seed0.wrapping_mul(7919).wrapping_add(case));
        let dir = tempfile::tempdir().unwrap();
        // stream
        let alpha = [0x00u8, 0x01, 0x61, 0x62, 0xfe, 0xff];
        let mut keys = std::collections::BTreeSet::new();
        let nk = 1 + rng.below(14) as usize;
        let shared: Vec<u8> = (0..rng.below(3) * 20).map(|_| 0x61).collect();
        while keys.len() < nk { let len = 1 + rng.below(4) as usize; let mut k = shared.clone(); k.extend((0..len).map(|_| *rng.pick(&alpha))); keys.insert(k); }
        let mut items: Vec<InternalValue> = vec![];
        for k in &keys { let cap = if rng.below(4) == 0 { 12 } else { 3 }; let nv = 1 + rng.below(cap); let mut s = 5 + rng.below(40) + nv;
            for _ in 0..nv { let vt = *rng.pick(&[ValueType::Value, ValueType::Value, ValueType::Tombstone, ValueType::WeakTombstone]);
                let vlen = *rng.pick(&[0usize, 1, 5, 30, 300]); let val: Vec<u8> = if vt == ValueType::Value { (0..vlen).map(|i| (i as u8) ^ (s as u8)).collect() } else { vec![] };
                items.push(InternalValue::from_components(k.clone(), val, s, vt)); s -= 1 + rng.below(2).min(s - 1); if s == 0 { break; } } }
        let want: Vec<E> = items.iter().map(ent).collect();
        // writer settings
        let bs = *rng.pick(&[1u32, 8, 64, 512, 4096]); let ri = *rng.pick(&[1u8, 2, 3, 16]); let hr = *rng.pick(&[0.0f32, 0.75, 4.0]);
        let part_idx = rng.below(2) == 0; let part_fil = rng.below(2) == 0; let bloom = rng.below(3);
        let path = dir.path().join("7");
        let mut w = Writer::new(path.clone(), 7, 0).unwrap().use_data_block_size(bs).use_data_block_restart_interval(ri).use_data_block_hash_ratio(hr)
            .use_bloom_policy(match bloom { 0 => lsm_tree::config::BloomConstructionPolicy::BitsPerKey(0.0), 1 => lsm_tree::config::BloomConstructionPolicy::BitsPerKey(10.0), _ => lsm_tree::config::BloomConstructionPolicy::FalsePositiveRate(0.01) });
        if part_idx { w = w.use_partitioned_index(); } if part_fil { w = w.use_partitioned_filter(); }
        if rng.below(2) == 0 { w = w.use_meta_partition_size(*rng.pick(&[1u32, 32, 4096])); }
        for it in &items { w.write(it.clone()).unwrap(); }
        let (_, checksum) = w.finish().unwrap().unwrap();
        let gseq = *rng.pick(&[0u64, 0, 100]);
        let pin_f = rng.below(2) == 0; let pin_i = rng.below(2) == 0;
        let table = Table::recover(path, checksum, gseq, 0, Arc::new(Cache::with_capacity_bytes(*rng.pick(&[0u64, 1_000_000]))), None, pin_f, pin_i).unwrap();
        let cfg = format!("case={case} n={} bs={bs} ri={ri} hr={hr} pidx={part_idx} pfil={part_fil} bloom={bloom} gseq={gseq} pinf={pin_f} pini={pin_i}", items.len());
        if table.metadata.data_block_count > 1 { multiblock += 1; }
        let shift = |mut e: E| { e.1 += gseq; e };
        let wantg: Vec<E> = want.iter().cloned().map(shift).collect();
        // scan, iter, rev iter
        let sc: Vec<E> = table.scan().unwrap().map(|x| ent(&x.unwrap())).collect();
        if sc != wantg { println!("SCAN MISMATCH {cfg}"); bad += 1; continue 'case; }
        let it: Vec<E> = table.iter().map(|x| ent(&x.unwrap())).collect();
        if it != wantg { println!("ITER MISMATCH {cfg}"); bad += 1; continue 'case; }
        let mut rit: Vec<E> = table.iter().rev().map(|x| ent(&x.unwrap())).collect(); rit.reverse();
        if rit != wantg { println!("REV ITER MISMATCH {cfg}"); bad += 1; continue 'case; }
        // metadata
        if table.metadata.item_count as usize != items.len() || table.metadata.key_range.min().to_vec() != want[0].0 || table.metadata.key_range.max().to_vec() != want.last().unwrap().0
            || table.metadata.tombstone_count as usize != want.iter().filter(|e| e.2 == 1 || e.2 == 2).count() || table.get_highest_seqno() != wantg.iter().map(|e| e.1).max().unwrap() { println!("META MISMATCH {cfg}"); bad += 1; continue 'case; }
        // point reads: every key (plus neighbours) x seqnos
        let mut probe_keys: Vec<Vec<u8>> = keys.iter().cloned().collect();
        for k in keys.iter() { let mut a = k.clone(); a.push(0); probe_keys.push(a); let mut b = k.clone(); b.pop(); if !b.is_empty() { probe_keys.push(b); } }
        for k in &probe_keys { for s in [0u64, 1, 5, 10, 20, 40, 60, 99, 101, 120, 200, u64::MAX] {
            let hash = lsm_tree::table::filter::standard_bloom::Builder::get_hash(k);
            let got = table.get(k, s, hash).unwrap().map(|x| ent(&x));
            let wantp = wantg.iter().find(|e| &e.0 == k && e.1 < s).cloned();
            probes += 1;
            if got != wantp { println!("POINT MISMATCH {cfg} key={k:x?} S={s} got={:?} want={:?}", got.map(|e| (e.1, e.2)), wantp.map(|e| (e.1, e.2))); bad += 1; continue 'case; } } }
        // ranges with ping-pong
        for _ in 0..20 {
            let a = rng.pick(&probe_keys).clone(); let b = rng.pick(&probe_keys).clone();
            let lo = match rng.below(3) { 0 => Bound::Included(UserKey::from(a.clone())), 1 => Bound::Excluded(UserKey::from(a.clone())), _ => Bound::Unbounded };
            let hi = match rng.below(3) { 0 => Bound::Included(UserKey::from(b.clone())), 1 => Bound::Excluded(UserKey::from(b.clone())), _ => Bound::Unbounded };
            let inside = |k: &Vec<u8>| (match &lo { Bound::Included(x) => &k[..] >= &x[..], Bound::Excluded(x) => &k[..] > &x[..], Bound::Unbounded => true }) && (match &hi { Bound::Included(x) => &k[..] <= &x[..], Bound::Excluded(x) => &k[..] < &x[..], Bound::Unbounded => true });
            let wr: Vec<E> = wantg.iter().filter(|e| inside(&e.0)).cloned().collect();
            let mut iter = table.range((lo.clone(), hi.clone()));
            let (mut front, mut back) = (vec![], vec![]);
            loop { let f = rng.below(2) == 0; let x = if f { iter.next() } else { iter.next_back() }; match x { Some(x) => { let e = ent(&x.unwrap()); if f { front.push(e) } else { back.push(e) } } None => break } if front.len() + back.len() > wr.len() + 2 { break; } }
            back.reverse(); front.extend(back);
            if front != wr { println!("RANGE MISMATCH {cfg} lo={:?} hi={:?} got {} want {}", lo, hi, front.len(), wr.len()); bad += 1; continue 'case; }
        }
    }
    println!("tbl cases={cases} bad={bad} point-probes={probes} multiblock-tables={multiblock}");
}
