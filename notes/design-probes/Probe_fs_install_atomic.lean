-- throwaway feasibility probe for the FS layer (C05): accepted install sequences are crash-atomic
namespace FsProbe

abbrev Path := Nat × Nat                      -- (directory, name)
structure File where
  data   : List Nat                           -- volatile content, chunk by chunk
  synced : Nat                                -- leading chunks known durable
  linked : Bool                               -- directory entry durable
deriving Repr

/-- what a version needs on disk -/
structure Ver where
  id    : Nat
  files : List (Path × List Nat)              -- every file it names (version file included) with its full content

structure Fs where
  files   : Path → Option File
  curDur  : Nat                               -- durable content of `current`
  pending : Option (Nat × Bool)               -- renamed-but-not-dir-synced: (new value, temp file was fsynced)
  tmp     : Option (Nat × Bool)               -- temp file: (value, fsynced)

structure Disk where
  files   : Path → Option (List Nat)
  current : Option Nat                        -- none = unreadable garbage

/-- adversarial crash outcomes -/
def Crash (fs : Fs) (d : Disk) : Prop :=
  (∀ p f, fs.files p = some f →
      (d.files p = none ∧ f.linked = false) ∨
      (∃ k, f.synced ≤ k ∧ k ≤ f.data.length ∧ d.files p = some (f.data.take k))) ∧
  (match fs.pending with
   | none => d.current = some fs.curDur
   | some (v, true)  => d.current = some fs.curDur ∨ d.current = some v
   | some (_, false) => True)

/-- recovery relative to the two versions that can be named -/
def fileOk (d : Disk) (pf : Path × List Nat) : Prop := d.files pf.1 = some pf.2
def RecoversTo (d : Disk) (v : Ver) : Prop := d.current = some v.id ∧ ∀ pf ∈ v.files, fileOk d pf

inductive Act
  | create (p : Path) | append (p : Path) (c : Nat) | fsyncFile (p : Path) | fsyncDir (dir : Nat)
  | writeTmp (v : Nat) | fsyncTmp | rename | unlink (p : Path)

def upd (m : Path → Option File) (p : Path) (f : Option File) : Path → Option File :=
  fun q => if q = p then f else m q

def modFile (fs : Fs) (p : Path) (g : File → File) : Fs :=
  { fs with files := fun q => if q = p then (fs.files p).map g else fs.files q }

def apply (fs : Fs) : Act → Fs
  | .create p      => { fs with files := upd fs.files p (some ⟨[], 0, false⟩) }
  | .append p c    => modFile fs p (fun f => { f with data := f.data ++ [c] })
  | .fsyncFile p   => modFile fs p (fun f => { f with synced := f.data.length })
  | .fsyncDir dir  =>
      { fs with
        files := fun q => (fs.files q).map (fun f => if q.1 = dir then { f with linked := true } else f)
        curDur := if dir = 0 then (match fs.pending with | some (v, true) => v | _ => fs.curDur) else fs.curDur
        pending := if dir = 0 then (match fs.pending with | some (_, false) => fs.pending | _ => none) else fs.pending }
  | .writeTmp v    => { fs with tmp := some (v, false) }
  | .fsyncTmp      => { fs with tmp := fs.tmp.map (fun t => (t.1, true)) }
  | .rename        => match fs.tmp with
                      | some t => { fs with pending := some t, tmp := none }
                      | none => fs
  | .unlink p      => { fs with files := upd fs.files p none }

/-- a file is complete and fully durable -/
def Durable (fs : Fs) (pf : Path × List Nat) : Prop :=
  ∃ f, fs.files pf.1 = some f ∧ f.data = pf.2 ∧ f.synced = f.data.length ∧ f.linked = true

def names (v : Ver) (p : Path) : Prop := ∃ pf ∈ v.files, pf.1 = p

/-- the install-protocol guard of one action (clauses (a)–(e) of DESIGN.md §7/C05), phase-aware -/
inductive Phase | before | renamed | installed
deriving DecidableEq

def phaseOf (fs : Fs) (old new : Ver) : Phase :=
  if fs.curDur = new.id then .installed else if fs.pending.isSome then .renamed else .before

def Guard (old new : Ver) (fs : Fs) : Act → Prop
  | .create p     => ¬ names old p ∧ (phaseOf fs old new = .before ∨ ¬ names new p)
  | .append p _   => ¬ names old p ∧ (phaseOf fs old new = .before ∨ ¬ names new p)
  | .fsyncFile _  => True
  | .fsyncDir _   => True
  | .writeTmp v   => v = new.id ∧ phaseOf fs old new = .before
  | .fsyncTmp     => True
  | .rename       => phaseOf fs old new = .before ∧ fs.tmp = some (new.id, true) ∧ ∀ pf ∈ new.files, Durable fs pf
  | .unlink p     => ¬ names new p ∧ (phaseOf fs old new = .installed ∨ ¬ names old p)

def Accepts (old new : Ver) : Fs → List Act → Prop
  | _, [] => True
  | fs, a :: as => Guard old new fs a ∧ Accepts old new (apply fs a) as

def run (fs : Fs) (as : List Act) : Fs := as.foldl apply fs

/-- the three-phase invariant -/
def Inv (old new : Ver) (fs : Fs) : Prop :=
  (fs.curDur = old.id ∧ fs.pending = none ∧ (∀ pf ∈ old.files, Durable fs pf)) ∨
  (fs.curDur = old.id ∧ fs.pending = some (new.id, true) ∧ (∀ pf ∈ old.files, Durable fs pf) ∧ (∀ pf ∈ new.files, Durable fs pf)) ∨
  (fs.curDur = new.id ∧ fs.pending = none ∧ (∀ pf ∈ new.files, Durable fs pf))

theorem durable_crash {fs : Fs} {d : Disk} {pf : Path × List Nat} (h : Durable fs pf) (hc : Crash fs d) :
    fileOk d pf := by
  obtain ⟨f, hf, hdata, hsync, hlink⟩ := h
  rcases hc.1 pf.1 f hf with ⟨_, hl⟩ | ⟨k, hk1, hk2, hd⟩
  · simp [hlink] at hl
  · have : k = f.data.length := by omega
    subst this
    simp [fileOk, hd, hdata]

/-- every crash outcome of a state satisfying the invariant recovers to the old or the new version -/
theorem inv_recovers (old new : Ver) (fs : Fs) (d : Disk) (hi : Inv old new fs) (hc : Crash fs d) :
    RecoversTo d old ∨ RecoversTo d new := by
  rcases hi with ⟨hcur, hp, ho⟩ | ⟨hcur, hp, ho, hn⟩ | ⟨hcur, hp, hn⟩
  · left
    refine ⟨?_, fun pf hpf => durable_crash (ho pf hpf) hc⟩
    have := hc.2; simp [hp] at this; simpa [hcur] using this
  · have := hc.2; simp [hp] at this
    rcases this with h | h
    · left; exact ⟨by simpa [hcur] using h, fun pf hpf => durable_crash (ho pf hpf) hc⟩
    · right; exact ⟨h, fun pf hpf => durable_crash (hn pf hpf) hc⟩
  · right
    refine ⟨?_, fun pf hpf => durable_crash (hn pf hpf) hc⟩
    have := hc.2; simp [hp] at this; simpa [hcur] using this


/-! ### the step lemma and the main theorem -/

theorem durable_congr {fs fs' : Fs} {pf : Path × List Nat} (h : fs'.files pf.1 = fs.files pf.1) :
    Durable fs pf → Durable fs' pf := by
  rintro ⟨f, hf, r⟩; exact ⟨f, by rw [h, hf], r⟩

theorem upd_ne {m : Path → Option File} {p q : Path} {x : Option File} (h : q ≠ p) : upd m p x q = m q := by
  simp [upd, h]

theorem not_names_ne {v : Ver} {p : Path} {pf : Path × List Nat} (hpf : pf ∈ v.files) (hn : ¬ names v p) : pf.1 ≠ p :=
  fun h => hn ⟨pf, hpf, h⟩

/-- actions that only add durability keep `Durable` -/
theorem durable_fsyncFile {fs : Fs} {p : Path} {pf : Path × List Nat} (h : Durable fs pf) :
    Durable (apply fs (.fsyncFile p)) pf := by
  obtain ⟨f, hf, hd, hs, hl⟩ := h
  by_cases hq : pf.1 = p
  · subst hq
    exact ⟨{ f with synced := f.data.length }, by simp [apply, modFile, hf], hd, rfl, hl⟩
  · exact ⟨f, by simp [apply, modFile, hq, hf], hd, hs, hl⟩

theorem durable_fsyncDir {fs : Fs} {dir : Nat} {pf : Path × List Nat} (h : Durable fs pf) :
    Durable (apply fs (.fsyncDir dir)) pf := by
  obtain ⟨f, hf, hd, hs, hl⟩ := h
  by_cases hq : pf.1.1 = dir
  · exact ⟨{ f with linked := true }, by simp [apply, hf, hq], hd, hs, rfl⟩
  · exact ⟨f, by simp [apply, hf, hq], hd, hs, hl⟩

theorem step_inv (old new : Ver) (hne : old.id ≠ new.id) (fs : Fs) (a : Act)
    (hi : Inv old new fs) (hg : Guard old new fs a) : Inv old new (apply fs a) := by
  have hphase : (fs.curDur = old.id ∧ fs.pending = none → phaseOf fs old new = .before) ∧
                (fs.curDur = old.id ∧ fs.pending = some (new.id, true) → phaseOf fs old new = .renamed) ∧
                (fs.curDur = new.id → phaseOf fs old new = .installed) := by
    refine ⟨?_, ?_, ?_⟩
    · rintro ⟨h1, h2⟩; simp [phaseOf, h1, h2, hne]
    · rintro ⟨h1, h2⟩; simp [phaseOf, h1, h2, hne]
    · intro h1; simp [phaseOf, h1]
  cases a with
  | create p =>
    obtain ⟨hno, hnn⟩ := hg
    have keepOld : ∀ pf ∈ old.files, Durable fs pf → Durable (apply fs (.create p)) pf := fun pf hpf h =>
      durable_congr (by simp [apply, upd_ne (not_names_ne hpf hno)]) h
    rcases hi with ⟨hc, hp, ho⟩ | ⟨hc, hp, ho, hn⟩ | ⟨hc, hp, hn⟩
    · exact Or.inl ⟨hc, hp, fun pf hpf => keepOld pf hpf (ho pf hpf)⟩
    · have : ¬ names new p := by
        rcases hnn with h | h
        · rw [hphase.2.1 ⟨hc, hp⟩] at h; cases h
        · exact h
      exact Or.inr (Or.inl ⟨hc, hp, fun pf hpf => keepOld pf hpf (ho pf hpf),
        fun pf hpf => durable_congr (by simp [apply, upd_ne (not_names_ne hpf this)]) (hn pf hpf)⟩)
    · have : ¬ names new p := by
        rcases hnn with h | h
        · rw [hphase.2.2 hc] at h; cases h
        · exact h
      exact Or.inr (Or.inr ⟨hc, hp, fun pf hpf => durable_congr (by simp [apply, upd_ne (not_names_ne hpf this)]) (hn pf hpf)⟩)
  | append p c =>
    obtain ⟨hno, hnn⟩ := hg
    have same : ∀ v : Ver, ¬ names v p → ∀ pf ∈ v.files, Durable fs pf → Durable (apply fs (.append p c)) pf := by
      intro v hv pf hpf h
      refine durable_congr ?_ h
      simp [apply, modFile, not_names_ne hpf hv]
    have hcp : (apply fs (.append p c)).curDur = fs.curDur ∧ (apply fs (.append p c)).pending = fs.pending := ⟨rfl, rfl⟩
    rcases hi with ⟨hc, hp, ho⟩ | ⟨hc, hp, ho, hn⟩ | ⟨hc, hp, hn⟩
    · exact Or.inl ⟨hcp.1 ▸ hc, hcp.2 ▸ hp, fun pf hpf => same old hno pf hpf (ho pf hpf)⟩
    · have : ¬ names new p := by
        rcases hnn with h | h
        · rw [hphase.2.1 ⟨hc, hp⟩] at h; cases h
        · exact h
      exact Or.inr (Or.inl ⟨hcp.1 ▸ hc, hcp.2 ▸ hp, fun pf hpf => same old hno pf hpf (ho pf hpf), fun pf hpf => same new this pf hpf (hn pf hpf)⟩)
    · have : ¬ names new p := by
        rcases hnn with h | h
        · rw [hphase.2.2 hc] at h; cases h
        · exact h
      exact Or.inr (Or.inr ⟨hcp.1 ▸ hc, hcp.2 ▸ hp, fun pf hpf => same new this pf hpf (hn pf hpf)⟩)
  | fsyncFile p =>
    have hcp : (apply fs (.fsyncFile p)).curDur = fs.curDur ∧ (apply fs (.fsyncFile p)).pending = fs.pending := ⟨rfl, rfl⟩
    rcases hi with ⟨hc, hp, ho⟩ | ⟨hc, hp, ho, hn⟩ | ⟨hc, hp, hn⟩
    · exact Or.inl ⟨hcp.1 ▸ hc, hcp.2 ▸ hp, fun pf hpf => durable_fsyncFile (ho pf hpf)⟩
    · exact Or.inr (Or.inl ⟨hcp.1 ▸ hc, hcp.2 ▸ hp, fun pf hpf => durable_fsyncFile (ho pf hpf), fun pf hpf => durable_fsyncFile (hn pf hpf)⟩)
    · exact Or.inr (Or.inr ⟨hcp.1 ▸ hc, hcp.2 ▸ hp, fun pf hpf => durable_fsyncFile (hn pf hpf)⟩)
  | fsyncDir dir =>
    rcases hi with ⟨hc, hp, ho⟩ | ⟨hc, hp, ho, hn⟩ | ⟨hc, hp, hn⟩
    · refine Or.inl ⟨?_, ?_, fun pf hpf => durable_fsyncDir (ho pf hpf)⟩ <;> (unfold apply; by_cases h0 : dir = 0 <;> simp [h0, hp, hc])
    · by_cases h0 : dir = 0
      · refine Or.inr (Or.inr ⟨?_, ?_, fun pf hpf => durable_fsyncDir (hn pf hpf)⟩) <;> (unfold apply; simp [h0, hp])
      · refine Or.inr (Or.inl ⟨?_, ?_, fun pf hpf => durable_fsyncDir (ho pf hpf), fun pf hpf => durable_fsyncDir (hn pf hpf)⟩) <;> (unfold apply; simp [h0, hp, hc])
    · refine Or.inr (Or.inr ⟨?_, ?_, fun pf hpf => durable_fsyncDir (hn pf hpf)⟩) <;> (unfold apply; by_cases h0 : dir = 0 <;> simp [h0, hp, hc])
  | writeTmp v =>
    rcases hi with ⟨hc, hp, ho⟩ | ⟨hc, hp, ho, hn⟩ | ⟨hc, hp, hn⟩
    · exact Or.inl ⟨hc, hp, fun pf hpf => durable_congr rfl (ho pf hpf)⟩
    · exact Or.inr (Or.inl ⟨hc, hp, fun pf hpf => durable_congr rfl (ho pf hpf), fun pf hpf => durable_congr rfl (hn pf hpf)⟩)
    · exact Or.inr (Or.inr ⟨hc, hp, fun pf hpf => durable_congr rfl (hn pf hpf)⟩)
  | fsyncTmp =>
    rcases hi with ⟨hc, hp, ho⟩ | ⟨hc, hp, ho, hn⟩ | ⟨hc, hp, hn⟩
    · exact Or.inl ⟨hc, hp, fun pf hpf => durable_congr rfl (ho pf hpf)⟩
    · exact Or.inr (Or.inl ⟨hc, hp, fun pf hpf => durable_congr rfl (ho pf hpf), fun pf hpf => durable_congr rfl (hn pf hpf)⟩)
    · exact Or.inr (Or.inr ⟨hc, hp, fun pf hpf => durable_congr rfl (hn pf hpf)⟩)
  | rename =>
    obtain ⟨hph, htmp, hnew⟩ := hg
    rcases hi with ⟨hc, hp, ho⟩ | ⟨hc, hp, ho, hn⟩ | ⟨hc, hp, hn⟩
    · refine Or.inr (Or.inl ⟨?_, ?_, fun pf hpf => durable_congr ?_ (ho pf hpf), fun pf hpf => durable_congr ?_ (hnew pf hpf)⟩) <;>
        simp [apply, htmp, hc]
    · rw [hphase.2.1 ⟨hc, hp⟩] at hph; cases hph
    · rw [hphase.2.2 hc] at hph; cases hph
  | unlink p =>
    obtain ⟨hnn, hoo⟩ := hg
    have keep : ∀ v : Ver, ¬ names v p → ∀ pf ∈ v.files, Durable fs pf → Durable (apply fs (.unlink p)) pf := fun v hv pf hpf h =>
      durable_congr (by simp [apply, upd_ne (not_names_ne hpf hv)]) h
    rcases hi with ⟨hc, hp, ho⟩ | ⟨hc, hp, ho, hn⟩ | ⟨hc, hp, hn⟩
    · have : ¬ names old p := by
        rcases hoo with h | h
        · rw [hphase.1 ⟨hc, hp⟩] at h; cases h
        · exact h
      exact Or.inl ⟨hc, hp, fun pf hpf => keep old this pf hpf (ho pf hpf)⟩
    · have : ¬ names old p := by
        rcases hoo with h | h
        · rw [hphase.2.1 ⟨hc, hp⟩] at h; cases h
        · exact h
      exact Or.inr (Or.inl ⟨hc, hp, fun pf hpf => keep old this pf hpf (ho pf hpf), fun pf hpf => keep new hnn pf hpf (hn pf hpf)⟩)
    · exact Or.inr (Or.inr ⟨hc, hp, fun pf hpf => keep new hnn pf hpf (hn pf hpf)⟩)

/-- crash atomicity: every prefix of an accepted sequence, every adversarial outcome, recovers to old or new -/
theorem accepted_install_atomic (old new : Ver) (hne : old.id ≠ new.id) (fs : Fs) (as : List Act)
    (h0 : fs.curDur = old.id ∧ fs.pending = none ∧ ∀ pf ∈ old.files, Durable fs pf)
    (hacc : Accepts old new fs as) (i : Nat) (d : Disk) (hc : Crash (run fs (as.take i)) d) :
    RecoversTo d old ∨ RecoversTo d new := by
  have hinv : ∀ (as : List Act) (fs : Fs), Inv old new fs → Accepts old new fs as → ∀ i, Inv old new (run fs (as.take i)) := by
    intro as
    induction as with
    | nil => intro fs hi _ i; simpa [run] using hi
    | cons a as ih =>
      intro fs hi hacc i
      cases i with
      | zero => simpa [run] using hi
      | succ j =>
        simp only [List.take_succ_cons, run, List.foldl_cons]
        exact ih (apply fs a) (step_inv old new hne fs a hi hacc.1) hacc.2 j
  exact inv_recovers old new _ d (hinv as fs (Or.inl h0) hacc i) hc

#print axioms accepted_install_atomic

end FsProbe
