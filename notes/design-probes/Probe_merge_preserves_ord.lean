-- throwaway feasibility probe: a merge commit preserves the read-order invariant ORD under `Admissible`
namespace OrdProbe

structure Src where
  id    : Nat
  level : Nat
  ents  : List (Nat × Nat)          -- (user key, seqno)

/-- every version of a key in `a` is newer than every version of it in `b` -/
def Newer (a b : Src) : Prop := ∀ k sa sb, (k, sa) ∈ a.ents → (k, sb) ∈ b.ents → sb < sa

def ORD (l : List Src) : Prop := l.Pairwise Newer
def LevelSorted (l : List Src) : Prop := l.Pairwise (fun a b => a.level ≤ b.level)

def isInput (ids : List Nat) (s : Src) : Bool := ids.contains s.id

/-- `with_merge`: drop the inputs, put the output in front of everything at level ≥ dest -/
def mergeStep (l : List Src) (ids : List Nat) (d : Nat) (out : Src) : List Src :=
  l.filter (fun s => !isInput ids s && decide (s.level < d)) ++
  out :: l.filter (fun s => !isInput ids s && decide (d ≤ s.level))

/-- positional order in a list -/
def Before (l : List Src) (a b : Src) : Prop := ∃ l1 l2 l3, l = l1 ++ a :: l2 ++ b :: l3

def Shares (a b : Src) : Prop := ∃ k sa sb, (k, sa) ∈ a.ents ∧ (k, sb) ∈ b.ents

/-- DESIGN.md section 4, stated positionally -/
def Admissible (l : List Src) (ids : List Nat) (d : Nat) : Prop :=
  ∀ t ∈ l, isInput ids t = true → ∀ x ∈ l, isInput ids x = false → Shares x t →
    (Before l x t ∧ x.level < d) ∨ (Before l t x ∧ d ≤ x.level)

theorem pairwise_before {R : Src → Src → Prop} {l : List Src} (h : l.Pairwise R) {a b : Src} (hb : Before l a b) : R a b := by
  obtain ⟨l1, l2, l3, rfl⟩ := hb
  have h1 : (a :: l2 ++ b :: l3).Pairwise R := by
    have := List.pairwise_append.mp (by simpa [List.append_assoc] using h : (l1 ++ (a :: l2 ++ b :: l3)).Pairwise R)
    exact this.2.1
  have h2 := List.pairwise_cons.mp (by simpa using h1 : (a :: (l2 ++ b :: l3)).Pairwise R)
  exact h2.1 b (by simp)

/-- what `Admissible` buys, semantically -/
theorem admissible_newer (l : List Src) (ids : List Nat) (d : Nat) (hord : ORD l) (hadm : Admissible l ids d) :
    (∀ x ∈ l, isInput ids x = false → x.level < d → ∀ t ∈ l, isInput ids t = true → Newer x t) ∧
    (∀ x ∈ l, isInput ids x = false → d ≤ x.level → ∀ t ∈ l, isInput ids t = true → Newer t x) := by
  constructor
  · intro x hx hxi hlv t ht hti k sa sb ha hb
    rcases hadm t ht hti x hx hxi ⟨k, sa, sb, ha, hb⟩ with ⟨hbef, _⟩ | ⟨_, hge⟩
    · exact pairwise_before hord hbef k sa sb ha hb
    · omega
  · intro x hx hxi hlv t ht hti k sa sb ha hb
    rcases hadm t ht hti x hx hxi ⟨k, sb, sa, hb, ha⟩ with ⟨_, hlt⟩ | ⟨hbef, _⟩
    · omega
    · exact pairwise_before hord hbef k sa sb ha hb

/-- two members of a level-sorted ORD list with strictly increasing level are in ORD order -/
theorem newer_of_level_lt : ∀ (l : List Src), ORD l → LevelSorted l →
    ∀ x ∈ l, ∀ y ∈ l, x.level < y.level → Newer x y := by
  intro l
  induction l with
  | nil => intro _ _ x hx; cases hx
  | cons a as ih =>
    intro hord hlev x hx y hy hlt
    have ho := List.pairwise_cons.mp hord
    have hl := List.pairwise_cons.mp hlev
    rcases List.mem_cons.mp hx with rfl | hx'
    · rcases List.mem_cons.mp hy with rfl | hy'
      · omega
      · exact ho.1 y hy'
    · rcases List.mem_cons.mp hy with rfl | hy'
      · have := hl.1 x hx'; omega
      · exact ih ho.2 hl.2 x hx' y hy' hlt

/-- the commit keeps ORD: output entries come from the inputs, `Admissible` holds, levels are sorted -/
theorem mergeStep_ord (l : List Src) (ids : List Nat) (d : Nat) (out : Src)
    (hord : ORD l) (hlev : LevelSorted l) (hadm : Admissible l ids d)
    (hout : ∀ e ∈ out.ents, ∃ t ∈ l, isInput ids t = true ∧ e ∈ t.ents) :
    ORD (mergeStep l ids d out) := by
  obtain ⟨hA1, hA2⟩ := admissible_newer l ids d hord hadm
  unfold mergeStep ORD
  rw [List.pairwise_append]
  refine ⟨List.Pairwise.filter _ hord, ?_, ?_⟩
  · rw [List.pairwise_cons]
    refine ⟨?_, List.Pairwise.filter _ hord⟩
    intro y hy k sa sb ha hb
    obtain ⟨hyl, hyp⟩ := List.mem_filter.mp hy
    simp at hyp
    obtain ⟨t, ht, hti, hat⟩ := hout (k, sa) ha
    exact hA2 y hyl (by simpa [isInput] using hyp.1) hyp.2 t ht hti k sa sb hat hb
  · intro x hx y hy
    obtain ⟨hxl, hxp⟩ := List.mem_filter.mp hx
    simp at hxp
    rcases List.mem_cons.mp hy with rfl | hy'
    · intro k sa sb ha hb
      obtain ⟨t, ht, hti, hbt⟩ := hout (k, sb) hb
      exact hA1 x hxl (by simpa [isInput] using hxp.1) hxp.2 t ht hti k sa sb ha hbt
    · obtain ⟨hyl, hyp⟩ := List.mem_filter.mp hy'
      simp at hyp
      exact newer_of_level_lt l hord hlev x hxl y hyl (by omega)

#print axioms mergeStep_ord

end OrdProbe
